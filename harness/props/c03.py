"""C03 - trees stay well-formed arborescences under every history of mutating operations."""
import random
import re
from fractions import Fraction

import treeutil as tu
from common import time_limit, Timeout

ID = "C03"
GEN_DEPENDS = ["C03Guards"]   # decision kernels of the anchored routines, regenerated from the source (harness/gen/c03guards.py)
RULE = ("histories of public mutators of Tree/Node/Edge (random, <= 30 ops, trees of 1-10 leaves with unary nodes, polytomies, "
        "None/zero/dyadic lengths, all three rooting states; thorough adds every depth-1 history with every flag setting and "
        "every depth-2 history from every tree of <= 4 leaves); after EVERY step: literal arborescence walk, leaf-taxon "
        "accounting, fresh-encoding comparison, model comparison. non-trivial = the step changed the tree or raised")
MODELLED_NOT_VERIFIED = [
    "C03: Model/C03.lean is hand-written from the anchored routines; tied to the code by the per-step comparison of the whole "
    "tree (ids, child order, taxa, rooting flag) after every operation of every history. Child order is compared although the "
    "statement does not fix it (by design: a wrong insert position is a book-keeping slip; a deliberate reordering in /repo "
    "needs a model update). Edge lengths are compared too, but a difference in lengths ALONE is only counted "
    "(model_differs_in_lengths_only:*), never reported - the statement does not speak of lengths",
    "C03: Model/C03Heap.lean (pointer primitives as written) is tied to Node/Edge by the `heap` comparison: the shape read back "
    "from the top-most ancestor AND the parent pointer and child list of EVERY node of the case, detached ones included (what "
    "remove_child leaves in the removed node, Edge.collapse in the dissolved one, the emptied child list of a suppressed node); "
    "the reseed chain is compared with Tree.reseed_at itself (all clean-up switched off)",
    "C03: Heap.supStep / Heap.supLoop (pointer-level loop of suppress_unifurcations, theorem suppressLoop_repr) are executable in "
    "the driver (`heap suppress <tree>`) but no generated case compares them with the library yet; a one-off comparison on "
    "random trees was made when they were written",
    "C03: Gen/C03Guards.lean (decision kernels of collapse_unweighted_edges, reseed_at / encode_bipartitions guards, "
    "collapse_basal_bifurcation, remove_child(suppress), suppress_unifurcations, resolve_polytomies; defaults) is regenerated from "
    "the source on every run by harness/gen/c03guards.py (trusted: its atom table - which sub-expression is which atom); the "
    "gen_* theorems tie each kernel to the model",
    "C03: `step` refuses (bad-input) operations naming nodes that are not in the tree or breaking the harness's issuing "
    "preconditions (e.g. parent setter into the node's own subtree, resolve limit < 2); those branches make no claim about the code",
    "C03: resolve_polytomies(rng=<scripted rng>) IS modelled (Op.resolveRng: rng.sample = successive draws `script value % len(pool)` "
    "without replacement, rng.choice = seq[script value % len(seq)], exhausted script = 0; class ResolveRng below is that rng) and "
    "compared node for node; with a real random.Random (op resolve_rng_real) it is checked by the oracle only, as are "
    "reroot_at_midpoint and the pointer state of detached nodes (no model)",
    "C03: after a raise the real tree is compared node for node with the model's `errState` (state as it was; filter_leaf_nodes: "
    "the bare seed its loop had reached); composed histories (`runE`) continue from that state",
    "C03: the structures a history detaches (removed subtree, what `tree.seed_node = node` leaves behind, a second Tree built "
    "from a clade) are judged by the oracle as arborescences of their own that share no node with the tree; the model carries only the tree",
    "C03: node annotations, comments, labels and Edge objects' own attributes are carried opaquely; add_child of a node that is "
    "still attached elsewhere is outside the documented precondition and outside the history alphabet",
    "C03: clause (c): the Lean state carries no stored encoding; encode_is_fresh / step_update_is_fresh say that the tree an "
    "update_bipartitions=True operation returns is the output of a final encode_bipartitions call whose encoding (C01's model "
    "`encode`, imported read-only) equals a fresh non-restructuring encoding of that tree; that the library's STORED masks are "
    "those is decided by the from-scratch oracle (and is C01's property)",
]
EXPLANATION = ("Theorems (Props/C03.lean, no sorry/axioms): step_wf / history_wf - every operation of the 31-constructor alphabet "
               "(incl. resolve_polytomies under ANY scripted rng: Op.resolveRng, all four step theorems at full strength) "
               "and every finite history keeps the rose tree free of shared nodes (nothing more: retention and gain are separate "
               "theorems); step_keeps_leaves / history_keeps_leaves - NOTHING LOST: for every operation except shuffle_taxa, on a "
               "tree without shared nodes a taxon-bearing leaf not asked to be removed (nor given a child) stays a leaf, same "
               "node, same taxon; step_no_new_node_taxon - no node acquires a taxon it did not carry; step_no_new_leaf - NOTHING "
               "GAINED, under the explicit scope 'no internal node carries a taxon': no taxon-bearing leaf appears except on "
               "nodes the operation created (without that scope the clause is false in model and library alike: an emptied "
               "taxon-bearing internal node is a new taxon-bearing leaf); shuffle_keeps_leaf_taxa - a permutation; "
               "suppress_keeps_leaf_taxa; heap layer: ofTree_repr, removeChild_repr/_frame/_refines, addChild_repr, "
               "insertChild_repr, addChild_refines (add_child / insert_child of a NEW childless node only), addChild_subtree_repr, "
               "removeChild_detached_repr (the removed subtree is represented on its own, parentless), setParent_repr/_refines (the "
               "parent_node setter as written refines `step`), edgeCollapse_repr/_refines/_error_refines (Edge.collapse as written; "
               "completes / raises together with `step`), collapseBasal_repr/_refines (collapse_basal_bifurcation = that one "
               "Edge.collapse), edgeInvert_repr (Edge.invert at the seed) and edgeInvert_inner_breaks (anywhere else the routine "
               "leaves no tree - why only reseed_at's chain may use it), removeChildSuppress_refines/_step_refines (the "
               "suppress_unifurcations branch of remove_child, non-root and root case, end to end), removeChild_error_refines (where "
               "`step` answers ValueError the pointer routine raises before touching a pointer), insertMove_refines (insert_child of "
               "a node that already is a child), repr_is_arborescence (what Repr + no sharing says on the pointers alone: clause (a) "
               "literally), suppressLoop_repr/_refines (the loop of Tree.suppress_unifurcations as written - post-order, one-child nodes "
               "spliced out at their position, seed case - leaves a heap that represents the tree-level `sup`), reseedAt_refines "
               "(reseed_at with suppress_unifurcations=True IN FULL for an internal new seed: chain, guarded basal Edge.collapse, "
               "suppression loop), CLAUSE (c): encodeStruct_is_C01 / encode_is_fresh / step_update_is_fresh (for 12 operations, reroot_at_edge included, asked to update "
               "bipartitions the returned state is the output of a final encode_bipartitions call, whose encoding per C01's model "
               "equals a fresh non-restructuring encoding of the returned tree; not to_outgroup_position / "
               "suppress_unifurcations / randomly_reorient), the ERROR CLAUSE: errState_wf (the state a raising operation leaves behind - `errState`, run by the driver "
               "and compared with the real tree after every raise - has no shared node), errState_unchanged (every operation "
               "but filter_leaf_nodes raises before its first write), filterLeaves_error_state (filter_leaf_nodes leaves the bare "
               "seed), historyE_wf / runE_eq_run (histories continued from those states), reseedAt_collapse_refines (reseed_at with suppress_unifurcations=False: chain, then the guarded basal "
               "collapse), reseedChain_refines (the "
               "edge-inversion chain of reseed_at as written represents the tree-level re-seeding before clean-up; "
               "reseedAt_refines_partial = the same for reseed_at with both clean-up flags off); tie (A): gen_* (15 theorems: the "
               "decision kernels regenerated from the source are the model's); polytomize_fixpoint, "
               "dropLeavesFix_fixpoint, filterLoop_fixpoint, pruneUp_fuel_suffices (fuel of every bounded loop suffices). Not "
               "proved, only modelled and compared with the code every run: the leaf-target clean-up after the inversion chain "
               "(a LEAF as new seed, outside the documented domain: reseedAt_refines assumes an internal new seed); the pointer-level "
               "supStep / supLoop are run by the driver (`heap suppress`) but are not among the generated heap cases yet (only their "
               "tree-level counterpart `sup` is compared every run); pointer-level refinement of filter_leaf_nodes' raising "
               "path (its partially mutated state is modelled at tree level only); that the library's stored masks are the fresh ones (oracle; C01's property); reroot_at_midpoint and "
               "resolve_polytomies with a real random.Random (oracle only). The driver runs `step` per "
               "operation and `runE` on whole histories without node-creating operations.")

DOC_ERRORS = ("ValueError", "TypeError", "SeedNodeDeletionException")
FLAG_OPS_UB = {"reseed", "rerootnode", "rerootedge", "outgroup", "suppress", "collapseunweighted", "resolve", "resolve_rng",
               "resolve_rng_real",
               "prunesubtree", "filterleaves", "prunenotaxa", "prunetaxa", "retaintaxa", "reorient", "midpoint"}
NO_MODEL = {"resolve_rng_real", "midpoint"}
HUNG = set()          # operations that ran into the time limit
MAX_FAILURES = 60     # enough to report; the search stops there
HANG_S = 20           # far above any legitimate run time (operations on these trees take well under a millisecond)


# ----------------------------------------------------------------------------------------------- world
def label_of_bit(k):
    return "t%03d" % k   # label order == accession order (Tree.reorder sorts by label)


class World(object):
    """the real objects of one history"""

    def __init__(self, dendropy, toks, rooted, limbo_toks=None, nbits=None):
        self.dendropy = dendropy
        bits = [int(x) for x in toks[1 + int(toks[0]):1 + 2 * int(toks[0])] if x != "-"]
        if limbo_toks:
            bits += [int(x) for x in limbo_toks[1 + int(limbo_toks[0]):1 + 2 * int(limbo_toks[0])] if x != "-"]
        self.nbits = nbits if nbits is not None else (max(bits) + 1 if bits else 1) + 4
        self.tns = dendropy.TaxonNamespace([label_of_bit(i) for i in range(self.nbits)])
        self.tree, _ = tu.tree_from_tokens(dendropy, toks, rooted={"R": True, "U": False, "N": None}[rooted], tns=self.tns)
        self.limbo = None
        self.other = None       # a second Tree object built from a clade of the first
        if limbo_toks:
            lt, _ = tu.tree_from_tokens(dendropy, limbo_toks, tns=self.tns)
            self.limbo = lt.seed_node

    def rooted(self):
        r = self.tree.is_rooted
        return "N" if r is None else ("R" if r else "U")

    def used_bits(self):
        used = set()
        for root in [self.tree.seed_node] + ([self.limbo] if self.limbo is not None else []):
            for nd in tu.walk(root):
                if nd.taxon is not None:
                    used.add(self.tns.accession_index(nd.taxon))
        return used

    def taxon(self, bit):
        if bit is None:
            return None
        for t in self.tns:
            if self.tns.accession_index(t) == bit:
                return t
        raise KeyError(bit)


class ScriptRng(object):
    """scripted random source handed to randomly_rotate / shuffle_taxa / randomly_reorient"""

    def __init__(self, mode=2, pick=0, rs=()):
        self.mode, self.pick, self.rs = mode, pick, list(rs)

    def shuffle(self, l):
        if self.mode == 0:
            l.reverse()
        elif self.mode == 1:
            l[:] = l[1:] + l[:1]

    def sample(self, pop, k):
        return [pop[self.pick]]

    def randrange(self, n):
        r = self.rs.pop(0) if self.rs else 0
        return r % n


class ResolveRng(object):
    """scripted random source handed to resolve_polytomies(rng=...); exactly the rng of the Lean model (`sampleS`, `attachLoop`
    in Model/C03.lean): the script is consumed left to right over the whole call, an exhausted script yields 0;
    sample(pop, k) = k successive draws without replacement, a draw removes pool[r % len(pool)] from the shrinking pool
    (result in draw order); choice(seq) = seq[r % len(seq)]"""

    def __init__(self, script):
        self.script = list(script)

    def _next(self):
        return self.script.pop(0) if self.script else 0

    def sample(self, pop, k):
        pool = list(pop)
        return [pool.pop(self._next() % len(pool)) for _ in range(k)]

    def choice(self, seq):
        return seq[self._next() % len(seq)]


def L(x):
    """exact length <-> protocol text"""
    return tu.frac(x)


def unL(s):
    return None if s == "N" else float(Fraction(s))


# ----------------------------------------------------------------------------------------------- snapshot of a tree
class Snap(object):
    def __init__(self, world):
        self.toks, self.ids = tu.encode_tree(world.tree, with_labels=False)
        self.n = len(self.ids)
        self.rooted = world.rooted()
        nodes = self.ids.keep
        self.parent = [None if nd._parent_node is None else self.ids.of(nd._parent_node) for nd in nodes]
        self.kids = [[self.ids.of(c) for c in nd._child_nodes] for nd in nodes]
        self.taxbit = [None if nd.taxon is None else world.tns.accession_index(nd.taxon) for nd in nodes]
        self.render = tu.render_tree(world.tree, self.ids)
        self.limbo_toks = None
        self.limbo_n = 0
        if world.limbo is not None:
            lids = tu.Ids().assign_preorder(world.limbo)
            fake = type("X", (), {})()
            fake.seed_node, fake.taxon_namespace = world.limbo, world.tns
            self.limbo_toks, _ = tu.encode_tree(fake, ids=lids, with_labels=False)
            self.limbo_toks[1] = "-1"
            self.limbo_n = len(lids)
            for j, nd in enumerate(lids.keep):      # detached nodes are known nodes: ids n .. n+m-1
                self.ids.map[id(nd)] = self.n + j
                self.ids.keep.append(nd)

    def subtree(self, i):
        out, st = [], [i]
        while st:
            x = st.pop()
            out.append(x)
            st.extend(self.kids[x])
        return out

    def leaves(self):
        return [i for i in range(self.n) if not self.kids[i]]


# ----------------------------------------------------------------------------------------------- operations
def flagsets(rng, names, full):
    """all combinations (full) or one random, default-biased, combination"""
    if full:
        out = [{}]
        for nm in names:
            out = [dict(o, **{nm: v}) for o in out for v in (0, 1)]
        return out
    dflt = {"ub": 0, "s": 1, "c": 1, "su": 1, "rec": 1, "adj": 0, "asc": 1}
    return [{nm: (dflt.get(nm, 0) if rng.random() < 0.5 else rng.randint(0, 1)) for nm in names}]


def candidates(world, snap, rng, full=False, cats=None):
    """operation instances admissible on the current tree (documented argument conditions hold) plus the
    documented-error stream (op['expect'] = exception class).  full=True: every target and flag combination
    (thorough small scope); else one random instance per category."""
    n = snap.n
    allv = list(range(n))
    nonroot = allv[1:]
    internal = [i for i in allv if snap.kids[i]]
    leaves = snap.leaves()
    tax_leaves = [i for i in leaves if snap.taxbit[i] is not None]
    ops = []

    def pick(seq):
        return list(seq) if full else ([rng.choice(list(seq))] if seq else [])

    def lens():
        if full:
            return ["N", "3/2"]
        return [L(tu.dyadic(rng, none_rate=0.3))]

    def want(cat):
        return cats is None or cat in cats

    unused = sorted(set(range(world.nbits)) - world.used_bits())
    newtax = [None] + unused[:1]
    if want("remove"):
        for c in pick(nonroot):
            for f in flagsets(rng, ["s"], full):
                ops.append(dict(op="remove", p=snap.parent[c], c=c, **f))
    if want("newchild"):
        for p in pick(allv):
            for x in (newtax if full else [rng.choice(newtax)]):
                for l in lens():
                    ops.append(dict(op="newchild", p=p, x=x, l=l))
    if want("insertnew"):
        for p in pick(allv):
            for idx in pick(range(len(snap.kids[p]) + 1)):
                ops.append(dict(op="insertnew", p=p, idx=idx, x=rng.choice(newtax), l=lens()[0]))
    if world.limbo is not None:
        if want("addsub"):
            for p in pick(allv):
                ops.append(dict(op="addsub", p=p))
        if want("insertsub"):
            for p in pick(allv):
                for idx in pick(range(len(snap.kids[p]) + 1)):
                    ops.append(dict(op="insertsub", p=p, idx=idx))
    if want("insertmove"):
        for p in pick(internal):
            for c in pick(snap.kids[p]):
                for idx in pick(range(len(snap.kids[p]))):
                    ops.append(dict(op="insertmove", p=p, idx=idx, c=c))
    if want("setparent"):
        for c in pick(nonroot):
            sub = set(snap.subtree(c))
            for q in pick([q for q in allv if q not in sub]):
                ops.append(dict(op="setparent", c=c, q=q))
    if want("edgecollapse"):
        for c in pick(internal):
            for f in flagsets(rng, ["adj"], full):
                ops.append(dict(op="edgecollapse", c=c, **f))
    if want("collapseclade"):
        for c in pick(allv):
            ops.append(dict(op="collapseclade", c=c))
    if want("reseed"):
        for t in pick(internal):
            for f in flagsets(rng, ["ub", "c", "s"], full):
                ops.append(dict(op="reseed", n=t, **f))
    if want("reseed_leaf"):
        for t in pick([i for i in leaves if i != 0]):
            for f in flagsets(rng, ["c", "s"], full):
                ops.append(dict(op="reseed", n=t, ub=0, undoc=1, **f))
    if want("rerootnode"):
        for t in pick(internal):
            for f in flagsets(rng, ["ub", "s", "c"], full):
                ops.append(dict(op="rerootnode", n=t, **f))
    if want("rerootedge"):
        for t in pick(nonroot):
            for f in flagsets(rng, ["ub", "s"], full):
                l1, l2 = ("1/2", "N") if full else (lens()[0], lens()[0])
                ops.append(dict(op="rerootedge", n=t, l1=l1, l2=l2, **f))
    if want("outgroup"):
        for t in pick(nonroot):
            for f in flagsets(rng, ["ub", "s"], full):
                ops.append(dict(op="outgroup", n=t, **f))
    if want("suppress"):
        for f in flagsets(rng, ["ub"], full):
            ops.append(dict(op="suppress", **f))
    if want("collapsebasal"):
        for f in flagsets(rng, ["su"], full):
            ops.append(dict(op="collapsebasal", **f))
        ops.append(dict(op="collapsebasal", su=1, deroot=1))
    if want("polytomize"):
        for f in flagsets(rng, ["su"], full):
            ops.append(dict(op="polytomize", **f))
    if want("collapseunweighted"):
        for thr in (["0", "1"] if full else [rng.choice(["0", "1/2", "1", "2", "1/10000000"])]):
            for f in flagsets(rng, ["ub"], full):
                ops.append(dict(op="collapseunweighted", thr=thr, **f))
    if want("resolve"):
        for lim in ([2, 3] if full else [rng.choice([2, 2, 3])]):
            for f in flagsets(rng, ["ub"], full):
                ops.append(dict(op="resolve", lim=lim, **f))
    if want("resolve_rng"):
        # scripted rng (modelled): at most 2 script values per child of a polytomy are consumed; shorter scripts run dry (= 0)
        for lim in ([2, 3] if full else [rng.choice([2, 2, 3])]):
            for f in flagsets(rng, ["ub"], full):
                scripts = [[rng.randrange(1000) for _ in range(rng.randint(0, 2 * n + 2))]]
                if full:
                    scripts.append([])
                for sc in scripts:
                    ops.append(dict(op="resolve_rng", lim=lim, script=sc, **f))
    if want("resolve_rng_real"):
        ops.append(dict(op="resolve_rng_real", lim=rng.choice([2, 2, 3]), seed=rng.randrange(10 ** 6), ub=rng.randint(0, 1)))
    if want("prunesubtree"):
        for c in pick(nonroot):
            for f in flagsets(rng, ["ub", "s"], full):
                ops.append(dict(op="prunesubtree", c=c, **f))
    if want("filterleaves"):
        keeps = []
        if full:
            keeps = [sorted(set(allv) - {l}) for l in leaves] + [sorted(set(allv) - set(leaves))]
        else:
            rate = rng.choice([0.3, 0.6, 0.9])
            keeps = [[i for i in allv if rng.random() < rate]]
        for keep in keeps:
            for f in flagsets(rng, ["rec", "ub", "s"], full and n <= 5):
                ops.append(dict(op="filterleaves", keep=keep, **f))
    if tax_leaves:
        if want("prunenotaxa"):
            for f in flagsets(rng, ["rec", "ub", "s"], full):
                ops.append(dict(op="prunenotaxa", **f))
        present = sorted({snap.taxbit[i] for i in tax_leaves})
        if len(tax_leaves) >= 2 and len(present) >= 2:
            if full:
                subsets = [[b] for b in present] + [present[:-1]]
            else:
                k = rng.randint(1, len(present) - 1)
                subsets = [sorted(rng.sample(present, k))]
            for sub in subsets:
                for f in flagsets(rng, ["ub", "s"], full):
                    if want("prunetaxa"):
                        ops.append(dict(op="prunetaxa", bits=sub + ([world.nbits - 1] if (world.nbits - 1) in unused else []), **f))
                    if want("retaintaxa"):
                        ops.append(dict(op="retaintaxa", bits=sub, **f))
    if want("ladderize"):
        for f in flagsets(rng, ["asc"], full):
            ops.append(dict(op="ladderize", **f))
    if want("reorder"):
        ops.append(dict(op="reorder"))
    if want("rotate"):
        for m in ([0, 1] if full else [rng.randint(0, 1)]):
            ops.append(dict(op="rotate", mode=m))
    if want("shuffle"):
        ops.append(dict(op="shuffle", rs=[rng.randrange(8) for _ in tax_leaves] or [0]))
    if want("encode"):
        for f in flagsets(rng, ["s", "c"], full):
            ops.append(dict(op="encode", **f))
    if want("setseed"):
        # `tree.seed_node = node` with a node that is still attached: "spliced out of its current context"
        for t in pick(allv):
            ops.append(dict(op="setseed", n=t))
    if want("newtree"):
        # Tree(seed_node=clade of this tree): the clade leaves the donor tree
        for t in pick(nonroot):
            ops.append(dict(op="newtree", n=t))
    if want("reorient"):
        for k in pick(allv):
            for f in flagsets(rng, ["ub"], full):
                ops.append(dict(op="reorient", k=k, mode=rng.randint(0, 1), **f))
    if want("midpoint") and len(tax_leaves) == len(leaves) >= 2 and len(set(snap.taxbit[i] for i in leaves)) == len(leaves) \
            and all(len(k) != 1 for k in snap.kids):
        ops.append(dict(op="midpoint", ub=rng.randint(0, 1), s=1))
    # ---- documented-error stream
    if want("errors"):
        if nonroot:
            c = rng.choice(nonroot)
            others = [p for p in allv if p != snap.parent[c]]
            if others:
                ops.append(dict(op="remove", p=rng.choice(others), c=c, s=rng.randint(0, 1), expect="ValueError"))
        if [i for i in leaves if i != 0]:
            ops.append(dict(op="edgecollapse", c=rng.choice([i for i in leaves if i != 0]), adj=0, expect="ValueError"))
        ops.append(dict(op="prunesubtree", c=0, ub=0, s=1, expect="TypeError"))
    return ops


def to_line(snap, op):
    """protocol line for the model, or None when the operation has no model"""
    o = op["op"]
    if o in NO_MODEL:
        return None
    t = " ".join(snap.toks)
    x = lambda v: "-" if v is None else str(v)
    lst = lambda v: ",".join(str(i) for i in v) if v else "-"
    head = "step %s " % snap.rooted
    if o == "remove":
        return head + "remove %d %d %d %s" % (op["p"], op["c"], op["s"], t)
    if o == "newchild":
        return head + "newchild %d %s %s %s" % (op["p"], x(op["x"]), op["l"], t)
    if o == "insertnew":
        return head + "insertnew %d %d %s %s %s" % (op["p"], op["idx"], x(op["x"]), op["l"], t)
    if o == "addsub":
        return head + "addsub %d %s %s" % (op["p"], t, " ".join(snap.limbo_toks))
    if o == "insertsub":
        return head + "insertsub %d %d %s %s" % (op["p"], op["idx"], t, " ".join(snap.limbo_toks))
    if o == "insertmove":
        return head + "insertmove %d %d %d %s" % (op["p"], op["idx"], op["c"], t)
    if o == "setparent":
        return head + "setparent %d %d %s" % (op["c"], op["q"], t)
    if o == "edgecollapse":
        return head + "edgecollapse %d %d %s" % (op["c"], op["adj"], t)
    if o == "collapseclade":
        return head + "collapseclade %d %s" % (op["c"], t)
    if o == "reseed":
        return head + "reseed %d %d %d %s" % (op["n"], op["c"], op["s"], t)
    if o == "rerootnode":
        return head + "rerootnode %d %d %d %d %s" % (op["n"], op["ub"], op["s"], op["c"], t)
    if o == "rerootedge":
        return head + "rerootedge %d %s %s %d %d %s" % (op["n"], op["l1"], op["l2"], op["ub"], op["s"], t)
    if o == "outgroup":
        return head + "outgroup %d %d %s" % (op["n"], op["s"], t)
    if o == "suppress":
        return head + "suppress %s" % t
    if o == "collapsebasal":
        return head + "collapsebasal %d %s" % (op["su"], t)
    if o == "polytomize":
        return head + "polytomize %d %s" % (op["su"], t)
    if o == "collapseunweighted":
        return head + "collapseunweighted %s %d %s" % (op["thr"], op["ub"], t)
    if o == "resolve":
        return head + "resolve %d %d %s" % (op["lim"], op["ub"], t)
    if o == "resolve_rng":
        return head + "resolverng %d %d %s %s" % (op["lim"], op["ub"], lst(op["script"]), t)
    if o == "prunesubtree":
        return head + "prunesubtree %d %d %d %s" % (op["c"], op["ub"], op["s"], t)
    if o == "filterleaves":
        return head + "filterleaves %s %d %d %d %s" % (lst(op["keep"]), op["rec"], op["ub"], op["s"], t)
    if o == "prunenotaxa":
        return head + "prunenotaxa %d %d %d %s" % (op["rec"], op["ub"], op["s"], t)
    if o == "prunetaxa":
        return head + "prunetaxa %s %d %d %s" % (lst(op["bits"]), op["ub"], op["s"], t)
    if o == "retaintaxa":
        return head + "retaintaxa %s %d %d %s" % (lst(op["bits"]), op["ub"], op["s"], t)
    if o == "ladderize":
        return head + "ladderize %d %s" % (op["asc"], t)
    if o == "reorder":
        return head + "reorder %s" % t
    if o == "rotate":
        return head + "rotate %d %s" % (op["mode"], t)
    if o == "shuffle":
        return head + "shuffle %s %s" % (lst(op["rs"]), t)
    if o == "encode":
        return head + "encode %d %d %s" % (op["s"], op["c"], t)
    if o == "reorient":
        return head + "reorient %d %d %s" % (op["k"], op["mode"], t)
    if o == "setseed":
        return head + "setseed %d %s" % (op["n"], t)
    if o == "newtree":
        # for the donor tree this is the plain removal of the clade
        return head + "remove %d %d 0 %s" % (snap.parent[op["n"]], op["n"], t)
    raise ValueError(o)


def execute(world, snap, op):
    """run the operation on the real objects"""
    tree, ids = world.tree, snap.ids
    N = ids.node
    o = op["op"]
    b = lambda k: bool(op[k])
    if o == "remove":
        N(op["p"]).remove_child(N(op["c"]), suppress_unifurcations=b("s"))
    elif o == "newchild":
        N(op["p"]).new_child(taxon=world.taxon(op["x"]), edge_length=unL(op["l"]))
    elif o == "insertnew":
        N(op["p"]).insert_new_child(op["idx"], taxon=world.taxon(op["x"]), edge_length=unL(op["l"]))
    elif o == "addsub":
        N(op["p"]).add_child(world.limbo)
    elif o == "insertsub":
        N(op["p"]).insert_child(op["idx"], world.limbo)
    elif o == "insertmove":
        N(op["p"]).insert_child(op["idx"], N(op["c"]))
    elif o == "setparent":
        N(op["c"]).parent_node = N(op["q"])
    elif o == "edgecollapse":
        N(op["c"]).edge.collapse(adjust_collapsed_head_children_edge_lengths=b("adj"))
    elif o == "collapseclade":
        N(op["c"]).collapse_clade()
    elif o == "reseed":
        tree.reseed_at(N(op["n"]), update_bipartitions=b("ub"), collapse_unrooted_basal_bifurcation=b("c"),
                       suppress_unifurcations=b("s"))
    elif o == "rerootnode":
        tree.reroot_at_node(N(op["n"]), update_bipartitions=b("ub"), suppress_unifurcations=b("s"),
                            collapse_unrooted_basal_bifurcation=b("c"))
    elif o == "rerootedge":
        tree.reroot_at_edge(N(op["n"]).edge, length1=unL(op["l1"]), length2=unL(op["l2"]), update_bipartitions=b("ub"),
                            suppress_unifurcations=b("s"))
    elif o == "outgroup":
        tree.to_outgroup_position(N(op["n"]), update_bipartitions=b("ub"), suppress_unifurcations=b("s"))
    elif o == "suppress":
        tree.suppress_unifurcations(update_bipartitions=b("ub"))
    elif o == "collapsebasal":
        if op.get("deroot"):
            tree.deroot()
        else:
            tree.collapse_basal_bifurcation(set_as_unrooted_tree=b("su"))
    elif o == "polytomize":
        tree.polytomize_root(set_as_unrooted_tree=b("su"))
    elif o == "collapseunweighted":
        tree.collapse_unweighted_edges(threshold=float(Fraction(op["thr"])), update_bipartitions=b("ub"))
    elif o == "resolve":
        tree.resolve_polytomies(limit=op["lim"], update_bipartitions=b("ub"))
    elif o == "resolve_rng":
        tree.resolve_polytomies(limit=op["lim"], update_bipartitions=b("ub"), rng=ResolveRng(op["script"]))
    elif o == "resolve_rng_real":
        tree.resolve_polytomies(limit=op["lim"], update_bipartitions=b("ub"), rng=random.Random(op["seed"]))
    elif o == "prunesubtree":
        tree.prune_subtree(N(op["c"]), update_bipartitions=b("ub"), suppress_unifurcations=b("s"))
    elif o == "filterleaves":
        keep = set(op["keep"])
        tree.filter_leaf_nodes(lambda nd: ids.of(nd) in keep, recursive=b("rec"), update_bipartitions=b("ub"),
                               suppress_unifurcations=b("s"))
    elif o == "prunenotaxa":
        tree.prune_leaves_without_taxa(recursive=b("rec"), update_bipartitions=b("ub"), suppress_unifurcations=b("s"))
    elif o == "prunetaxa":
        tree.prune_taxa([world.taxon(k) for k in op["bits"]], update_bipartitions=b("ub"), suppress_unifurcations=b("s"))
    elif o == "retaintaxa":
        tree.retain_taxa([world.taxon(k) for k in op["bits"]], update_bipartitions=b("ub"), suppress_unifurcations=b("s"))
    elif o == "ladderize":
        tree.ladderize(ascending=b("asc"))
    elif o == "reorder":
        tree.reorder()
    elif o == "rotate":
        tree.randomly_rotate(rng=ScriptRng(mode=op["mode"]))
    elif o == "shuffle":
        tree.shuffle_taxa(rng=ScriptRng(rs=op["rs"]))
    elif o == "encode":
        tree.encode_bipartitions(suppress_unifurcations=b("s"), collapse_unrooted_basal_bifurcation=b("c"))
    elif o == "reorient":
        tree.randomly_reorient(rng=ScriptRng(mode=op["mode"], pick=op["k"]), update_bipartitions=b("ub"))
    elif o == "setseed":
        tree.seed_node = N(op["n"])
    elif o == "newtree":
        world.other = world.dendropy.Tree(taxon_namespace=world.tns, seed_node=N(op["n"]))
    elif o == "midpoint":
        tree.reroot_at_midpoint(update_bipartitions=b("ub"), suppress_unifurcations=b("s"))
    else:
        raise ValueError(o)


# ----------------------------------------------------------------------------------------------- oracle
def err_class(e):
    return type(e).__name__


def structure_problems(tree):
    """clause (a), literally, by a walk over `_child_nodes` that calls none of the routines under test"""
    first = tu.walk(tree.seed_node)
    if len({id(x) for x in first}) != len(first):
        # shared or cyclic: the library's traversals need not terminate on such a graph, they are not consulted
        return ["node reachable twice (shared or cyclic)"] + (["seed has a parent"] if tree.seed_node._parent_node is not None else [])
    probs = list(tu.arborescence_problems(tree))
    edges = {}
    for nd in tu.walk(tree.seed_node)[:100000]:
        e = nd._edge
        if e is not None:
            if id(e) in edges and edges[id(e)] is not nd:
                probs.append("two nodes share one edge object")
            edges[id(e)] = nd
    return sorted(set(probs))


def detached_problems(world):
    """the structures the history has detached from the tree (a removed subtree, what an assignment to seed_node left
    behind, a second tree built from a clade) are arborescences of their own and share no node with the tree:
    'every other node appears exactly once among its parent's children ... nothing is shared or cyclic'"""
    probs = []
    main = {id(x) for x in tu.walk(world.tree.seed_node)}
    roots = []
    if world.limbo is not None:
        roots.append(("detached subtree", world.limbo))
    if world.other is not None:
        roots.append(("second tree", world.other.seed_node))
    for what, root in roots:
        if root._parent_node is not None:
            probs.append("%s: its root has a parent" % what)
        nodes = tu.walk(root)
        ids_ = [id(x) for x in nodes]
        if len(set(ids_)) != len(ids_):
            probs.append("%s: node reachable twice (shared or cyclic)" % what)
        if set(ids_) & main:
            probs.append("%s shares nodes with the tree" % what)
        for nd in nodes:
            kids = nd._child_nodes
            if len({id(c) for c in kids}) != len(kids):
                probs.append("%s: a node lists the same child twice" % what)
            for c in kids:
                if c._parent_node is not nd:
                    probs.append("%s: child's parent pointer does not point back" % what)
            if nd._edge is None or nd._edge._head_node is not nd:
                probs.append("%s: edge head is not its node" % what)
    if world.other is not None and not probs:
        probs += ["second tree: " + p for p in structure_problems(world.other)]
    return sorted(set(probs))


def may_vanish(snap, op):
    """ids (snapshot numbering) of the nodes the operation was asked to remove"""
    o = op["op"]
    if o == "remove":
        return set(snap.subtree(op["c"]))
    if o == "newtree":
        return set(snap.subtree(op["n"]))
    if o == "setseed":
        return set(range(snap.n)) - set(snap.subtree(op["n"]))
    if o == "prunesubtree":
        # the subtree, and the ancestors that are left without any child by its removal
        gone = set(snap.subtree(op["c"]))
        p = snap.parent[op["c"]]
        while p is not None and p != 0 and all(k in gone for k in snap.kids[p]):
            gone.add(p)
            p = snap.parent[p]
        return gone
    if o == "filterleaves":
        return set(range(snap.n)) - set(op["keep"])
    if o == "prunetaxa":
        return {i for i in range(snap.n) if snap.taxbit[i] is not None and snap.taxbit[i] in op["bits"]}
    if o == "retaintaxa":
        return {i for i in range(snap.n) if snap.taxbit[i] is not None and snap.taxbit[i] not in op["bits"]}
    return set()


def filter_hits_seed(snap, keep, recursive):
    """independent reading of filter_leaf_nodes: is the seed ever a leaf the filter rejects?"""
    kids = {i: list(k) for i, k in enumerate(snap.kids)}
    keep = set(keep)
    while True:
        if not kids[0]:
            return 0 not in keep
        reach, st = set(), [0]
        while st:
            x = st.pop()
            reach.add(x)
            st.extend(kids[x])
        doomed = set(i for i in reach if not kids[i] and i not in keep)
        if not doomed:
            return False
        for p in kids:
            kids[p] = [c for c in kids[p] if c not in doomed]
        if not recursive:
            return False


def leaf_taxon_problems(world, snap, op):
    """clause (b): a taxon-bearing leaf may leave the tree only if the operation was asked to remove it; leaves keep
    their taxa (shuffle_taxa: the multiset over leaves is kept); what was to be removed is gone"""
    probs = []
    ids, tns = snap.ids, world.tns
    after = tu.walk(world.tree.seed_node)
    after_ids = {id(nd) for nd in after}
    allowed = may_vanish(snap, op)
    before_leaves = [i for i in snap.leaves() if snap.taxbit[i] is not None]
    for i in before_leaves:
        nd = ids.node(i)
        if id(nd) not in after_ids:
            if i not in allowed:
                probs.append("leaf %d (taxon bit %s) left the tree although the operation was not asked to remove it" % (i, snap.taxbit[i]))
        elif op["op"] != "shuffle":
            now = None if nd.taxon is None else tns.accession_index(nd.taxon)
            if now != snap.taxbit[i]:
                probs.append("taxon of leaf %d changed from bit %s to %s" % (i, snap.taxbit[i], now))
    after_leaf_bits = sorted(tns.accession_index(nd.taxon) for nd in after if not nd._child_nodes and nd.taxon is not None)
    if len(set(after_leaf_bits)) != len(after_leaf_bits) and len(set(b for b in snap.taxbit if b is not None)) == len(
            [b for b in snap.taxbit if b is not None]) and op["op"] not in ("addsub", "insertsub"):
        probs.append("a taxon now occurs on two leaves")
    # GAIN: when only leaves carry taxa (the scope of `step_no_new_leaf`), no taxon-bearing leaf may appear that was not one
    # before, except on a node the operation created or re-attached.  (With taxon-bearing internal nodes a gain is what the
    # library does by design of the operation - an emptied internal node IS a leaf - and is not judged.)
    inner_taxon = any(snap.kids[i] and snap.taxbit[i] is not None for i in range(snap.n))
    if not inner_taxon and op["op"] != "shuffle":
        was_leaf = set(before_leaves)
        for nd in after:
            if nd._child_nodes or nd.taxon is None:
                continue
            i = ids.of(nd)
            if i is None:
                if op["op"] not in ("newchild", "insertnew") or tns.accession_index(nd.taxon) != op.get("x"):
                    probs.append("a new taxon-bearing leaf (taxon bit %d) appeared that the operation was not asked to add" % tns.accession_index(nd.taxon))
            elif i >= snap.n:
                if op["op"] not in ("addsub", "insertsub"):
                    probs.append("a detached node re-entered the tree as leaf %d" % i)
            elif i not in was_leaf:
                probs.append("node %d became a taxon-bearing leaf (taxon bit %d) although it was not one before" % (i, tns.accession_index(nd.taxon)))
    if op["op"] == "shuffle":
        before_bits = sorted(snap.taxbit[i] for i in before_leaves)
        if after_leaf_bits != before_bits:
            probs.append("shuffle_taxa changed the multiset of leaf taxa: %s -> %s" % (before_bits, after_leaf_bits))
    if op["op"] in ("prunetaxa", "retaintaxa"):
        # the leaves the operation was asked to remove are gone (nodes that only *became* leaves are not judged)
        for i in before_leaves:
            if i in allowed and id(ids.node(i)) in after_ids:
                probs.append("leaf %d with taxon bit %d is still in the tree" % (i, snap.taxbit[i]))
    if op["op"] in ("remove", "prunesubtree") and id(ids.node(op["c"])) in after_ids:
        probs.append("the removed node is still in the tree")
    if op["op"] == "remove" and ids.node(op["c"])._parent_node is not None:
        probs.append("the removed node still has a parent")
    return probs


def encoding_problems(world):
    """clause (c): every edge and the encoding list carry exactly the masks of the tree as it stands"""
    tree = world.tree
    masks = tu.leafset_masks(tree)
    nodes = tu.walk(tree.seed_node)
    TL = masks[id(tree.seed_node)]
    if TL == 0:
        return []
    lrb = TL & -TL
    rooted = bool(tree.is_rooted)
    probs = []
    want = []
    edge_bips = {}
    for nd in nodes:
        m = masks[id(nd)]
        split = m if rooted else ((~m & TL) if (m & lrb) else (m & TL))
        want.append((m, split))
        bp = nd._edge._bipartition
        if bp is None:
            probs.append("an edge has no bipartition after update_bipartitions=True")
            continue
        edge_bips[id(bp)] = nd
        if bp._leafset_bitmask != m or bp._split_bitmask != split:
            probs.append("edge bipartition (leafset %s, split %s) differs from a fresh encoding (leafset %d, split %d)" % (
                bp._leafset_bitmask, bp._split_bitmask, m, split))
    enc = tree.bipartition_encoding
    if enc is None:
        probs.append("bipartition_encoding is None after update_bipartitions=True")
    else:
        got = sorted((bp._leafset_bitmask, bp._split_bitmask) for bp in enc)
        if got != sorted(want):
            probs.append("bipartition_encoding %s differs from a fresh encoding %s" % (got, sorted(want)))
        if any(id(bp) not in edge_bips for bp in enc) or len({id(bp) for bp in enc}) != len(enc):
            probs.append("bipartition_encoding lists objects that are not the bipartitions of the tree's edges")
    return sorted(set(probs))[:4]


# ----------------------------------------------------------------------------------------------- one step
class History(object):
    def __init__(self, toks, rooted, limbo_toks, nbits):
        self.start = {"tree": list(toks), "rooted": rooted, "limbo": None if limbo_toks is None else list(limbo_toks),
                      "nbits": nbits}
        self.ops = []

    def replay_dict(self, extra=None):
        d = dict(self.start, ops=[dict(o) for o in self.ops])
        d["op"] = self.ops[-1]["op"] if self.ops else None
        d.update(extra or {})
        return d


def do_step(ctx, world, op, hist, pending, single_check=True):
    """execute one operation on the real tree; oracle; queue the model comparison.  returns False when the
    history cannot go on (failure or ill-formed tree)"""
    if op.get("ub") and op["op"] in FLAG_OPS_UB:
        # clause (c) speaks of a tree whose encoding was current: make it so
        world.tree.encode_bipartitions(suppress_unifurcations=False, collapse_unrooted_basal_bifurcation=False)
    snap = Snap(world)
    hist.ops.append(op)
    hist.last_raised = None
    line = to_line(snap, op)
    raised = None
    state_changed = False
    try:
        with time_limit(HANG_S):
            execute(world, snap, op)
    except Timeout:
        raised = "Timeout"
        HUNG.add(op["op"])          # do not issue this operation again in this run: every further hang costs seconds
    except RecursionError:
        raised = "RecursionError"
    except Exception as e:
        raised = err_class(e)
    hist.last_raised = raised
    fails = []
    expect = op.get("expect")
    if op["op"] == "filterleaves" and filter_hits_seed(snap, op["keep"], bool(op["rec"])):
        expect = "SeedNodeDeletionException"
    if raised is not None and raised != expect and raised != "Timeout":
        fails.append(("exception", "%s raised %s on an input that meets its documented argument conditions" % (op["op"], raised)))
    if raised is None and expect is not None:
        fails.append(("missing-error", "%s completed although %s is documented for this argument" % (op["op"], expect)))
    if raised is None and op["op"] == "remove":
        world.limbo = snap.ids.node(op["c"])    # the removed subtree is judged as a structure of its own from now on
    elif raised is None and op["op"] == "setseed" and op["n"] != 0:
        world.limbo = snap.ids.node(0)          # what the assignment left behind
    elif raised is None and op["op"] in ("newtree", "addsub", "insertsub"):
        world.limbo = None                      # the clade now lives in `world.other` / is part of the tree again
    probs = ["not examined after a hang"] if raised == "Timeout" else structure_problems(world.tree)
    if not probs:
        probs = detached_problems(world)
    if raised == "Timeout":
        fails.append(("hang", "%s did not return within %d s" % (op["op"], HANG_S)))
    elif probs:
        fails.append(("ill-formed", "after %s%s: %s" % (op["op"], " (raised %s)" % raised if raised else "", "; ".join(probs))))
    else:
        try:
            world.tree._debug_tree_is_valid()
        except AssertionError as e:
            # the library's own self-check is a second opinion only: recorded, never a verdict
            ctx.count("second_opinion_differs:" + op["op"])
        except Exception:
            pass
    after_render = None
    if not probs:
        after_render = tu.render_tree(world.tree, snap.ids)
        if raised is not None and op["op"] != "filterleaves" and after_render != snap.render:
            # the statement asks for "well formed" after a raise (checked above); the model says more - the state is kept -
            # and that goes through the correspondence, not through the verdict
            state_changed = True
        if raised is None and not op.get("undoc"):
            for p in leaf_taxon_problems(world, snap, op):
                fails.append(("leaf-taxa", "after %s: %s" % (op["op"], p)))
            if op.get("ub") and op["op"] in FLAG_OPS_UB:
                for p in encoding_problems(world):
                    fails.append(("stale-encoding", "after %s(update_bipartitions=True): %s" % (op["op"], p)))
    changed = raised is not None or after_render != snap.render
    ctx.case([snap.toks, snap.rooted, snap.limbo_toks, {k: v for k, v in op.items()}], changed,
             sample={"tree": " ".join(snap.toks), "rooted": snap.rooted, "op": op}, kind=op["op"])
    if raised:
        ctx.count("raised:" + raised)
    for kind, what in fails:
        kind = "%s-%s" % (kind, op["op"])      # one console replay per (failure category, operation)
        rep = hist.replay_dict({"failing_step": len(hist.ops) - 1})
        if single_check and raised != "Timeout":
            # try to cut the history down to its last step, restarted from a rebuilt copy of the state before it
            one = {"tree": snap.toks, "rooted": snap.rooted, "limbo": snap.limbo_toks, "nbits": world.nbits, "ops": [dict(op)],
                   "op": op["op"], "failing_step": 0}
            if reproduces(ctx, one, kind):
                rep = one
        ctx.fail(kind, what, rep)
    if line is not None:
        if raised is not None:
            # the model says which state a raising operation leaves behind (`errState`): compared node for node
            impl = "err %s %s %s" % (raised, world.rooted(), after_render if after_render is not None else "ill-formed")
        elif probs:
            impl = "ill-formed"
        else:
            impl = "ok %s %s" % (world.rooted(), after_render)
        pending.append((line, hist.replay_dict(), impl))
    # bookkeeping of the detached subtree
    if raised is None:
        if op["op"] == "remove" and not probs:
            world.limbo = snap.ids.node(op["c"])
        elif op["op"] in ("addsub", "insertsub"):
            world.limbo = None
        elif op["op"] == "newtree" and not probs:
            world.limbo, world.other = world.other.seed_node, None      # from now on an ordinary detached subtree
    return not fails and not probs and raised in (None, expect)


class _Quiet(object):
    """minimal ctx for the inner reproduction test"""

    def __init__(self):
        self.failures = []
        self.rng = random.Random(0)

    def fail(self, kind, what, replay):
        self.failures.append(kind)

    def case(self, *a, **k):
        pass

    def count(self, *a, **k):
        pass


def reproduces(ctx, rep, kind):
    q = _Quiet()
    try:
        run_history(q, __import__("dendropy"), rep, [], single_check=False)
    except Exception:
        return False
    return kind in q.failures


def run_history(ctx, dendropy, rep, pending, single_check=False):
    world = World(dendropy, rep["tree"], rep["rooted"], rep.get("limbo"), rep.get("nbits"))
    hist = History(rep["tree"], rep["rooted"], rep.get("limbo"), world.nbits)
    for op in rep["ops"]:
        if not do_step(ctx, world, dict(op), hist, pending, single_check=single_check):
            break


_NOLEN = re.compile(r"\((\S+) (\S+) (\S+?)(?=[ )])")


def flush(ctx, pending):
    if not pending:
        return
    outs = ctx.ask([p[0] for p in pending])
    for (line, rep, impl), m in zip(pending, outs):
        if m is None:
            continue
        ctx.compared()
        if m.strip() != impl.strip():
            # the statement speaks of structure, leaf taxa and rooting, not of edge lengths: a difference in lengths alone
            # (e.g. after a repair of how a dissolved edge's length is merged) is recorded, not reported
            if _NOLEN.sub(r"(\1 \2", m.strip()) == _NOLEN.sub(r"(\1 \2", impl.strip()):
                ctx.count("model_differs_in_lengths_only:" + str(rep.get("op")))
            else:
                ctx.disagree("step " + str(rep.get("op")), rep, impl, m.strip())
    del pending[:]


# ----------------------------------------------------------------------------------------------- heap layer comparison
def shape_text(root, idmap):
    """same text as Lean `Heap.readback ... |>.render`: child lists as they are; a child whose parent pointer does not
    point back gets 1000000 added"""
    def go(nd, mark):
        return "(%d%s)" % (idmap[id(nd)] + (1000000 if mark else 0),
                           "".join(" " + go(c, c._parent_node is not nd) for c in nd._child_nodes))
    return go(root, False)


def heap_params(dendropy, rng):
    """one pointer-primitive case: {"toks", "prim", args…} (all JSON-able), or None"""
    n = rng.randint(1, 7)
    shape = tu.rand_shape(rng, n, p_poly=rng.choice([0.1, 0.4]), p_unary=rng.choice([0.0, 0.2]))
    tns = tu.make_namespace(dendropy, n)
    tree = tu.build_tree(dendropy, shape, tns, list(tns), None, None)
    toks, ids = tu.encode_tree(tree, with_labels=False)
    nn = len(ids)
    kids = [[ids.of(c) for c in ids.node(i)._child_nodes] for i in range(nn)]
    par = [None if ids.node(i)._parent_node is None else ids.of(ids.node(i)._parent_node) for i in range(nn)]
    prim = rng.choice(["add", "insert", "insertold", "remove", "remove", "setparent", "collapse", "invert", "reseed"])
    hp = {"toks": toks, "prim": prim}
    if prim == "add":
        hp.update(p=rng.randrange(nn))
    elif prim == "insert":
        p = rng.randrange(nn)
        hp.update(p=p, idx=rng.randint(0, len(kids[p])))
    elif prim == "insertold":
        cands = [i for i in range(nn) if kids[i]]
        if not cands:
            return None
        p = rng.choice(cands)
        hp.update(p=p, c=rng.choice(kids[p]), idx=rng.randrange(len(kids[p])))
    elif prim == "remove":
        if nn < 2:
            return None
        c = rng.randrange(1, nn)
        hp.update(c=c, s=rng.randint(0, 1), p=par[c] if rng.random() < 0.9 else rng.randrange(nn))
    elif prim == "setparent":
        if nn < 2:
            return None
        c = rng.randrange(1, nn)
        sub, st = set(), [c]
        while st:
            x = st.pop()
            sub.add(x)
            st.extend(kids[x])
        hp.update(c=c, q=rng.choice([q for q in range(nn) if q not in sub]))
    else:
        hp.update(c=rng.randrange(nn))
    return hp


def heap_run(dendropy, hp):
    """execute one pointer primitive on real objects; returns (protocol line, canonical result)"""
    toks = hp["toks"]
    tree, ids = tu.tree_from_tokens(dendropy, toks)
    nn = len(ids)
    idmap = dict(ids.map)
    N = ids.node
    top_from = tree.seed_node
    prim = hp["prim"]
    new = None
    t = " ".join(toks)
    err = False
    try:
        if prim == "add":
            new = dendropy.Node()
            idmap[id(new)] = nn
            line = "heap add %d %d %s" % (hp["p"], nn, t)
            N(hp["p"]).add_child(new)
        elif prim == "insert":
            new = dendropy.Node()
            idmap[id(new)] = nn
            line = "heap insert %d %d %d %s" % (hp["p"], hp["idx"], nn, t)
            N(hp["p"]).insert_child(hp["idx"], new)
        elif prim == "insertold":
            line = "heap insert %d %d %d %s" % (hp["p"], hp["idx"], hp["c"], t)
            N(hp["p"]).insert_child(hp["idx"], N(hp["c"]))
        elif prim == "remove":
            line = "heap remove %d %d %d %s" % (hp["p"], hp["c"], hp["s"], t)
            N(hp["p"]).remove_child(N(hp["c"]), suppress_unifurcations=bool(hp["s"]))
        elif prim == "setparent":
            line = "heap setparent %d %d %s" % (hp["c"], hp["q"], t)
            N(hp["c"]).parent_node = N(hp["q"])
        elif prim == "collapse":
            line = "heap collapse %d %s" % (hp["c"], t)
            N(hp["c"]).edge.collapse()
        elif prim == "invert":
            line = "heap invert %d %s" % (hp["c"], t)
            top_from = N(hp["c"])
            N(hp["c"]).edge.invert()
        else:
            # the inversion chain, run by Tree.reseed_at itself with every clean-up switched off
            line = "heap reseed %d %s" % (hp["c"], t)
            top_from = N(hp["c"])
            tree.reseed_at(N(hp["c"]), update_bipartitions=False, collapse_unrooted_basal_bifurcation=False,
                           suppress_unifurcations=False)
    except ValueError:
        err = True
    except Exception as e:      # not a documented outcome of a pointer primitive: shows as a disagreement
        err = "exc " + err_class(e)
    if err:
        return line, ("err" if err is True else err)
    x, k = top_from, 0
    while x._parent_node is not None and k < nn + 3:
        x = x._parent_node
        k += 1
    # intermediate observables: the parent pointer and child list of EVERY node the case knows (ids 0 … nn; nn = the new
    # node of add/insert, otherwise unused), detached ones included - what remove_child leaves in the removed node, what
    # Edge.collapse leaves in the dissolved one, the emptied child list of a suppressed node
    by_id = {v: None for v in idmap.values()}
    for nd in list(ids.keep) + ([new] if prim in ("add", "insert") else []):
        by_id[idmap[id(nd)]] = nd
    cells = []
    for i in range(nn + 1):
        nd = by_id.get(i)
        if nd is None:
            cells.append("%d:-:-" % i)
            continue
        par = nd._parent_node
        cells.append("%d:%s:%s" % (i, "-" if par is None else idmap.get(id(par), "?"),
                                   ",".join(str(idmap.get(id(c), "?")) for c in nd._child_nodes) or "-"))
    return line, "ok " + shape_text(x, idmap) + " | " + " ".join(cells)


def heap_cases(ctx, dendropy, rng, pending_heap, count):
    for _ in range(count):
        hp = heap_params(dendropy, rng)
        if hp is None:
            continue
        line, impl = heap_run(dendropy, hp)
        ctx.count("heap:" + hp["prim"])
        pending_heap.append((line, {"heap": hp, "op": "heap " + hp["prim"]}, impl))


# ----------------------------------------------------------------------------------------------- generation
def start_tree(dendropy, rng, max_leaves):
    r = rng.random()
    n = rng.randint(1, max_leaves) if rng.random() < 0.85 else rng.randint(1, 3)
    if r < 0.15:
        shape = rng.choice(tu.shape_families(n))
    elif r < 0.35:
        shape = tu.rand_shape(rng, n, p_poly=0.0, p_unary=0.0)
    else:
        shape = tu.rand_shape(rng, n, p_poly=rng.choice([0.1, 0.3, 0.6]), p_unary=rng.choice([0.0, 0.1, 0.3]))
    return shape_to_start(dendropy, rng, shape, n, rng.choice(["R", "U", "U", "N"]),
                          lengths=rng.choice(["none", "dyadic", "dyadic", "mixed", "zeros"]),
                          blank_leaf=rng.random() < 0.1)


def shape_to_start(dendropy, rng, shape, n, rooted, lengths="dyadic", blank_leaf=False):
    nbits = n + 4
    tns = dendropy.TaxonNamespace([label_of_bit(i) for i in range(nbits)])
    members = list(tns)
    taxa = rng.sample(members, n) if rng is not None else members[:n]
    if lengths == "none" or rng is None:
        lf = None
    elif lengths == "dyadic":
        lf = lambda: tu.dyadic(rng, 0.0)
    elif lengths == "mixed":
        lf = lambda: tu.dyadic(rng, 0.3, zero_rate=0.2)
    else:
        lf = lambda: rng.choice([0.0, 0.0, 1.0])
    tree = tu.build_tree(dendropy, shape, tns, taxa, lf, None)
    if blank_leaf:
        lv = [nd for nd in tu.walk(tree.seed_node) if not nd._child_nodes]
        if len(lv) > 1:
            rng.choice(lv).taxon = None
    toks, _ = tu.encode_tree(tree, with_labels=False)
    return {"tree": toks, "rooted": rooted, "limbo": None, "nbits": nbits}


CATS = ["remove", "newchild", "insertnew", "addsub", "insertsub", "insertmove", "setparent", "edgecollapse", "collapseclade",
        "reseed", "reseed", "reseed_leaf", "rerootnode", "rerootedge", "outgroup", "outgroup", "suppress", "collapsebasal",
        "polytomize", "collapseunweighted", "collapseunweighted", "resolve", "resolve_rng", "resolve_rng", "resolve_rng_real",
        "prunesubtree", "filterleaves",
        "prunenotaxa", "prunetaxa", "retaintaxa", "ladderize", "reorder", "rotate", "shuffle", "encode", "reorient", "midpoint",
        "setseed", "newtree", "addsub", "errors"]


NOCOMPOSE = {"newtree", "newchild", "insertnew", "addsub", "insertsub", "rerootedge", "resolve", "resolve_rng", "resolve_rng_real",
             "midpoint"}


NODE_FIELDS = {"setseed": ("n",), "remove": ("p", "c"), "insertmove": ("p", "c"), "setparent": ("c", "q"), "edgecollapse": ("c",),
               "collapseclade": ("c",), "reseed": ("n",), "rerootnode": ("n",), "outgroup": ("n",), "prunesubtree": ("c",),
               "reorient": ("k",)}


class _NoTree(object):
    toks, rooted, limbo_toks = [], "X", []


def translate(op, snap, orig):
    """the operation with its node references renamed from the current snapshot to the ids of the START tree
    (None when it names a node that did not exist then)"""
    o = dict(op)
    for f in NODE_FIELDS.get(op["op"], ()):
        if f in o:
            v = orig.get(id(snap.ids.node(o[f])))
            if v is None:
                return None
            o[f] = v
    if "keep" in o:
        o["keep"] = sorted(orig[id(snap.ids.node(i))] for i in o["keep"] if id(snap.ids.node(i)) in orig)
    return o


def random_history(ctx, dendropy, rng, pending, max_leaves, max_ops):
    start = start_tree(dendropy, rng, max_leaves)
    world = World(dendropy, start["tree"], start["rooted"], None, start["nbits"])
    hist = History(start["tree"], start["rooted"], None, world.nbits)
    nops = rng.randint(1, max_ops)
    # the same history is also run as ONE model history (`C03.run`) for as long as no operation creates nodes:
    # ids of the start tree then stay valid on both sides
    snap0 = Snap(world)
    orig = {id(nd): i for i, nd in enumerate(snap0.ids.keep[:snap0.n])}
    orig_ids = tu.Ids()
    orig_ids.map = orig
    segs, composed_impl, composing = [], None, True
    for _ in range(nops):
        if ctx.out_of_time():
            break
        snap = Snap(world)
        if snap.n > 60:
            break
        ops = []
        for _try in range(6):
            ops = candidates(world, snap, rng, cats={rng.choice(CATS)})
            if ops:
                break
        ops = [o for o in ops if o["op"] not in HUNG]
        if not ops:
            break
        op = rng.choice(ops)
        tr = translate(op, snap, orig) if composing and op["op"] not in NOCOMPOSE else None
        ok = do_step(ctx, world, op, hist, pending)
        if composing and ok and tr is not None:     # a raising step composes too: the driver continues from `errState` (`runE`)
            segs.append(to_line(_NoTree, tr)[len("step X "):].strip())
            composed_impl = "ok %s %s" % (world.rooted(), tu.render_tree(world.tree, orig_ids))
            nsegs_rep = hist.replay_dict()
        else:
            composing = False
        if not ok:
            break
    if len(segs) >= 2:
        line = "run %s %s | %s" % (snap0.rooted, " ".join(snap0.toks), " | ".join(segs))
        nsegs_rep["ops"] = nsegs_rep["ops"][:len(segs)]
        nsegs_rep["op"] = "run"
        nsegs_rep["composed"] = True
        ctx.count("composed_histories")
        ctx.count("composed_steps", len(segs))
        pending.append((line, nsegs_rep, composed_impl))


def exhaustive(ctx, dendropy, rng, pending):
    """thorough: every tree of <= 4 leaves (all shapes without unary nodes, plus unary-decorated variants), rootings R and U:
    every depth-1 history with every flag combination, every depth-2 history with one flag draw per target"""
    shapes = []
    for n in range(1, 5):
        for sh in tu.all_shapes(n):
            shapes.append((sh, n))
    shapes += [([[]], 1), ([[[]]], 1), ([[[], []]], 2), ([[[]], []], 2), ([[[], []], [[]]], 3), ([[[[], []], []]], 3),
               ([[], [[[], []]]], 3)]
    d1 = d2 = 0
    ctx.extra["exhaustive_shapes_total"] = len(shapes)
    for k, (sh, n) in enumerate(shapes):
        ctx.extra["exhaustive_shapes_completed"] = k
        for rooted in ("R", "U"):
            for lengths in ("none", "dyadic"):
                start = shape_to_start(dendropy, rng, sh, n, rooted, lengths=lengths)
                w0 = World(dendropy, start["tree"], rooted, None, start["nbits"])
                first = candidates(w0, Snap(w0), rng, full=True)
                for op1 in first:
                    if ctx.out_of_time() or len(ctx.failures) >= MAX_FAILURES:
                        return d1, d2
                    if op1["op"] in HUNG:
                        continue
                    run_history(ctx, dendropy, dict(start, ops=[op1]), pending, single_check=True)
                    d1 += 1
                    if len(pending) >= 3000:
                        flush(ctx, pending)
                if lengths == "none" and n < 4:
                    continue
                # depth 2: all targets of the first op (one flag draw each), then all targets of the second
                w0 = World(dendropy, start["tree"], rooted, None, start["nbits"])
                first = expand_targets(w0, rng)
                for op1 in first:
                    w1 = World(dendropy, start["tree"], rooted, None, start["nbits"])
                    h1 = History(start["tree"], rooted, None, w1.nbits)
                    if not do_step(ctx, w1, dict(op1), h1, pending):
                        continue
                    if Snap(w1).n > 14:
                        continue
                    second = expand_targets(w1, rng)
                    after1 = Snap(w1)
                    for op2 in second:
                        if ctx.out_of_time() or len(ctx.failures) >= MAX_FAILURES:
                            return d1, d2
                        if op1["op"] in HUNG or op2["op"] in HUNG:
                            continue
                        # operations mutate in place: redo op1 on fresh objects, then op2 on those very objects
                        w = World(dendropy, start["tree"], rooted, None, start["nbits"])
                        h = History(start["tree"], rooted, None, w.nbits)
                        if not do_step(_Quiet(), w, dict(op1), h, []):
                            continue
                        again = Snap(w)
                        if again.render != after1.render or again.rooted != after1.rooted:
                            # op1 is not a function of the tree alone (reroot_at_midpoint breaks ties by object hash)
                            ctx.count("first_step_not_reproducible:" + op1["op"])
                            break
                        do_step(ctx, w, dict(op2), h, pending, single_check=True)
                        d2 += 1
                        if len(pending) >= 3000:
                            flush(ctx, pending)
    ctx.extra["exhaustive_shapes_completed"] = len(shapes)
    return d1, d2


def expand_targets(world, rng):
    """every target of every category, flags drawn once per target"""
    snap = Snap(world)
    full = candidates(world, snap, rng, full=True)
    seen, out = set(), []
    order = list(range(len(full)))
    rng.shuffle(order)
    for i in order:
        op = full[i]
        key = tuple(sorted((k, str(v)) for k, v in op.items() if k in ("op", "p", "c", "n", "q", "idx", "k", "expect", "undoc", "keep", "bits", "lim", "thr")))
        if key in seen:
            continue
        seen.add(key)
        out.append(op)
    return out


def construction_ok(ctx, dendropy, shapes=None):
    """trees assembled through add_child / new_child / insert_child must be well formed to begin with: everything else
    in this module builds its inputs that way"""
    ok = True
    for shape in shapes or ([], [[], []], [[[], []], [[], [], []]], [[[[]]], []]):
        n = tu.count_leaves(shape)
        tns = tu.make_namespace(dendropy, n)
        for how in ("add_child", "new_child", "insert_child"):
            taxa = iter(list(tns))

            def go(sh):
                nd = dendropy.Node()
                if not sh:
                    nd.taxon = next(taxa)
                for k, c in enumerate(sh):
                    if how == "add_child":
                        nd.add_child(go(c))
                    elif how == "insert_child":
                        nd.insert_child(k, go(c))
                    else:
                        sub = go(c)
                        ch = nd.new_child(taxon=sub.taxon)
                        for g in list(sub._child_nodes):
                            sub.remove_child(g)
                            ch.add_child(g)
                return nd
            tree = dendropy.Tree(taxon_namespace=tns, seed_node=go(shape))
            probs = structure_problems(tree)
            want = tu.canon_topology(tree) if not probs else None
            ctx.case(["construct", shape, how], True, kind="construct")
            if probs or tu.count_leaves(shape) != len([x for x in tu.walk(tree.seed_node) if not x._child_nodes]):
                ok = False
                ctx.fail("ill-formed-construct", "a tree assembled with %s is not a well-formed arborescence: %s" % (
                    how, "; ".join(probs) or "leaves are missing"), {"construct": shape, "op": "construct"})
    return ok


# ----------------------------------------------------------------------------------------------- tie (A): targeted search
# bridge theorem (Props/C03.lean, `gen_*`) / generator message -> operation categories that exercise that kernel
GEN_MECHANISMS = [
    (("gen_collapsePred", "gen_defaultThreshold", "gen_edgePredicates", "collapse_unweighted_edges", "Edge.is_"),
     ["collapseunweighted"]),
    (("gen_encodeCollapseGuard", "gen_reseedCollapseGuard", "reseed_at", "encode_bipartitions"),
     ["reseed", "reseed_leaf", "rerootnode", "encode", "outgroup"]),
    (("gen_basalChoice", "collapse_basal_bifurcation"), ["collapsebasal", "encode", "reseed", "outgroup"]),
    (("gen_removeUnaryCount", "gen_removeRootChoice", "gen_nodePredicates", "remove_child", "Node.is_"), ["remove"]),
    (("gen_supCount", "gen_encodeSupGuard", "suppress_unifurcations"), ["suppress", "encode", "reseed", "rerootnode"]),
    (("gen_resolveGuard", "gen_defaultLimit", "resolve_polytomies"), ["resolve"]),
]
GEN_SEARCH_CATS = ["collapseunweighted", "reseed", "reseed_leaf", "rerootnode", "encode", "collapsebasal", "remove", "suppress",
                   "resolve", "outgroup"]
GEN_SEARCH_S = 40


def search(ctx, broken):
    """tie (A) broke (Gen/C03Guards.lean could not be regenerated, or a `gen_*` bridge theorem no longer holds for the
    regenerated kernels) or model and code disagree: look for a concrete input on which the REAL code contradicts the
    statement, in the mechanisms concerned first.  Every depth-1 history of the categories above, every target and flag
    combination, from every tree shape of <= 4 leaves (plus the unary-decorated ones of `exhaustive`), all three rooting
    states, lengths none / dyadic / zeros; judged by the normal oracle (`do_step` -> `ctx.fail`), compared with the model."""
    import time
    texts = []
    for o in broken:
        name = str(o.get("name", ""))
        if o.get("kind") == "generation" and "C03Guards" in name:
            texts.append(name + " " + str(o.get("detail", "")))
        elif ".gen_" in name:
            texts.append(name)
    if not texts and not ctx.disagreements:
        return
    first = []
    for keys, cats in GEN_MECHANISMS:
        if any(k in t for k in keys for t in texts):
            first += [c for c in cats if c not in first]
    for d in ctx.disagreements:
        c = str(d.get("op", "")).replace("step ", "")
        if c in GEN_SEARCH_CATS and c not in first:
            first.append(c)
    rounds = [first, [c for c in GEN_SEARCH_CATS if c not in first]]
    dendropy = __import__("dendropy")
    rng = ctx.rng
    shapes = [(sh, n) for n in range(1, 5) for sh in tu.all_shapes(n)]
    shapes += [([[]], 1), ([[[]]], 1), ([[[], []]], 2), ([[[]], []], 2), ([[[], []], [[]]], 3), ([[[[], []], []]], 3),
               ([[], [[[], []]]], 3)]
    t_end = time.time() + GEN_SEARCH_S
    pending = []
    done = [0]

    def sweep(cats):
        for sh, n in shapes:
            for rooted in ("R", "U", "N"):
                for lengths in ("none", "dyadic", "zeros"):
                    start = shape_to_start(dendropy, rng, sh, n, rooted, lengths=lengths)
                    w0 = World(dendropy, start["tree"], rooted, None, start["nbits"])
                    for op1 in candidates(w0, Snap(w0), rng, full=True, cats=set(cats)):
                        if time.time() > t_end or len(ctx.failures) >= MAX_FAILURES:
                            return False
                        if op1["op"] in HUNG:
                            continue
                        run_history(ctx, dendropy, dict(start, ops=[op1]), pending, single_check=True)
                        done[0] += 1
                        if len(pending) >= 3000:
                            flush(ctx, pending)
        return True
    complete = all(sweep(cats) for cats in rounds if cats)
    flush(ctx, pending)
    ctx.extra["gen_search"] = ("%d depth-1 histories of %s (mechanisms concerned first: %s) on %d tree shapes x R/U/N x "
                               "none/dyadic/zeros lengths; %s" % (done[0], "/".join(GEN_SEARCH_CATS), ",".join(first) or "-", len(shapes),
                                                                 "complete" if complete else "cut off by the time/failure limit"))


def run(ctx):
    dendropy = __import__("dendropy")
    rng = ctx.rng
    ctx.set_budget(35, 740)
    pending, pending_heap = [], []
    if not construction_ok(ctx, dendropy):
        return          # every other case builds its input through these primitives
    # 1. fixed corner cases aimed at the anchored mechanisms
    for rep in CORNER_CASES:
        run_history(ctx, dendropy, rep, pending, single_check=False)
    # 2. pointer primitives against the heap model
    heap_cases(ctx, dendropy, rng, pending_heap, ctx.pick(1500, 20000))
    flush(ctx, pending_heap)
    # 3. random histories
    nhist = ctx.pick(6000, 200000)
    t_rand = ctx.pick(1.0, 0.45)
    for k in range(nhist):
        if ctx.out_of_time() or (ctx.tier == "thorough" and ctx.time_left() < (1 - t_rand) * ctx.budget_s):
            break
        if len(ctx.failures) >= MAX_FAILURES:
            break
        random_history(ctx, dendropy, rng, pending, ctx.pick(8, 12) if rng.random() < 0.8 else 4, ctx.pick(12, 30) if rng.random() < 0.7 else 30)
        if len(pending) >= 1500:
            flush(ctx, pending)
    flush(ctx, pending)
    if ctx.tier == "thorough":
        d1, d2 = exhaustive(ctx, dendropy, rng, pending)
        flush(ctx, pending)
        ctx.extra["exhaustive_small_scope"] = (
            "%d depth-1 histories (every operation, target and flag combination) and %d depth-2 histories (every pair of "
            "targets, flags drawn once per target) from tree shapes of <= 4 leaves (all shapes without unary nodes plus "
            "unary-decorated ones; rooted and unrooted; with and without lengths): %d of %d shapes completed within the budget"
            % (d1, d2, ctx.extra.get("exhaustive_shapes_completed", 0), ctx.extra.get("exhaustive_shapes_total", 0)))


def _t(par, tax, lens=None):
    n = len(par)
    return [str(n)] + [str(p) for p in par] + [("-" if x is None else str(x)) for x in tax] + (lens or ["N"] * n) + ["-"] * n


# ((A,B),(C,D)): nodes 0 root, 1=(A,B), 2=A, 3=B, 4=(C,D), 5=C, 6=D
_BAL = _t([-1, 0, 1, 1, 0, 4, 4], [None, None, 0, 1, None, 2, 3])
_BALW = _t([-1, 0, 1, 1, 0, 4, 4], [None, None, 0, 1, None, 2, 3], ["N", "1", "2", "3", "0", "5", "6"])
_UNARY_SEED = _t([-1, 0, 1, 1], [None, None, 0, 1])          # ((A,B))
_SINGLE = _t([-1], [0])
_STAR5 = _t([-1, 0, 0, 0, 0, 0], [None, 0, 1, 2, 3, 4])       # (A,B,C,D,E)
CORNER_CASES = [
    {"tree": _BAL, "rooted": "U", "ops": [dict(op="outgroup", n=4, ub=0, s=1)]},
    {"tree": _BAL, "rooted": "U", "ops": [dict(op="outgroup", n=1, ub=1, s=1)]},
    {"tree": _UNARY_SEED, "rooted": "U", "ops": [dict(op="outgroup", n=1, ub=0, s=1)]},
    {"tree": _UNARY_SEED, "rooted": "R", "ops": [dict(op="outgroup", n=1, ub=1, s=1)]},
    {"tree": _BAL, "rooted": "R", "ops": [dict(op="collapseunweighted", thr="1/10000000", ub=0)]},
    {"tree": _BALW, "rooted": "U", "ops": [dict(op="collapseunweighted", thr="0", ub=1)]},
    {"tree": _SINGLE, "rooted": "N", "ops": [dict(op="reorient", k=0, mode=0, ub=0)]},
    {"tree": _BALW, "rooted": "U", "ops": [dict(op="reseed", n=4, ub=1, c=1, s=1), dict(op="reseed", n=0, ub=0, c=0, s=0)]},
    {"tree": _BALW, "rooted": "N", "ops": [dict(op="remove", p=1, c=2, s=1), dict(op="addsub", p=0)]},
    {"tree": _BALW, "rooted": "R", "ops": [dict(op="remove", p=0, c=4, s=1)]},
    # resolve_polytomies(rng=scripted) on a star: limit 2 (3 draws, then joins at the node, at a kept child, at a new node, at an
    # attached child) and limit 3; a script that runs dry
    {"tree": _STAR5, "rooted": "U", "ops": [dict(op="resolve_rng", lim=2, ub=0, script=[1, 3, 0, 2, 0, 3])]},
    {"tree": _STAR5, "rooted": "R", "ops": [dict(op="resolve_rng", lim=2, ub=1, script=[4, 0, 1, 1, 4, 6])]},
    {"tree": _STAR5, "rooted": "U", "ops": [dict(op="resolve_rng", lim=3, ub=0, script=[2, 2, 3, 0])]},
    {"tree": _STAR5, "rooted": "N", "ops": [dict(op="resolve_rng", lim=3, ub=1, script=[7])]},
]


def replay(ctx, rec):
    dendropy = __import__("dendropy")
    c = rec["replay"]
    pending = []
    if "heap" in c:
        line, impl = heap_run(dendropy, c["heap"])
        pending.append((line, c, impl))
        flush(ctx, pending)
        return
    if "construct" in c:
        construction_ok(ctx, dendropy, [c["construct"]])
        return
    run_history(ctx, dendropy, c, pending, single_check=False)
    flush(ctx, pending)
