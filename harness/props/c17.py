"""C17 - node ages, the ultrametricity check and tree statistics match their definitions."""
import math
from fractions import Fraction

import treeutil as tu
from common import time_limit

ID = "C17"
GEN_DEPENDS = ["UltraPrec", "C17Kernels"]
RULE = ("dyadic trees (1-14 leaves quick, up to 40 thorough; polytomies, unary nodes, None lengths, zero lengths, fixed families): "
        "exactly ultrametric, randomly non-ultrametric, ultrametric with ONE tip moved by eps*(1 +- 2^-k) (k<=20; eps in "
        "{default 1e-5, 0.01, 2^-10, 2^-3, 1, 0}; also exactly eps), every tip moved by a multiple of eps/4, and child-shuffled copies; "
        "TIME SCALE x PRECISION sweep: exactly ultrametric dyadic trees of height 2^-20..2^30 (1e-6..1e9), precision 2^-50..2^10 "
        "(1e-15..1e3) / the default / 0 / disabled, ONE edge (tip or internal, below a first or non-first child, any depth) off by "
        "f x precision, f in {1/4,1/2,1-2^-k,1,1+2^-k,2,8}, bit span kept below 52 so binary64 is exact; judged for calc_node_ages, "
        "node_ages, internal_node_ages and pybus_harvey_gamma(prec=): rejected iff some node's other child deviates from its first "
        "child by more than the precision; "
        "x operation (calc_node_ages x precision x forcing x wrapper, resolve_node_depths/ages, calc_node_root_distances, "
        "set_edge_lengths_from_node_ages x min length x error flag, num_lineages_at x distance, length, min/max leaf distance, "
        "N_bar, sackin x 4 normalisations, colless x 4, B1, treeness, gamma; list forms: the list calc_node_ages returns IN ORDER, "
        "node_ages/internal_node_ages sorted lists, coalescence_intervals, calc_node_root_distances returned list in order x leaf-only flag, "
        "max_distance_from_root, treemeasure.node_ages/node_depths/coalescence_ages/divergence_times, Node.distance_from_root/tip on every node, "
        "set_edge_lengths_from_node_ages with both arguments defaulted). thorough adds every shape <= 6 leaves x every tip perturbed "
        "x both signs x k sweep, and every statistic on every shape <= 7 leaves. Half of the trees live in a taxon namespace that does "
        "not coincide with their tip set (holes in the taxon bits = members on no tip, tips without taxon), and the statistics are also "
        "taken on trees after the library's prune_taxa (pruned members stay in the namespace); definitions always computed on the tree's own tips. "
        "Ages and statistics are also asked of Tree objects WITH A HISTORY: earlier calc_node_ages/node_ages/gamma/resolve_node_ages calls "
        "(whatever their outcome), age attributes left by other code, tips dated through set_node_age_fn, then edits that turn internal nodes "
        "into tips or move the tips (clear_child_nodes, remove_child, truncate_from_root, scale_edges); the call is judged on the tree as it then is. non-trivial = non-ultrametric, or polytomous/unary, "
        "or a perturbation/forcing/normalisation option is in play")
MODELLED_NOT_VERIFIED = [
    "C17: Model/C17.lean is hand-written from Tree.calc_node_ages / node_ages / internal_node_ages / coalescence_intervals / "
    "set_edge_lengths_from_node_ages / resolve_node_depths / resolve_node_ages / calc_node_root_distances / max_distance_from_root / "
    "num_lineages_at / length, Node.distance_from_root / distance_from_tip and treemeasure.{N_bar,sackin_index,colless_tree_imbalance,"
    "B1,treeness,pybus_harvey_gamma,node_ages,node_depths,coalescence_ages,divergence_times}; tied to the code (B) by per-case comparison of "
    "every node's age / depth / length, every returned list (in the code's order) and every statistic, and (A) by Gen/C17Kernels.lean: the "
    "arithmetic / comparison kernels of those routines (loop steps, normalisation formulas and their selection table, defaults, "
    "EULERS_CONSTANT, the lineage test, clamp and rejection tests) are regenerated from the current source on every run and proved equal "
    "to the model's by the bridge_* theorems; the loops themselves (iteration order, which nodes are visited) stay hand-modelled",
    "C17: Node.distance_from_root includes the seed node's own edge length (the walk up the parent chain does not stop below the seed); "
    "modelled as the code does it (distance_from_root_spec); judged by the oracle only on trees whose seed has no / zero length. "
    "Node.distance_from_tip: the model is the cache-free recomputation on the tree as it is (tipMax); Tree objects with a history "
    "(an earlier distance_from_tip call, then edits) are generated and judged against the current tree - the unrepaired code read a "
    "never-invalidated `_distance_from_tip` cache there (fixes/C17-distance-from-tip-stale-cache.patch)",
    "C17: floating point is not modelled: comparison is exact on dyadic inputs (all sums/differences exact in binary64) and within 1e-9 "
    "where the code divides (B1, N_bar, normalisations, treeness, gamma) or the input is not dyadic (default precision 1e-5 sweep; the "
    "2^-k margin keeps exact and float verdicts equal)",
    "C17: math.log (Yule normalisation of Colless) and sqrt (PDA normalisations, gamma) stay outside the model: the model returns "
    "exact components / signed squares and the harness applies log/sqrt",
    "C17: dicts keyed by node objects (nd_mi, subtree_leaves, the age attribute) are modelled by values returned from the recursion; "
    "set_node_age_fn (tip dating callback) and stale age attributes before pybus_harvey_gamma are not modelled",
    "C17: inputs with None lengths are outside the statement for depths / root distances / lineages / forcing options: any ordinary "
    "refusal (TypeError, ValueError, ...) is compared as 'Undefined'",
    "C17: a statistic's refusal of an out-of-domain tree is any of ValueError / TypeError / AssertionError / ZeroDivisionError "
    "(pybus_harvey_gamma documents ValueError but raises AssertionError on most non-binary trees and ZeroDivisionError on 2 leaves; "
    "treeness raises TypeError on None lengths and ZeroDivisionError on zero total length); IndexError / KeyError / AttributeError "
    "or any other class is reported as a crash",
    "C17: the default precision is read from the library on all sides (its value is not part of the statement; "
    "default_precision_enables_check guards only that it enables the check)",
    "C17: out-of-domain inputs are compared only up to 'Undefined' for statistics (non-binary trees for Colless/gamma, 2 leaves for gamma "
    "and Colless-max, None lengths / zero total for treeness); num_lineages_at on zero-length edges is compared with the model only",
]
EXPLANATION = ("Theorems (Props/C17.lean) about the definitions drv_c17 runs, numbers read in Q through Frac.toRat. Ages: ages_spec, "
               "ages_exact_spec, age_is_tip_distance, reject_iff_local, accepted_bound, reject_beyond_bound, reject_only_beyond_precision, "
               "check_disabled_spec, force_max/min/both_spec, default_precision_enables_check, returned_list_spec. Lengths from ages: "
               "lengths_from_ages_roundtrip (within the precision for every accepted tree, exact on ultrametric ones - for non-negative "
               "lengths, minimum None or <= 0, error flag only with minimum 0; lengths_from_ages_within, ..._roundtrip_partial), set_lengths_spec (arbitrary ages, every minimum, error flag). Root "
               "distances: leaf_depths_spec, node_depths_spec (all nodes), minmax_spec, resolve_ages_spec. Lineages: lineages_spec, lineages_spec_all (what is counted on zero/negative lengths), "
               "lineages_between_speciations_all (boundaries and zero-length edges: j+2 plus the zero-length edges at d), "
               "lineages_between_speciations (j+2 lineages between the j-th and (j+1)-th speciation). set_lengths_spec applies to every table the driver builds (with_ages_wellformed). Statistics: colless_yule_rational and "
               "pda_yule_norms_spec (the rational parts of the Yule/PDA normalisations exactly; only log/sqrt evaluation outside), length/sackin/nbar/"
               "harmonic/colless/b1/treeness _eq_def, gamma_loop_eq_sums, gamma_succeeds (a value is returned on every binary exactly "
               "ultrametric positive-length tree with >= 3 leaves, n = number of leaves, T > 0), gamma_eq_def (end to end incl. the lineage "
               "reading of the intervals, conditional on success = gamma_succeeds; gamma_eq_def_partial kept), stats_perm_invariant (child order for every statistic incl. gamma via "
               "gamma_perm_invariant; ..._partial kept). List forms: node_ages_sorted_spec (node_ages/internal_node_ages = sorted permutation of what "
               "calc_node_ages returns; same refusals), node_ages_sorted_any (every age assigned under ANY configuration, forcing included, is well-formed, so the "
               "sorted lists are ascending under forcing too), coal_intervals_spec (running sums of the intervals give the sorted ages back; differences "
               ">= 0), root_distance_list_spec (returned list = root path lengths in pre-order, leaves only or all; max_distance_from_root = "
               "the max of minmax), distance_from_tip_spec (largest tip distance), distance_from_root_spec (root path length + the seed's own "
               "edge length). Tie A: bridge_b1, bridge_colless_loop, bridge_colless_norms, bridge_norm_tables, bridge_euler, bridge_sackin, "
               "bridge_treeness, bridge_gamma_loop, bridge_gamma_ret, bridge_setlen, bridge_ultra, bridge_lineages_depths: every kernel of "
               "Gen/C17Kernels.lean (regenerated from treemeasure.py and _tree.py on each run) equals the corresponding step of the model. The literal clause 'paths differing by more than the precision are rejected' is "
               "false of the code: evaluated by the oracle, known finding ultrametricity-drift-accumulates.")

EPS_ABS = Fraction(1, 10 ** 12)
REL = Fraction(1, 10 ** 9)
F = Fraction


# ------------------------------------------------------------------ small helpers
def fr(x):
    """exact rendering of an implementation number"""
    return tu.frac(x)


def close(a, b):
    a, b = F(a), F(b)
    return abs(a - b) <= EPS_ABS + REL * max(abs(a), abs(b))


def same(impl, model, exact):
    """token-wise comparison of two canonical strings; numbers exact or within tolerance"""
    a, b = impl.split(), model.split()
    if len(a) != len(b):
        return False
    for x, y in zip(a, b):
        if x == y:
            continue
        try:
            fx, fy = F(x), F(y)
        except (ValueError, ZeroDivisionError):
            return False
        if exact:
            if fx != fy:
                return False
        elif not close(fx, fy):
            return False
    return True


def exc_name(e, dendropy, stat=False):
    from dendropy.utility import error
    if isinstance(e, error.UltrametricityError):
        return "UltrametricityError"
    if stat:
        # a refusal is an exception the library raises (or lets arithmetic raise) for an input outside the statistic's domain:
        # ValueError / TypeError as documented, AssertionError, ZeroDivisionError.  IndexError / KeyError / AttributeError
        # and anything else escaping from inside is a crash, never a refusal.
        if isinstance(e, (TypeError, AssertionError, ValueError, ZeroDivisionError)):
            return "Undefined"
        return "Internal(%s)" % type(e).__name__
    for cls in (TypeError, ZeroDivisionError, ValueError):
        if isinstance(e, cls):
            return cls.__name__
    return "Internal(%s)" % type(e).__name__


def lenient(s, on):
    """inputs with None lengths are outside the statement for depths / lineages / forcing: any ordinary refusal counts alike"""
    if on and s in ("TypeError", "ValueError", "ZeroDivisionError", "NotBinary"):
        return "Undefined"
    return s


def model_stat(s):
    """model error names -> the statistic-level enum"""
    if s in ("NotBinary", "ZeroDivisionError", "TypeError", "ValueError"):
        return "Undefined"
    return s


# ------------------------------------------------------------------ independent structure walks (oracle side)
class Info(object):
    """from-scratch facts about a tree, computed by walking _child_nodes/_parent_node and reading edge.length (None = 0)"""

    def __init__(self, tree, ids):
        self.ids = ids
        self.n = len(ids)
        self.nodes = [ids.node(i) for i in range(self.n)]
        self.len = [tu.F(nd.edge.length) for nd in self.nodes]
        self.has_none = [nd.edge.length is None for nd in self.nodes]
        self.par = [None if nd._parent_node is None else ids.of(nd._parent_node) for nd in self.nodes]
        self.kids = [[ids.of(c) for c in nd._child_nodes] for nd in self.nodes]
        self.root = [i for i in range(self.n) if self.par[i] is None][0]
        order = []          # post-order
        stack = [(self.root, False)]
        while stack:
            i, done = stack.pop()
            if done:
                order.append(i)
                continue
            stack.append((i, True))
            for c in reversed(self.kids[i]):
                stack.append((c, False))
        self.post = order
        self.tipd = {}      # node -> list of distances to each descendant tip
        self.height = {}
        self.nleaves = {}
        for i in order:
            if not self.kids[i]:
                self.tipd[i] = [F(0)]
                self.height[i] = 0
                self.nleaves[i] = 1
            else:
                out = []
                for c in self.kids[i]:
                    out.extend(self.len[c] + x for x in self.tipd[c])
                self.tipd[i] = out
                self.height[i] = 1 + max(self.height[c] for c in self.kids[i])
                self.nleaves[i] = sum(self.nleaves[c] for c in self.kids[i])
        self.rootd = {}
        self.level = {}
        for i in reversed(order):   # parents before children
            p = self.par[i]
            self.rootd[i] = F(0) if p is None else self.rootd[p] + self.len[i]
            self.level[i] = 0 if p is None else self.level[p] + 1
        self.fchain = {}    # distance to the tip reached by always taking the first child
        for i in order:
            self.fchain[i] = F(0) if not self.kids[i] else self.fchain[self.kids[i][0]] + self.len[self.kids[i][0]]
        self.leaves = [i for i in range(self.n) if not self.kids[i]]
        self.nonroot_none = any(self.has_none[i] for i in range(self.n) if i != self.root)
        self.exact_ultra = all(len(set(self.tipd[i])) == 1 for i in range(self.n))
        self.binary = all(len(k) in (0, 2) for k in self.kids)

    def spread(self, i):
        return max(self.tipd[i]) - min(self.tipd[i])

    def local_ok(self, p):
        """every other child agrees with the first child (first-child chains) within p, at every node"""
        return all(abs(self.fchain[i] - (self.fchain[c] + self.len[c])) <= p
                   for i in range(self.n) for c in self.kids[i][1:])


def mk(dendropy, toks):
    tree, ids = tu.tree_from_tokens(dendropy, toks, rooted=True)
    return tree, ids


def apply_history(D, tree, ids, steps):
    """what happened to this Tree object before the call under judgement: earlier age computations (any route, any
    outcome), age attributes left by other code, tip dating through set_node_age_fn, and edits that turn internal nodes into
    tips or move the tips.  Nodes are addressed by their ids in the ORIGINAL tokens.  Returns the ids of the final tree."""
    from dendropy.calculate import treemeasure as tm
    nodes = [ids.node(i) for i in range(len(ids))]
    for st in steps or []:
        kind = st[0]
        if kind == "stale":
            for nd, a in zip(nodes, st[1]):
                nd.age = None if a is None else float(F(a))
        elif kind == "clear":
            nodes[st[1]].clear_child_nodes()
        elif kind == "remove":
            nd = nodes[st[1]]
            if nd._parent_node is not None and nd in nd._parent_node._child_nodes:
                nd._parent_node.remove_child(nd)
        elif kind == "truncate":
            tree.truncate_from_root(float(F(st[1])))
        elif kind == "scale":
            tree.scale_edges(float(F(st[1])))
        else:
            # an earlier computation may legitimately refuse (non-ultrametric, None lengths, non-binary): the history goes on
            try:
                if kind == "ages":
                    kw = prec_value(D, st[1])[0]
                    if st[2] == "calc":
                        tree.calc_node_ages(**kw)
                    else:
                        getattr(tree, st[2])(**kw)
                elif kind == "force":
                    tree.calc_node_ages(is_force_max_age=(st[1] == "max"), is_force_min_age=(st[1] == "min"))
                elif kind == "gamma":
                    tm.pybus_harvey_gamma(tree)
                elif kind == "resolve":
                    tree.resolve_node_ages()
                elif kind == "intervals":
                    tree.coalescence_intervals()
                elif kind == "tipdist":
                    # Node.distance_from_tip leaves a `_distance_from_tip` attribute on every node below the one asked
                    (tree.seed_node if st[1] is None else nodes[st[1]]).distance_from_tip()
                elif kind == "datefn":
                    table = {id(nd): (None if a is None else float(F(a))) for nd, a in zip(nodes, st[1])}
                    tree.calc_node_ages(ultrametricity_precision=False, set_node_age_fn=lambda nd: table.get(id(nd)))
                else:
                    raise KeyError(kind)
            except KeyError:
                raise
            except Exception:   # noqa
                pass
    return tu.Ids().assign_preorder(tree)


PREC_TOKENS = ["D", "N", "F", "neg"]


def prec_value(dendropy, p):
    """(python argument dict, model token, exact Fraction or None when the check is disabled)"""
    from dendropy.utility import constants
    if p == "D":
        v = constants.DEFAULT_ULTRAMETRICITY_PRECISION
        return {}, "D", F(v)      # the model takes the default from Gen/UltraPrec.lean (regenerated from the source)
    if p == "N":
        return {"ultrametricity_precision": None}, "N", None
    if p == "F":
        return {"ultrametricity_precision": False}, "N", None
    if p == "neg":
        return {"ultrametricity_precision": -1.0}, "-1", None
    v = float(F(p))
    return {"ultrametricity_precision": v}, fr(v), F(v)


# ------------------------------------------------------------------ operations: implementation + oracle; returns (model line, impl canon, exact, post)
def op_ages(ctx, D, case):
    toks = case["tree"]
    tree, ids = mk(D, toks)
    if case.get("history"):
        # the call is judged on the tree as it is AFTER the history; the model (which has no memory) gets that tree
        try:
            ids = apply_history(D, tree, ids, case["history"])
        except KeyError:
            raise
        except Exception:   # noqa   an edit the library refuses on this tree: no case
            return []
        toks = tu.encode_tree(tree, ids)[0]
    info = Info(tree, ids)
    kw, ptok, p = prec_value(D, case["prec"])
    fmax, fmin, via = case["fmax"], case["fmin"], case["via"]
    io = via == "internal_node_ages" or case.get("io", False)
    exact = case.get("exact", True)
    try:
        with time_limit(20):
            if via == "calc":
                ret = tree.calc_node_ages(is_force_max_age=fmax, is_force_min_age=fmin,
                                          is_return_internal_node_ages_only=io, **kw)
            elif via == "node_ages":
                ret = tree.node_ages(is_force_max_age=fmax, is_force_min_age=fmin, internal_only=io, **kw)
            else:
                ret = tree.internal_node_ages(is_force_max_age=fmax, is_force_min_age=fmin, **kw)
        ages = [info.nodes[i].age for i in range(info.n)]
        # calc_node_ages: the returned list in the order the code builds it (post-order); the wrappers: ages only here, their
        # sorted list is compared through the model's `nodeages` operation below
        got = "ok " + " ".join(fr(a) for a in ages) + ((" | " + " ".join(fr(a) for a in ret)) if via == "calc" else "")
    except Exception as e:   # noqa
        got = exc_name(e, D)
        ages = None
    forced = fmax or fmin
    len_tr = "lenient" if (forced and not (fmax and fmin) and info.nonroot_none) else None
    got = lenient(got, len_tr is not None)
    # ---- oracle
    tol = (lambda x: x) if exact else (lambda x: x + EPS_ABS + REL * 100)
    if fmax and fmin:
        if got != "ValueError":
            ctx.fail("force_both", "both forcing options given: expected ValueError, got %s" % got, case)
    elif got.startswith("Internal"):
        ctx.fail("internal_error", "calc_node_ages raised %s" % got, case)
    elif forced:
        if not info.nonroot_none:
            if ages is None:
                ctx.fail("force_error", "forcing option chosen but %s was raised" % got, case)
            else:
                for i in range(info.n):
                    want = max(info.tipd[i]) if fmax else min(info.tipd[i])
                    if not (F(ages[i]) == want if exact else close(ages[i], want)):
                        ctx.fail("force_age", "is_force_%s_age: node %d has age %s, %s distance to its tips is %s" % (
                            "max" if fmax else "min", i, ages[i], "largest" if fmax else "smallest", want), case)
                        break
    elif p is None:
        if ages is None:
            ctx.fail("disabled_error", "ultrametricity check disabled but %s was raised" % got, case)
        else:
            for i in range(info.n):
                if not any((F(ages[i]) == d) if exact else close(ages[i], d) for d in info.tipd[i]):
                    ctx.fail("age_not_a_tip_distance", "check disabled: node %d has age %s, its tip distances are %s" % (
                        i, ages[i], sorted(set(info.tipd[i]))[:6]), case)
                    break
    else:
        if got == "UltrametricityError":
            if info.spread(info.root) <= p:
                ctx.fail("reject_within", "root-to-tip paths agree within %s (spread %s) but the tree was rejected" % (
                    p, info.spread(info.root)), case)
        elif ages is None:
            ctx.fail("ages_error", "calc_node_ages raised %s" % got, case)
        else:
            bad = None
            for i in range(info.n):
                ks = info.kids[i]
                for c in ks[1:]:
                    d1 = [info.len[ks[0]] + x for x in info.tipd[ks[0]]]
                    dk = [info.len[c] + x for x in info.tipd[c]]
                    gap = min(abs(a - b) for a in d1 for b in dk)
                    if gap > tol(p):
                        bad = (i, c, gap)
                        break
                if bad:
                    break
            if bad:
                ctx.fail("accept_beyond", "every tip below child %d of node %d differs from every tip below its first child by at "
                         "least %s > precision %s, but the tree was accepted" % (bad[1], bad[0], bad[2], p), case)
            if info.spread(info.root) > tol(p):
                # the statement, literally: paths differing by more than the precision must be rejected
                rep_case = dict((k, v) for k, v in case.items() if k != "finding")
                if info.local_ok(tol(p)):
                    # every first-child comparison is within the precision: the listed known finding (deviations accumulate)
                    ctx.fail("accept_beyond_spread", "root-to-tip paths differ by %s > precision %s but the tree was accepted "
                             "(every node's other children agree with its first child within the precision)" % (
                                 info.spread(info.root), p), dict(rep_case, finding="accumulated-drift"))
                else:
                    ctx.fail("accept_beyond_local", "root-to-tip paths differ by %s > precision %s, some node's other child "
                             "deviates from its first child by more than the precision, yet the tree was accepted" % (
                                 info.spread(info.root), p), rep_case)
            within = info.spread(info.root) <= p
            for i in range(info.n):
                # paths within the precision: every age within the precision of every tip distance; otherwise height * precision
                lim = tol(p if within else info.height[i] * p)
                if any(abs(F(ages[i]) - d) > lim for d in info.tipd[i]):
                    ctx.fail("age_vs_tip_distance", "node %d: age %s, tip distances %s, precision %s" % (
                        i, ages[i], sorted(set(info.tipd[i]))[:6], p), case)
                    break
    if ages is not None and not (fmax and fmin):
        want = sorted(F(ages[i]) for i in range(info.n) if info.kids[i] or not io)
        if sorted(F(x) for x in ret) != want:
            ctx.fail("returned_ages", "%s returned %s, the nodes' ages are %s" % (via, sorted(ret)[:8], want[:8]), case)
        if via != "calc" and list(ret) != sorted(ret):
            ctx.fail("returned_ages", "%s is not sorted" % via, case)
    line = "ages %s %d %d %d %s" % (ptok, fmax, fmin, io, " ".join(toks))
    if via == "calc":
        return [(line, got, exact, len_tr)]
    got2 = ("ok " + " ".join(fr(a) for a in ret)) if ages is not None else got
    return [(line, got, exact, (len_tr or "plain") + "+agesonly"),
            ("nodeages %s %d %d %d %s" % (ptok, fmax, fmin, io, " ".join(toks)), got2, exact, len_tr)]


def op_setlen(ctx, D, case):
    """set_edge_lengths_from_node_ages on given ages (case['ages']) or on ages from calc_node_ages (case['ages'] is None)"""
    toks = case["tree"]
    tree, ids = mk(D, toks)
    info = Info(tree, ids)
    ml = case["minlen"]          # "N", a fraction string, or "D": both arguments left to their defaults
    errneg = case["errneg"]
    if ml == "D":
        # the defaults of the current source are regenerated (Gen/C17Kernels: setlenDefaultMin/Err) and proved to be the
        # 0 / False the model is sent (bridge_setlen)
        kw, ml, errneg = {}, "0", False
    else:
        kw = {"minimum_edge_length": None if ml == "N" else float(F(ml)), "error_on_negative_edge_lengths": errneg}
    orig = [nd.edge.length for nd in info.nodes]
    ages = None
    if case["ages"] is None:
        pkw, ptok, p = prec_value(D, case["prec"])
        try:
            tree.calc_node_ages(**pkw)
            # expected lengths come from independently computed ages where the statement fixes them (exactly
            # ultrametric: age = tip distance); otherwise from the ages the library just assigned
            ages = [info.tipd[i][0] for i in range(info.n)] if info.exact_ultra else [F(nd.age) for nd in info.nodes]
        except Exception as e:  # noqa
            got = exc_name(e, D)
            line = "roundtrip %s %s %d %s" % (ptok, ml, errneg, " ".join(toks))
            return [(line, got, True, None)]
        line = "roundtrip %s %s %d %s" % (ptok, ml, errneg, " ".join(toks))
    else:
        ages = [F(a) for a in case["ages"]]
        for i, nd in enumerate(info.nodes):
            nd.age = float(ages[i])
        line = "setlen %s %d %s %s" % (ml, errneg, ",".join(fr(a) for a in ages), " ".join(toks))
    try:
        with time_limit(20):
            tree.set_edge_lengths_from_node_ages(**kw)
        new = [nd.edge.length for nd in info.nodes]
        got = "ok " + " ".join(fr(x) for x in new)
    except Exception as e:  # noqa
        got = exc_name(e, D)
        new = None
    # ---- oracle: documented definition
    want, err = [], False
    for i in range(info.n):
        if info.par[i] is None:
            want.append(orig[i])
            continue
        e = ages[info.par[i]] - ages[i]
        if ml != "N" and e < F(ml):
            e = F(ml)
        if errneg and e < 0:
            err = True
        want.append(e)
    if err:
        if got != "ValueError":
            ctx.fail("negative_length", "error_on_negative_edge_lengths: expected ValueError, got %s" % got[:80], case)
    elif new is None:
        ctx.fail("setlen_error", "set_edge_lengths_from_node_ages raised %s" % got, case)
    else:
        for i in range(info.n):
            if (new[i] is None) != (want[i] is None) or (new[i] is not None and F(new[i]) != F(want[i])):
                ctx.fail("length_from_ages", "node %d: new length %s, parent age - age (min %s) is %s" % (i, new[i], ml, want[i]), case)
                break
        # round trip within the precision: an ACCEPTED tree with non-negative lengths (minimum None or <= 0) gets every
        # length back within the precision in force (first children exactly is not required by the statement)
        if case["ages"] is None and p is not None and not info.nonroot_none and (ml == "N" or F(ml) <= 0) \
                and all(info.len[i] >= 0 for i in range(info.n)):
            for i in range(info.n):
                if info.par[i] is not None and abs(F(new[i]) - info.len[i]) > p:
                    ctx.fail("roundtrip_within", "node %d: length %s became %s after calc_node_ages(precision %s) + "
                             "set_edge_lengths_from_node_ages" % (i, orig[i], new[i], p), case)
                    break
        # round trip: exactly ultrametric tree with non-negative lengths gets its lengths back
        if case["ages"] is None and info.exact_ultra and all(info.len[i] >= 0 for i in range(info.n)) and (ml == "N" or F(ml) <= 0):
            for i in range(info.n):
                if info.par[i] is not None and F(new[i]) != info.len[i]:
                    ctx.fail("roundtrip", "node %d: length %s became %s after calc_node_ages + set_edge_lengths_from_node_ages" % (
                        i, orig[i], new[i]), case)
                    break
    return [(line, got, True, None)]


def op_depths(ctx, D, case):
    toks = case["tree"]
    out = []
    # resolve_node_depths
    tree, ids = mk(D, toks)
    info = Info(tree, ids)
    ltr = "lenient" if info.nonroot_none else None
    wantd = [info.rootd[i] for i in range(info.n)]
    try:
        cache = tree.resolve_node_depths()
        dep = [info.nodes[i].depth for i in range(info.n)]
        got = "ok " + " ".join(fr(x) for x in dep)
        if any(F(cache[info.nodes[i]]) != F(dep[i]) for i in range(info.n)):
            ctx.fail("depth", "resolve_node_depths: returned cache differs from the depth attributes", case)
    except Exception as e:  # noqa
        got = lenient(exc_name(e, D), info.nonroot_none)
        dep = None
    if info.nonroot_none:
        if dep is not None and any(F(dep[i]) != wantd[i] for i in range(info.n)):
            ctx.fail("depth", "resolve_node_depths: depths %s, distances from the root %s" % (dep[:8], wantd[:8]), case)
    elif dep is None:
        ctx.fail("depth_error", "resolve_node_depths raised %s" % got, case)
    elif any(F(dep[i]) != wantd[i] for i in range(info.n)):
        ctx.fail("depth", "resolve_node_depths: depths %s, distances from the root %s" % (dep[:8], wantd[:8]), case)
    out.append(("depths " + " ".join(toks), got, True, ltr))
    # calc_node_root_distances (+ max_distance_from_root, minmax_leaf_distance_from_root)
    tree, ids = mk(D, toks)
    info2 = Info(tree, ids)
    try:
        leaf_only = case.get("leaf_only", True)
        ret = tree.calc_node_root_distances(return_leaf_distances_only=leaf_only)
        rd = [info2.nodes[i].root_distance for i in range(info2.n)]
        got2 = "ok " + " ".join(fr(x) for x in rd)
        want_ret = sorted(wantd[i] for i in range(info.n) if not leaf_only or not info.kids[i])
        if sorted(F(x) for x in ret) != want_ret:
            ctx.fail("root_distance", "calc_node_root_distances returned %s, expected %s" % (sorted(ret)[:8], want_ret[:8]), case)
        mn, mx = tree.minmax_leaf_distance_from_root()
        mx2 = tree.max_distance_from_root()
        lw = [wantd[i] for i in info.leaves]
        if F(mn) != min(lw) or F(mx) != max(lw) or F(mx2) != max(lw):
            ctx.fail("root_distance", "minmax_leaf_distance_from_root/max_distance_from_root = %s,%s,%s; leaf distances span %s..%s" % (
                mn, mx, mx2, min(lw), max(lw)), case)
        got3 = "ok %s %s" % (fr(mn), fr(mx))
    except Exception as e:  # noqa
        got2 = got3 = lenient(exc_name(e, D), info.nonroot_none)
        rd = None
    if rd is None:
        if not info.nonroot_none:
            ctx.fail("depth_error", "calc_node_root_distances raised %s" % got2, case)
    elif any(F(rd[i]) != wantd[i] for i in range(info.n)):
        ctx.fail("root_distance", "root_distance attributes %s, distances from the root %s" % (rd[:8], wantd[:8]), case)
    out.append(("depths " + " ".join(toks), got2, True, ltr))
    out.append(("minmax " + " ".join(toks), got3, True, ltr))
    # resolve_node_ages
    tree, ids = mk(D, toks)
    info3 = Info(tree, ids)
    try:
        cache = tree.resolve_node_ages()
        ra = [info3.nodes[i].age for i in range(info3.n)]
        got4 = "ok " + " ".join(fr(x) for x in ra)
    except Exception as e:  # noqa
        got4 = lenient(exc_name(e, D), info.nonroot_none)
        ra = None
    if ra is None:
        if not info.nonroot_none:
            ctx.fail("depth_error", "resolve_node_ages raised %s" % got4, case)
    else:
        H = max(wantd)
        for i in range(info.n):
            if F(ra[i]) != H - wantd[i]:
                ctx.fail("resolved_age", "resolve_node_ages: node %d has age %s; max depth - depth = %s" % (i, ra[i], H - wantd[i]), case)
                break
            if info.exact_ultra and F(ra[i]) != info.tipd[i][0]:
                ctx.fail("resolved_age", "resolve_node_ages on an ultrametric tree: node %d has age %s, tip distance %s" % (
                    i, ra[i], info.tipd[i][0]), case)
                break
    out.append(("rages " + " ".join(toks), got4, True, ltr))
    return out


def op_lineages(ctx, D, case):
    toks = case["tree"]
    d = F(case["d"])
    tree, ids = mk(D, toks)
    info = Info(tree, ids)
    ltr = "lenient" if info.nonroot_none else None
    try:
        k = tree.num_lineages_at(float(d))
        got = "ok %d" % k
    except Exception as e:  # noqa
        got = lenient(exc_name(e, D), info.nonroot_none)
        k = None
    nonroot = [i for i in range(info.n) if info.par[i] is not None]
    if not info.nonroot_none and all(info.len[i] > 0 for i in nonroot):
        want = sum(1 for i in nonroot if info.rootd[info.par[i]] < d <= info.rootd[i])
        if k is None:
            ctx.fail("lineages_error", "num_lineages_at raised %s" % got, case)
        elif k != want:
            ctx.fail("lineages", "num_lineages_at(%s) = %d; %d edges cross that distance" % (d, k, want), case)
    return [("lineages %s %s" % (fr(d), " ".join(toks)), got, True, ltr)]


def op_lists(ctx, D, case):
    """list forms and Node methods: coalescence_intervals, calc_node_root_distances (returned list, in order),
    max_distance_from_root, treemeasure.node_depths / node_ages / coalescence_ages / divergence_times,
    Node.distance_from_root / distance_from_tip (fresh Tree objects)"""
    from dendropy.calculate import treemeasure as tm
    toks = case["tree"]
    out = []
    hist = case.get("history")

    def fresh():
        # with a history: the SAME sequence of earlier calls / edits is replayed on every fresh object (it is deterministic), so
        # each entry point is asked of a Tree that has lived: stale age / depth / root_distance / _distance_from_tip attributes
        tree, ids = mk(D, case["tree"])
        if hist:
            ids = apply_history(D, tree, ids, hist)
        return tree, Info(tree, ids)

    try:
        tree, info = fresh()
    except KeyError:
        raise
    except Exception:   # noqa   an edit of the history that the library refuses on this tree: no case
        if hist:
            return []
        raise
    if hist:
        toks = tu.encode_tree(tree, info.ids)[0]      # the model (no memory) sees the tree as it is after its history
    T_ = " ".join(toks)
    ltr = "lenient" if info.nonroot_none else None
    pre = []
    stack = [info.root]
    while stack:
        i = stack.pop()
        pre.append(i)
        stack.extend(reversed(info.kids[i]))
    internal = [i for i in range(info.n) if info.kids[i]]
    wantd = [info.rootd[i] for i in range(info.n)]
    H = max(wantd)

    def attempt(fn):
        try:
            with time_limit(20):
                return fn(), None
        except Exception as e:   # noqa
            return None, e

    def judge_list(name, line, value, err, want, exact_order=True):
        """value: list of numbers (or None with err); want: list of Fractions, or None = no expectation (outside the statement)"""
        if err is not None:
            got = lenient(exc_name(err, D), info.nonroot_none)
            if got.startswith("Internal"):
                ctx.fail("internal_error", "%s raised %s" % (name, got), case)
            elif want is not None:
                ctx.fail("lists_error", "%s raised %s; expected %s" % (name, got, [str(x) for x in want][:8]), case)
        else:
            got = "ok " + " ".join(fr(x) for x in value)
            if want is not None and [F(x) for x in value] != want:
                ctx.fail("lists_value", "%s = %s; expected %s" % (name, list(value)[:8], [str(x) for x in want][:8]), case)
        if line is not None:
            out.append((line, got, True, ltr))

    defined = not info.nonroot_none
    # calc_node_root_distances: the returned list, in pre-order
    for lo in (True, False):
        tree, _ = fresh()
        v, e = attempt(lambda: tree.calc_node_root_distances(return_leaf_distances_only=lo))
        judge_list("calc_node_root_distances(return_leaf_distances_only=%s)" % lo, "rdlist %d %s" % (lo, T_), v, e,
                   [wantd[i] for i in pre if not lo or not info.kids[i]] if defined else None)
    tree, _ = fresh()
    v, e = attempt(lambda: [tree.max_distance_from_root()])
    judge_list("max_distance_from_root", "maxdist " + T_, v, e, [max(wantd[i] for i in info.leaves)] if defined else None)
    # treemeasure list functions
    for io in (False, True):
        tree, _ = fresh()
        v, e = attempt(lambda: tm.node_depths(tree, is_internal_only=io))
        judge_list("treemeasure.node_depths(is_internal_only=%s)" % io, "tmdepths %d %s" % (io, T_), v, e,
                   sorted(wantd[i] for i in range(info.n) if not io or info.kids[i]) if defined else None)
        tree, _ = fresh()
        v, e = attempt(lambda: tm.node_ages(tree, is_internal_only=io))
        judge_list("treemeasure.node_ages(is_internal_only=%s)" % io, "tmages %d %s" % (io, T_), v, e,
                   sorted(H - wantd[i] for i in range(info.n) if not io or info.kids[i]) if defined else None)
    tree, _ = fresh()
    v, e = attempt(lambda: tm.coalescence_ages(tree))
    judge_list("treemeasure.coalescence_ages", "tmages 1 " + T_, v, e, sorted(H - wantd[i] for i in internal) if defined else None)
    tree, _ = fresh()
    v, e = attempt(lambda: tm.divergence_times(tree))
    judge_list("treemeasure.divergence_times", "tmdepths 1 " + T_, v, e, sorted(wantd[i] for i in internal) if defined else None)
    # coalescence_intervals (all defaults): defined by the statement on exactly ultrametric trees
    tree, _ = fresh()
    v, e = attempt(lambda: tree.coalescence_intervals())
    want = None
    if info.exact_ultra:
        ages = sorted(info.tipd[i][0] for i in range(info.n))
        want = [ages[0]] + [b - a for a, b in zip(ages, ages[1:])]
    from dendropy.utility import error as _err
    if e is not None and isinstance(e, _err.UltrametricityError):
        got = "UltrametricityError"
        if want is not None:
            ctx.fail("lists_error", "coalescence_intervals rejected an exactly ultrametric tree", case)
        out.append(("coal " + T_, got, True, None))
    else:
        judge_list("coalescence_intervals", None, v, e, want)
        got = ("ok " + " ".join(fr(x) for x in v)) if e is None else exc_name(e, D)
        out.append(("coal " + T_, got, case.get("exact", True), None))
    # Node.distance_from_root / distance_from_tip on every node of a fresh tree
    tree, inf2 = fresh()
    vals = []
    for i in range(inf2.n):
        try:
            vals.append(fr(inf2.nodes[i].distance_from_root()))
        except Exception as ex:  # noqa
            vals.append(lenient(exc_name(ex, D), True))
    if defined and (info.has_none[info.root] or info.len[info.root] == 0):
        for i in range(info.n):
            if vals[i] != fr(wantd[i]):
                ctx.fail("node_distance", "node %d: distance_from_root() = %s, the path from the root has length %s" % (i, vals[i], wantd[i]), case)
                break
    out.append(("distroot " + T_, "ok " + " ".join(vals), True, "lenient-tokens"))
    tree, inf3 = fresh()
    try:
        tv = [inf3.nodes[i].distance_from_tip() for i in pre]
        tv = dict(zip(pre, tv))
        got = "ok " + " ".join(fr(tv[i]) for i in range(info.n))
        for i in range(info.n):
            if F(tv[i]) != max(info.tipd[i]):
                ctx.fail("node_distance", "node %d: distance_from_tip() = %s, its farthest tip is at %s" % (i, tv[i], max(info.tipd[i])), case)
                break
    except Exception as ex:  # noqa
        got = exc_name(ex, D)
        ctx.fail("node_distance", "distance_from_tip raised %s" % got, case)
    out.append(("disttip " + T_, got, True, None))
    return out


def yule_colless(c, n):
    """the code's arrangement (used to bring the model's exact components to the implementation's scale)"""
    return (c - n * math.log(n) - n * (0.5772156649015329 - 1.0 - math.log(2))) / n


def yule_colless_def(c, n):
    """oracle: Blum, Francois & Janson (2006): (I_c - E[I_c]) / n with E[I_c] ~ n ln n + (gamma - 1 - ln 2) n,
    written independently of the code: I_c/n + 1 - gamma - ln(n/2), with Euler's constant from its series definition"""
    return float(c) / n + 1.0 - EULER_FROM_SERIES - math.log(n / 2.0)


# H_m - ln m - 1/(2m) + 1/(12 m^2) at m = 200000: Euler's constant to ~1e-15, from its definition rather than from the library
EULER_FROM_SERIES = sum(1.0 / k for k in range(1, 200001)) - math.log(200000) - 1.0 / 400000 + 1.0 / (12 * 200000.0 ** 2)


def op_stats(ctx, D, case):
    """every statistic and normalisation on one tree; with case['tree2'] (a child-shuffled copy) also order independence"""
    from dendropy.calculate import treemeasure as tm
    toks = case["tree"]
    only = case.get("only")
    out = []
    results = {}

    def build(key):
        """the tree of case[key]; with case['prune'] (taxon bits) the tips carrying those taxa are removed with the library's
        prune_taxa first, so that the statistic is taken on a tree whose namespace keeps the pruned members"""
        tree, ids = mk(D, case[key])
        if case.get("prune"):
            gone = [t for t in tree.taxon_namespace if tree.taxon_namespace.accession_index(t) in set(case["prune"])]
            tree.prune_taxa(gone)
            ids = tu.Ids().assign_preorder(tree)
        if case.get("history"):
            ids = apply_history(D, tree, ids, case["history"])
        return tree, ids

    def run(name, fn, trees=("tree", "tree2")):
        for key in trees:
            if key not in case or case[key] is None or (key == "tree2" and case.get("history")):
                continue
            tree, ids = build(key)
            try:
                with time_limit(20):
                    v = fn(tree)
                results[(name, key)] = ("ok", v)
            except Exception as e:  # noqa
                results[(name, key)] = (exc_name(e, D, stat=True), None)

    try:
        tree0, ids0 = build("tree")
    except KeyError:
        raise
    except Exception:   # noqa   an edit of the history that the library refuses on this tree: no case
        if case.get("history"):
            return []
        raise
    info = Info(tree0, ids0)
    if case.get("prune") or case.get("history"):
        toks = tu.encode_tree(tree0, ids0)[0]      # the model sees the tree as it is after pruning / after its history
    n = len(info.leaves)
    nonroot = [i for i in range(info.n) if info.par[i] is not None]
    internal = [i for i in range(info.n) if info.kids[i]]
    S = sum(info.nleaves[i] for i in internal)                  # Sackin: leaves below each internal node
    S2 = sum(info.level[i] for i in info.leaves)                # = sum of leaf depths
    H = sum((F(1, j) for j in range(2, n + 1)), F(0))
    specs = []   # (name, fn, model line, want (Fraction/float or 'Undefined' or None = no expectation), transform of model output)
    T = " ".join(toks)
    specs.append(("length", lambda t: t.length(), "length " + T, sum(info.len, F(0)), None))
    specs.append(("nbar", lambda t: tm.N_bar(t), "stat nbar - " + T, F(S, n), None))
    specs.append(("sackin_none", lambda t: tm.sackin_index(t, normalize=None), "stat sackin none " + T, F(S), None))
    specs.append(("sackin_false", lambda t: tm.sackin_index(t, normalize=False), "stat sackin none " + T, F(S2), None))
    specs.append(("sackin_mean", lambda t: tm.sackin_index(t, normalize=True), "stat sackin mean " + T, F(S, n), None))
    specs.append(("sackin_default", lambda t: tm.sackin_index(t), "stat sackin mean " + T, F(S, n), None))
    specs.append(("sackin_yule", lambda t: tm.sackin_index(t, normalize="yule"), "stat sackin yule " + T, (S - 2 * n * H) / n, None))
    specs.append(("sackin_pda", lambda t: tm.sackin_index(t, normalize="pda"), "stat sackin pdasq " + T, S / float(n) ** 1.5, "sqrt"))
    # Colless
    if info.binary:
        C = sum(abs(info.nleaves[info.kids[i][0]] - info.nleaves[info.kids[i][1]]) for i in internal)
        cw = {"none": F(C), "max": (F(2 * C, (n - 1) * (n - 2)) if n >= 3 else "Undefined"),
              "pda": C / float(n) ** 1.5, "yule": yule_colless_def(C, n)}
    else:
        cw = {"none": "Undefined", "max": "Undefined", "pda": "Undefined", "yule": "Undefined"}
    specs.append(("colless_none", lambda t: tm.colless_tree_imbalance(t, normalize=None), "stat colless none " + T, cw["none"], None))
    specs.append(("colless_false", lambda t: tm.colless_tree_imbalance(t, normalize=False), "stat colless none " + T, cw["none"], None))
    specs.append(("colless_max", lambda t: tm.colless_tree_imbalance(t, normalize="max"), "stat colless max " + T, cw["max"], None))
    specs.append(("colless_default", lambda t: tm.colless_tree_imbalance(t), "stat colless max " + T, cw["max"], None))
    specs.append(("colless_true", lambda t: tm.colless_tree_imbalance(t, normalize=True), "stat colless max " + T, cw["max"], None))
    specs.append(("colless_pda", lambda t: tm.colless_tree_imbalance(t, normalize="pda"), "stat colless pdasq " + T, cw["pda"], "sqrt"))
    # Yule: log is evaluated here (ln n and Euler - 1 - ln 2 handed to the model as exact fractions of the floats), the
    # rational part of the formula is the model's (theorem colless_yule_rational)
    yarg = "%s,%s" % (fr(math.log(n)) if n > 0 else "0", fr(0.5772156649015329 - 1.0 - math.log(2)))
    specs.append(("colless_yule", lambda t: tm.colless_tree_imbalance(t, normalize="yule"), "stat collessyule %s %s" % (yarg, T), cw["yule"], None))
    specs.append(("colless_yule_parts", lambda t: tm.colless_tree_imbalance(t, normalize="yule"), "stat collessparts - " + T, cw["yule"], "yule"))
    # B1
    b1 = sum((F(1, info.height[i]) for i in internal if info.par[i] is not None), F(0))
    specs.append(("b1", lambda t: tm.B1(t), "stat b1 - " + T, b1, None))
    # treeness
    if info.nonroot_none:
        tw = "Undefined"
    else:
        ext = sum((info.len[i] for i in nonroot if not info.kids[i]), F(0))
        tot = sum((info.len[i] for i in nonroot), F(0))
        tw = (tot - ext) / tot if tot != 0 else "Undefined"
    specs.append(("treeness", lambda t: tm.treeness(t), "stat treeness - " + T, tw, None))
    # gamma
    gp = case.get("gprec", "D")
    kw, ptok, p = prec_value(D, gp)
    gkw = {} if gp == "D" else {"prec": kw["ultrametricity_precision"]}
    gw = None
    if not info.binary or n < 3:
        gw = "Undefined" if (info.exact_ultra or p is None) else None
    elif info.exact_ultra and not info.nonroot_none:
        # Pybus & Harvey (2000): g_k = time during which the tree has k lineages, k = 2..n
        times = sorted(info.rootd[i] for i in internal)          # speciation times from the root; times[0] = 0 (root)
        tip = info.rootd[info.leaves[0]]
        g = {}
        for k in range(2, n + 1):
            start = times[k - 2]
            end = times[k - 1] if k - 1 < len(times) else tip
            g[k] = end - start
        Tt = sum(k * g[k] for k in range(2, n + 1))
        assert Tt == sum((info.len[i] for i in nonroot), F(0))  # sanity of the oracle itself: T is the tree length
        if Tt == 0:
            gw = "Undefined"
        else:
            dbl = sum(sum(k * g[k] for k in range(2, i + 1)) for i in range(2, n))
            num = F(dbl, n - 2) - Tt / 2
            gw = float(num) / (float(Tt) * math.sqrt(1.0 / (12 * (n - 2))))
    specs.append(("gamma", lambda t: tm.pybus_harvey_gamma(t, **gkw), "stat gamma %s %s" % (ptok, T), gw, "signsqrt"))
    # the precision of pybus_harvey_gamma(prec=...) is the precision of calc_node_ages: same acceptance / rejection duty
    gslack = F(0) if case.get("exact", True) else EPS_ABS + REL * 100
    gamma_prec = p if (info.binary and n >= 3 and not info.nonroot_none and p is not None) else None

    for name, fn, line, want, tr in specs:
        if only is not None and name != only:
            continue
        run(name, fn)
        st, v = results[(name, "tree")]
        sub = dict(case, only=name)
        if st.startswith("Internal"):
            ctx.fail("internal_error", "%s raised %s" % (name, st), sub)
        elif want is not None:
            if isinstance(want, str):
                if st == "ok":
                    ctx.fail("stat_domain", "%s returned %s on a tree outside its domain (expected an error)" % (name, v), sub)
            elif st != "ok":
                ctx.fail("stat_error", "%s raised %s; its definition gives %s" % (name, st, float(want)), sub)
            elif not close(F(v), F(want)):
                ctx.fail("stat_value", "%s = %r; its definition gives %r" % (name, v, float(want)), sub)
        if name == "gamma" and gamma_prec is not None:
            if st == "UltrametricityError" and info.spread(info.root) + gslack <= gamma_prec:
                ctx.fail("gamma_reject_within", "pybus_harvey_gamma(prec=%s): root-to-tip paths agree within the precision (spread %s) "
                         "but the tree was rejected" % (gamma_prec, info.spread(info.root)), sub)
            if st == "ok" and not info.local_ok(gamma_prec + gslack):
                ctx.fail("gamma_accept_beyond_local", "pybus_harvey_gamma(prec=%s) returned %s although some node's other child deviates "
                         "from its first child by more than the precision (paths differ by %s)" % (gamma_prec, v, info.spread(info.root)), sub)
        # child order independence
        if (name, "tree2") in results and (name != "gamma" or info.exact_ultra):
            st2, v2 = results[(name, "tree2")]
            if st2 != st or (st == "ok" and not close(F(v), F(v2))):
                ctx.fail("child_order", "%s = %s on the tree, %s on a copy with shuffled children" % (
                    name, v if st == "ok" else st, v2 if st2 == "ok" else st2), sub)
        got = ("ok " + fr(v)) if st == "ok" else st
        exact = name in ("length", "sackin_none", "sackin_false", "colless_none", "colless_false")
        out.append((line, got, exact, tr))
    return out


def post_model(m, tr):
    """bring the model's answer to the implementation's scale (sqrt/log live outside the model)"""
    if m is None:
        return None
    m = m.strip()
    if tr.endswith("+agesonly"):
        tr = tr[:-len("+agesonly")]
        if m.startswith("ok "):
            m = m.split(" |")[0].strip()      # the wrappers' list is compared through `nodeages`
    if tr == "lenient-tokens":
        return " ".join(lenient(w, True) for w in m.split())
    if not m.startswith("ok "):
        if tr == "lenient":
            return lenient(m, True)
        return m if tr == "plain" else model_stat(m)
    if tr in ("plain", "stat", "lenient"):
        return m
    if tr == "sqrt":
        v = F(m.split()[1])
        return "ok " + fr(math.sqrt(v))
    if tr == "signsqrt":
        v = F(m.split()[1])
        return "ok " + fr(math.copysign(math.sqrt(abs(v)), v))
    if tr == "yule":
        c, n = m.split()[1:3]
        return "ok " + fr(yule_colless(int(c), int(n)))
    raise ValueError(tr)


OPS = {"ages": op_ages, "setlen": op_setlen, "depths": op_depths, "lineages": op_lineages, "stats": op_stats, "lists": op_lists}
STAT_OPS = {"stats"}


def do_case(ctx, D, case, pending):
    res = OPS[case["op"]](ctx, D, case)
    for line, got, exact, tr in res:
        pending.append((line, case, got, exact, tr if tr is not None else ("stat" if case["op"] in STAT_OPS else "plain")))


def flush(ctx, pending):
    outs = ctx.ask([p[0] for p in pending])
    for (line, case, got, exact, tr), m in zip(pending, outs):
        if m is None:
            continue
        ctx.compared()
        mm = post_model(m, tr)
        if not same(got, mm, exact):
            ctx.disagree(line.split()[0] + " " + line.split()[1], case, got, mm)
    del pending[:]


# ------------------------------------------------------------------ generators
def ultra_lengths(rng, shape, zero_rate=0.0):
    """dyadic ultrametric lengths for a shape: returns nested (length, children) with the root's length None"""
    def inc():
        if rng.random() < zero_rate:
            return F(0)
        return F(rng.randint(1, 12), 2 ** rng.randint(0, 3))

    def go(sh):
        if not sh:
            return F(0), []
        subs = [go(c) for c in sh]
        age = max(a for a, _ in subs) + inc()
        return age, [(age - a, sub) for (a, sub) in subs]
    age, kids = go(shape)
    return kids


def tokens_from(shape, lens):
    """protocol tokens from a shape and a pre-order list of lengths (Fraction or None); leaves get taxa 0.."""
    par, tax, ll = [], [], []
    it = iter(lens)
    ntax = [0]

    def go(sh, p):
        i = len(par)
        par.append(p)
        ll.append(next(it))
        if not sh:
            tax.append(str(ntax[0]))
            ntax[0] += 1
        else:
            tax.append("-")
        for c in sh:
            go(c, i)
    go(shape, -1)
    n = len(par)
    return [str(n)] + [str(p) for p in par] + tax + [tu.frac(x) for x in ll] + ["-"] * n


def preorder_lens_ultra(rng, shape, root_len, zero_rate=0.0):
    kids = ultra_lengths(rng, shape, zero_rate)
    out = [root_len]

    def go(ks):
        for l, sub in ks:
            out.append(l)
            go(sub)
    go(kids)
    return out


def rand_shape(rng, n):
    r = rng.random()
    if r < 0.1:
        return rng.choice(tu.shape_families(n))
    if r < 0.5:
        return tu.rand_shape(rng, n, p_poly=0.0, p_unary=0.0)
    return tu.rand_shape(rng, n, p_poly=rng.choice([0.1, 0.3, 0.6]), p_unary=rng.choice([0.0, 0.0, 0.1, 0.3]))


def count_nodes(shape):
    return 1 + sum(count_nodes(c) for c in shape)


def gen_tree(rng, max_leaves, kind=None):
    """returns (tokens, kind)"""
    n = rng.randint(1, max_leaves) if rng.random() < 0.9 else rng.randint(1, 3)
    shape = rand_shape(rng, n)
    kind = kind or rng.choice(["ultra", "ultra", "ultra", "random", "random", "none", "zero"])
    root_len = rng.choice([None, None, F(0), F(1, 2), F(3)])
    if kind == "ultra":
        lens = preorder_lens_ultra(rng, shape, root_len)
    elif kind == "zero":
        lens = preorder_lens_ultra(rng, shape, root_len, zero_rate=0.3)
    elif kind == "random":
        lens = [root_len] + [F(tu.dyadic(rng)) for _ in range(count_nodes(shape) - 1)]
    else:
        lens = [root_len] + [None if rng.random() < 0.2 else F(tu.dyadic(rng)) for _ in range(count_nodes(shape) - 1)]
    toks = tokens_from(shape, lens)
    if rng.random() < 0.5:
        toks = namespace_variant(rng, toks)
    return toks, kind


def namespace_variant(rng, toks):
    """the same tree in a taxon namespace that does NOT coincide with its tip set: tips keep distinct taxa but the taxon bits
    get holes (the namespace then has members that are on no tip, as in a shared namespace or after pruning) and some tips
    lose their taxon altogether"""
    n = int(toks[0])
    out = list(toks)
    leaves = leaf_indices(toks)
    bit = 0
    p_hole = rng.choice([0.0, 0.3, 0.6])
    p_blank = rng.choice([0.0, 0.0, 0.2])
    for i in leaves:
        while rng.random() < p_hole:
            bit += 1
        if rng.random() < p_blank:
            out[1 + n + i] = "-"
        else:
            out[1 + n + i] = str(bit)
            bit += 1
    if rng.random() < 0.3 and leaves:      # members beyond the last tip as well
        last = [i for i in leaves if out[1 + n + i] != "-"]
        if last:
            out[1 + n + last[-1]] = str(int(out[1 + n + last[-1]]) + rng.randint(1, 4))
    return out


def prune_choice(rng, toks):
    """taxon bits of some tips to prune, keeping at least two taxon-bearing tips (None when the tree is too small)"""
    n = int(toks[0])
    bits = [int(toks[1 + n + i]) for i in leaf_indices(toks) if toks[1 + n + i] != "-"]
    if len(bits) < 3:
        return None
    k = rng.randint(1, len(bits) - 2)
    return sorted(rng.sample(bits, k))


def shuffle_tokens(rng, toks):
    """same tree with the children of every node in a random order (node ids are renumbered in pre-order)"""
    n = int(toks[0])
    par = [int(x) for x in toks[1:1 + n]]
    cols = [toks[1 + k * n:1 + (k + 1) * n] for k in range(1, 4)]
    kids = [[] for _ in range(n)]
    root = 0
    for i, p in enumerate(par):
        if p < 0:
            root = i
        else:
            kids[p].append(i)
    order, newpar = [], []

    def go(i, p):
        me = len(order)
        order.append(i)
        newpar.append(p)
        ks = list(kids[i])
        rng.shuffle(ks)
        for c in ks:
            go(c, me)
    go(root, -1)
    return [str(n)] + [str(p) for p in newpar] + [col[i] for col in cols for i in order]


def leaf_indices(toks):
    n = int(toks[0])
    par = [int(x) for x in toks[1:1 + n]]
    return [i for i in range(n) if i not in par]


def set_len(toks, i, value):
    n = int(toks[0])
    out = list(toks)
    out[1 + 2 * n + i] = tu.frac(value)
    return out


def get_len(toks, i):
    n = int(toks[0])
    s = toks[1 + 2 * n + i]
    return None if s == "N" else F(s)


EPS_CHOICES = ["D", "1/100", "1/1024", "1/8", "1", "0"]


def eps_float(D, e):
    from dendropy.utility import constants
    return constants.DEFAULT_ULTRAMETRICITY_PRECISION if e == "D" else float(F(e))


def perturbed(D, toks, leaf, eps, k, sign, direction):
    """one tip moved by eps*(1 + sign*2^-k) (k = None: exactly eps). returns (tokens, exact?) or None"""
    e = eps_float(D, eps)
    old = get_len(toks, leaf)
    if old is None:
        return None
    delta = e if k is None else e * (1.0 + sign * 2.0 ** -k)
    new = float(old) + direction * delta
    if new < 0:
        new = float(old) + delta
    # exact in binary64 iff eps is dyadic and the bits fit
    ex = F(old) + direction * (F(e) if k is None else F(e) * (1 + sign * F(1, 2 ** k)))
    exact = F(new) == ex or F(new) == F(old) + (F(e) if k is None else F(e) * (1 + sign * F(1, 2 ** k)))
    if k is None and not exact and eps != "0":
        return None      # "exactly eps" is meaningful only where eps and the sum are exact in binary64
    if eps == "0":
        new = float(old) + (0.0 if k is None else direction * 2.0 ** -k)
        if new < 0:
            new = float(old) + 2.0 ** -k
        exact = True
    return set_len(toks, leaf, F(new)), exact


def age_case(rng, toks, prec, exact=True, fmax=False, fmin=False):
    return {"op": "ages", "tree": toks, "prec": prec, "fmax": fmax, "fmin": fmin,
            "via": rng.choice(["calc", "calc", "node_ages", "internal_node_ages"]), "io": rng.random() < 0.3, "exact": exact}


# ------------------------------------------------------------------ time scale x precision
def scale_tokens(toks, factor):
    n = int(toks[0])
    out = list(toks)
    for i in range(n):
        v = out[1 + 2 * n + i]
        if v != "N":
            out[1 + 2 * n + i] = tu.frac(F(v) * factor)
    return out


def node_classes(toks):
    """non-root nodes by (first child?, leaf?) with their depth"""
    n = int(toks[0])
    par = [int(x) for x in toks[1:1 + n]]
    kids = [[] for _ in range(n)]
    for i, q in enumerate(par):
        if q >= 0:
            kids[q].append(i)
    depth = [0] * n
    for i in range(n):          # parents precede children in the protocol's pre-order
        if par[i] >= 0:
            depth[i] = depth[par[i]] + 1
    cls = {}
    for i in range(n):
        if par[i] >= 0:
            cls.setdefault((kids[par[i]][0] == i, not kids[i]), []).append(i)
    return cls, depth


def scale_sweep_tree(ctx, D, rng, pending, mode=None, s=None, ratio=None, fixed=None):
    """one exactly ultrametric dyadic tree of height ~2^s (s in -20..30, i.e. 1e-6..1e9), one precision, ONE edge (a tip or an
    internal edge; below a first or a non-first child; any depth) lengthened / shortened by f x precision, f in
    {1/4, 1/2, 1-2^-k, 1, 1+2^-k, 2, 8}; every arithmetic step of the code stays exact in binary64 (bit span checked), so that
    acceptance / rejection is decided exactly: rejected iff some node's other child deviates from its first child by more than
    the precision.  mode: 'dyadic' precision 2^e (e in -50..10), 'D' the library default (margins keep float and exact verdicts
    equal), 'zero' precision 0 with a deviation down to 2^-40 of the height, 'off' check disabled (negative / None / False)."""
    mode = mode or rng.choice(["dyadic", "dyadic", "dyadic", "D", "D", "zero", "off"])
    nl = rng.randint(2, 9)
    if rng.random() < 0.6:
        shape = tu.rand_shape(rng, nl, p_poly=0.0, p_unary=0.0)
    else:
        shape = tu.rand_shape(rng, nl, p_poly=rng.choice([0.2, 0.5]), p_unary=rng.choice([0.0, 0.2]))
    if s is None:
        s = rng.randint(-20, 26 if mode == "D" else 30)
    base = scale_tokens(tokens_from(shape, preorder_lens_ultra(rng, shape, None)), F(2) ** s)
    exact = True
    if mode == "dyadic":
        for _ in range(50):
            d = ratio if ratio is not None else rng.randint(-12, 38)     # log2(height / precision)
            e = s - d
            if -50 <= e <= 10 or ratio is not None:
                break
        pv = F(2) ** e
        ptok = tu.frac(pv)
        kmax = min(12, 40 - d)
        fs = [F(1, 4), F(1, 2), F(1), F(2), F(8)]
        if kmax >= 1:
            k = rng.randint(1, kmax)
            fs += [1 - F(1, 2 ** k), 1 + F(1, 2 ** k)]
        deltas = [pv * f for f in fs]
        bucket = "r<0" if d < 0 else "r0-19" if d < 20 else "r20-29" if d < 30 else "r30+"
    elif mode == "D":
        ptok, exact = "D", False
        pv = F(eps_float(D, "D"))
        k = rng.randint(1, 4)
        deltas = [pv * f for f in (F(1, 4), F(1, 2), 1 - F(1, 2 ** k), 1 + F(1, 2 ** k), F(2), F(8))]
        bucket = "D-s<0" if s < 0 else "D-s0-13" if s < 14 else "D-s14+"
    elif mode == "zero":
        ptok = "0"
        deltas = [F(2) ** (s - j) for j in rng.sample(range(2, 41), 4)] + [F(0)]
        bucket = "zero"
    else:
        ptok = rng.choice(["neg", "N", "F"])
        deltas = [F(2) ** (s - j) for j in rng.sample(range(0, 30), 3)]
        bucket = "off"
    cls, depth = node_classes(base)
    if fixed is not None:
        key = fixed
    else:
        key = rng.choice(sorted(cls))
    if key not in cls:
        key = sorted(cls)[0]
    target = rng.choice(cls[key])
    binary = all(base[1:1 + int(base[0])].count(str(i)) in (0, 2) for i in range(int(base[0])))
    for delta in deltas:
        old = get_len(base, target)
        sign = -1 if (rng.random() < 0.3 and old - delta >= 0) else 1
        new = old + sign * delta
        if exact:
            if F(float(new)) != new:
                continue            # not representable: outside the exact regime
        else:
            new = F(float(old) + sign * float(delta))
        t2 = set_len(base, target, new)
        case = age_case(rng, t2, ptok, exact=exact)
        case["scale"] = [s, bucket, list(key), depth[target]]
        ctx.case(["scale", t2, ptok, case["via"], case["io"]], True, sample=case, kind="scale-ages-" + bucket)
        do_case(ctx, D, case, pending)
        if binary and nl >= 3 and ptok not in ("F",):
            case = {"op": "stats", "tree": t2, "gprec": ptok, "only": "gamma", "exact": exact, "scale": [s, bucket, list(key), depth[target]]}
            ctx.case(["scale-gamma", t2, ptok], True, sample=case, kind="scale-gamma-" + bucket)
            do_case(ctx, D, case, pending)


def scale_sweep(ctx, D, rng, pending, count, seconds=None):
    import time
    t0 = time.time()
    # the two landmark regimes first: a tree dated in years under the default precision, a shallow tree under a tiny precision
    for key in ((False, True), (True, True), (False, False), (True, False)):
        scale_sweep_tree(ctx, D, rng, pending, mode="D", s=rng.randint(18, 26), fixed=key)
        scale_sweep_tree(ctx, D, rng, pending, mode="dyadic", s=rng.randint(0, 6), ratio=rng.randint(31, 38), fixed=key)
        scale_sweep_tree(ctx, D, rng, pending, mode="dyadic", s=rng.randint(20, 30), ratio=rng.randint(31, 38), fixed=key)
    for i in range(count):
        if seconds is not None and time.time() - t0 > seconds:
            break
        scale_sweep_tree(ctx, D, rng, pending)
        if len(pending) >= 3000:
            flush(ctx, pending)



def run_perturbation(ctx, D, rng, toks, pending, ks, leaves=None, all_signs=False):
    cnt = 0
    for leaf in (leaves if leaves is not None else [rng.choice(leaf_indices(toks))]):
        for eps in EPS_CHOICES:
            for k in ks:
                for sign in ((1, -1) if all_signs else (rng.choice((1, -1)),)):
                    for direction in ((1, -1) if all_signs else (rng.choice((1, -1)),)):
                        r = perturbed(D, toks, leaf, eps, k, sign, direction)
                        if r is None:
                            continue
                        t2, exact = r
                        case = age_case(rng, t2, eps, exact=exact)
                        case["perturb"] = [leaf, eps, k, sign, direction]
                        ctx.case(["perturb", t2, eps], True, sample=case, kind="ages-perturbed")
                        do_case(ctx, D, case, pending)
                        cnt += 1
    return cnt


def multi_perturbed(rng, toks):
    """every tip moved by j*eps/4, j in 0..5, eps dyadic: accumulation of deviations along the first-child chain"""
    eps = rng.choice(["1/1024", "1/8", "1"])
    out = toks
    for leaf in leaf_indices(toks):
        old = get_len(out, leaf)
        if old is None:
            continue
        out = set_len(out, leaf, old + F(eps) * F(rng.randint(0, 5), 4))
    return out, eps


def gen_history(rng, toks):
    """a history of one Tree object: earlier age computations / age attributes from elsewhere / dated tips, then (mostly)
    an edit that turns internal nodes into tips or moves the tips, possibly another computation"""
    n = int(toks[0])
    par = [int(x) for x in toks[1:1 + n]]
    internal = [i for i in range(n) if i in par and par[i] >= 0]
    nonroot = [i for i in range(n) if par[i] >= 0]
    leaves = leaf_indices(toks)

    def computation():
        r = rng.random()
        if rng.random() < 0.15:
            return ["tipdist", None if rng.random() < 0.6 or not internal else rng.choice(internal)]
        if r < 0.3:
            return ["ages", rng.choice(["D", "N", "0", "100"]), rng.choice(["calc", "node_ages", "internal_node_ages"])]
        if r < 0.4:
            return ["force", rng.choice(["max", "min"])]
        if r < 0.5:
            return ["gamma"]
        if r < 0.6:
            return ["resolve"]
        if r < 0.65:
            return ["intervals"]
        if r < 0.82:
            return ["stale", [tu.frac(F(rng.randint(0, 12), 2)) for _ in range(n)]]
        # tips dated through set_node_age_fn (non-contemporary tips), internal nodes computed
        return ["datefn", [tu.frac(F(rng.randint(0, 6), 2)) if i in leaves and rng.random() < 0.7 else None for i in range(n)]]

    steps = [computation()]
    if rng.random() < 0.3:
        steps.append(computation())
    for _ in range(rng.choice([0, 1, 1, 1, 2])):
        r = rng.random()
        if r < 0.4 and internal:
            steps.append(["clear", rng.choice(internal)])
        elif r < 0.6 and nonroot:
            steps.append(["remove", rng.choice(nonroot)])
        elif r < 0.85:
            steps.append(["truncate", tu.frac(F(rng.randint(1, 24), 4))])
        else:
            steps.append(["scale", rng.choice(["2", "1/2", "4"])])
    if rng.random() < 0.25:
        steps.append(computation())
    return steps


def tree_battery(ctx, D, rng, toks, kind, pending):
    """all operations on one tree"""
    n = int(toks[0])
    poly = any(toks[1:1 + n].count(str(i)) not in (0, 2) for i in range(n))
    nontriv = kind != "ultra" or poly
    # ages under a few configurations
    for prec in rng.sample(["D", "N", "F", "neg", "0", "1/1024", "1/2", "4", "100"], 3):
        case = age_case(rng, toks, prec)
        ctx.case(["ages", toks, prec, case["via"], case["io"]], nontriv or prec != "D", sample=case, kind="ages-" + kind)
        do_case(ctx, D, case, pending)
    for fx, fn in ((True, False), (False, True)) + (((True, True),) if rng.random() < 0.1 else ()):
        case = age_case(rng, toks, rng.choice(["D", "N", "0"]), fmax=fx, fmin=fn)
        ctx.case(["ages-force", toks, fx, fn], True, sample=case, kind="ages-forced")
        do_case(ctx, D, case, pending)
    # the same calls on a Tree object with a history (earlier age computations, stale / dated ages, edits)
    for _ in range(2):
        hist = gen_history(rng, toks)
        case = age_case(rng, toks, rng.choice(["D", "D", "0", "N", "1/2"]))
        case["history"] = hist
        ctx.case(["ages-history", toks, hist, case["prec"], case["via"]], True, sample=case, kind="ages-history")
        do_case(ctx, D, case, pending)
    # lengths from ages
    case = {"op": "setlen", "tree": toks, "ages": None, "prec": rng.choice(["D", "0", "N", "1/2"]),
            "minlen": rng.choice(["0", "0", "N", "1/2", "-1"]), "errneg": rng.random() < 0.3}
    ctx.case(["roundtrip", toks, case["prec"], case["minlen"], case["errneg"]], nontriv, sample=case, kind="roundtrip")
    do_case(ctx, D, case, pending)
    case = {"op": "setlen", "tree": toks, "ages": [tu.frac(F(rng.randint(0, 12), 2)) for _ in range(n)],
            "minlen": rng.choice(["0", "N", "1/2", "-1", "-4"]), "errneg": rng.random() < 0.5}
    ctx.case(["setlen", toks, case["ages"], case["minlen"], case["errneg"]], True, kind="setlen")
    do_case(ctx, D, case, pending)
    if rng.random() < 0.3:
        case = {"op": "setlen", "tree": toks, "ages": [tu.frac(F(rng.randint(0, 12), 2)) for _ in range(n)], "minlen": "D", "errneg": False}
        ctx.case(["setlen-defaults", toks, case["ages"]], True, kind="setlen-defaults")
        do_case(ctx, D, case, pending)
    # list forms (returned lists in order, sorted lists, coalescence intervals) and the Node methods
    case = {"op": "lists", "tree": toks}
    ctx.case(["lists", toks], nontriv, sample=case, kind="lists-" + kind)
    do_case(ctx, D, case, pending)
    if rng.random() < 0.5:
        hist = gen_history(rng, toks)
        case = {"op": "lists", "tree": toks, "history": hist}
        ctx.case(["lists-history", toks, hist], True, sample=case, kind="lists-history")
        do_case(ctx, D, case, pending)
    # depths / root distances / resolved ages
    case = {"op": "depths", "tree": toks, "leaf_only": rng.random() < 0.5}
    ctx.case(["depths", toks], nontriv, kind="depths")
    do_case(ctx, D, case, pending)
    # lineages: at node depths (ties), between them, 0, beyond, negative
    tree, ids = mk(D, toks)
    info = Info(tree, ids)
    ds = sorted(set(info.rootd.values()))
    cands = set(ds) | {(a + b) / 2 for a, b in zip(ds, ds[1:])} | {F(0), ds[-1] + 1, F(-1)}
    for d in rng.sample(sorted(cands), min(4, len(cands))):
        case = {"op": "lineages", "tree": toks, "d": tu.frac(d)}
        ctx.case(["lineages", toks, case["d"]], d in info.rootd.values() or nontriv, kind="lineages")
        do_case(ctx, D, case, pending)
    # statistics, on the tree and a child-shuffled copy
    case = {"op": "stats", "tree": toks, "tree2": shuffle_tokens(rng, toks), "gprec": rng.choice(["D", "D", "0", "1/2", "N"])}
    ctx.case(["stats", toks, case["tree2"]], True, sample={"op": "stats", "tree": toks}, kind="stats-" + kind)
    do_case(ctx, D, case, pending)
    if rng.random() < 0.5:
        hist = gen_history(rng, toks)
        case = {"op": "stats", "tree": toks, "gprec": rng.choice(["D", "0", "N"]), "history": hist}
        ctx.case(["stats-history", toks, hist], True, sample=case, kind="stats-history")
        do_case(ctx, D, case, pending)
    # the same statistics on the tree after prune_taxa (the pruned members stay in the namespace)
    pr = prune_choice(rng, toks) if rng.random() < 0.5 else None
    if pr:
        case = {"op": "stats", "tree": toks, "tree2": shuffle_tokens(rng, toks), "gprec": "N", "prune": pr}
        ctx.case(["stats-pruned", toks, pr], True, sample={"op": "stats", "tree": toks, "prune": pr}, kind="stats-pruned")
        do_case(ctx, D, case, pending)


def run(ctx):
    D = __import__("dendropy")
    rng = ctx.rng
    import time
    ctx.t0 = time.time()      # the exploration budget starts here (waiting for the shared build lock must not eat it)
    ctx.set_budget(30, 640)
    pending = []
    ntrees = ctx.pick(800, 20000)
    max_leaves = ctx.pick(14, 40)

    def maybe_flush(limit=3000):
        if len(pending) >= limit:
            flush(ctx, pending)

    # fixed corner cases first
    corner = [(["1", "-1", "0", "N", "-"], "ultra"), (["1", "-1", "0", "2", "-"], "ultra"),
              (tokens_from([[], []], [None, F(1), F(1)]), "ultra"), (tokens_from([[], []], [None, F(1), F(2)]), "random"),
              (tokens_from([[[]]], [None, F(1), F(2)]), "ultra"), (tokens_from([[[], []]], [None, F(1), F(2), F(2)]), "ultra"),
              (tokens_from([[], [], []], [None, F(1), F(1), F(1)]), "ultra"),
              (tokens_from([[], []], [None, None, None]), "none"), (tokens_from([[[], []], []], [F(1), F(0), F(0), F(0), F(0)]), "zero")]
    for toks, kind in corner:
        tree_battery(ctx, D, rng, toks, kind, pending)
    # polytomies: EVERY non-first child is compared with the first (a deviating middle / last / second child, at the root and below)
    for shape, lens in (([[], [], []], [None, 1, 3, 1]), ([[], [], []], [None, 1, 1, 3]), ([[], [], [], []], [None, 1, 1, 3, 1]),
                        ([[], [], [], []], [None, 2, 1, 2, 2]), ([[[], [], []], []], [None, 1, 1, 3, 1, 2]),
                        ([[], [[], [], [], []]], [None, 3, 1, 2, 2, 4, 2]), ([[], [], [], [], []], [None, 1, 1, 1, 2, 1])):
        ptoks = tokens_from(shape, [None if x is None else F(x) for x in lens])
        for prec in ("D", "0", "1", "3/2", "2", "4"):
            for via in ("calc", "node_ages", "internal_node_ages"):
                case = dict(age_case(rng, ptoks, prec), via=via)
                ctx.case(["polytomy", ptoks, prec, via], True, sample=case, kind="ages-polytomy")
                do_case(ctx, D, case, pending)
        case = {"op": "stats", "tree": ptoks, "gprec": "1"}
        ctx.case(["stats-polytomy", ptoks], True, kind="stats-polytomy")
        do_case(ctx, D, case, pending)
    # time scale x precision: heights 2^-20 .. 2^30, precisions 2^-50 .. 2^10 / default / 0 / disabled, one edge off by f x precision
    scale_sweep(ctx, D, rng, pending, ctx.pick(60, 1500))
    for it in range(ntrees):
        if ctx.out_of_time() or (ctx.tier == "thorough" and ctx.time_left() < 0.45 * ctx.budget_s):
            ctx.note("random phase stopped after %d trees (the rest of the budget belongs to the exhaustive phases)" % it)
            break
        toks, kind = gen_tree(rng, max_leaves)
        tree_battery(ctx, D, rng, toks, kind, pending)
        scale_sweep_tree(ctx, D, rng, pending)
        if kind == "ultra":
            # one tip just below / just above / exactly at every precision
            ks = [None] + rng.sample(range(1, 21), ctx.pick(2, 4))
            run_perturbation(ctx, D, rng, toks, pending, ks)
            if rng.random() < 0.5:
                t2, eps = multi_perturbed(rng, toks)
                for prec in (eps, tu.frac(F(eps) * 2), "0"):
                    case = age_case(rng, t2, prec)
                    ctx.case(["multi", t2, prec], True, sample=case, kind="ages-multi")
                    do_case(ctx, D, case, pending)
                case = {"op": "stats", "tree": t2, "tree2": shuffle_tokens(rng, t2), "gprec": rng.choice([eps, tu.frac(F(eps) * 2), "N"])}
                ctx.case(["stats-multi", t2], True, kind="stats-multi")
                do_case(ctx, D, case, pending)
        maybe_flush()
    flush(ctx, pending)
    if ctx.tier == "thorough":
        cnt = 0
        for n in range(1, 7):
            for shape in tu.all_shapes(n):
                if ctx.out_of_time():
                    break
                toks = tokens_from(shape, preorder_lens_ultra(rng, shape, None))
                if n <= 5:
                    cnt += run_perturbation(ctx, D, rng, toks, pending, [None, 1, 2, 5, 10, 15, 20], leaves=leaf_indices(toks), all_signs=True)
                else:
                    cnt += run_perturbation(ctx, D, rng, toks, pending, [None, rng.randint(1, 19), 20], leaves=leaf_indices(toks))
                maybe_flush(20000)
        flush(ctx, pending)
        cnt2 = 0
        for n in range(1, 8):
            for shape in tu.all_shapes(n):
                if ctx.out_of_time():
                    break
                toks = tokens_from(shape, preorder_lens_ultra(rng, shape, None))
                case = {"op": "stats", "tree": toks, "tree2": shuffle_tokens(rng, toks), "gprec": "D"}
                ctx.case(["stats-exh", toks], True, kind="stats-exhaustive")
                do_case(ctx, D, case, pending)
                t2 = namespace_variant(rng, toks)
                case = {"op": "stats", "tree": t2, "tree2": shuffle_tokens(rng, t2), "gprec": "D", "prune": prune_choice(rng, t2)}
                ctx.case(["stats-exh-ns", t2, case["prune"]], True, kind="stats-exhaustive-namespace")
                do_case(ctx, D, case, pending)
                cnt2 += 1
                maybe_flush(20000)
        flush(ctx, pending)
        ctx.extra["exhaustive_small_scope"] = ("every shape <= 5 leaves x every tip x 6 precisions x k in {exact,1,2,5,10,15,20} x both signs x "
                                               "both directions, every shape of 6 leaves x every tip x 6 precisions x k in {exact, random, 20}: "
                                               "%d age cases; every statistic on every shape <= 7 leaves: %d trees" % (cnt, cnt2))


def search(ctx, broken):
    """a regenerated kernel left the supported subset, a bridge theorem no longer holds, or model and code disagree: look for
    a concrete failing input on the real code in the affected mechanisms - every operation on every shape <= 5 leaves
    (ultrametric, randomly non-ultrametric, zero lengths) and a one-tip perturbation sweep around every precision"""
    D = __import__("dendropy")
    rng = ctx.rng
    pending = []
    scale_sweep(ctx, D, rng, pending, 4000, seconds=40)
    flush(ctx, pending)
    for n in range(1, 6):
        for shape in tu.all_shapes(n):
            if ctx.failures or ctx.out_of_time():
                break
            nn = count_nodes(shape)
            for kind, lens in (("ultra", preorder_lens_ultra(rng, shape, None)),
                               ("zero", preorder_lens_ultra(rng, shape, F(1, 2), zero_rate=0.4)),
                               ("random", [None] + [F(tu.dyadic(rng)) for _ in range(nn - 1)])):
                toks = tokens_from(shape, lens)
                tree_battery(ctx, D, rng, toks, kind, pending)
                if kind == "ultra" and n >= 2:
                    run_perturbation(ctx, D, rng, toks, pending, [None, 1, 10, 20])
            if len(pending) > 5000:
                flush(ctx, pending)
    flush(ctx, pending)


def replay(ctx, rec):
    D = __import__("dendropy")
    pending = []
    do_case(ctx, D, rec["replay"], pending)
    flush(ctx, pending)
