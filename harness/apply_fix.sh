#!/bin/sh
# coordinator tool: apply /verif/fixes/<slug>.patch to /repo as one "fix:" commit and record it
SLUG=$1
P=/verif/fixes/$SLUG.patch; M=/verif/fixes/$SLUG.msg
cd /repo || exit 1
if git apply --check "$P" 2>/dev/null; then git apply "$P"; elif git apply -p0 --check "$P" 2>/dev/null; then git apply -p0 "$P"; elif patch -p0 --dry-run < "$P" >/dev/null 2>&1; then patch -p0 < "$P"; elif patch -p1 --dry-run < "$P" >/dev/null 2>&1; then patch -p1 < "$P"; else echo "CANNOT APPLY $SLUG"; exit 1; fi
head -1 "$M" | grep -q '^fix:' || { echo "message of $SLUG does not start with fix:"; git checkout -- .; exit 1; }
git add -A src && git commit -q -F "$M" && git log --format='%h %s' -1
