"""Gen/C04Kernels.lean: the closed-form kernels of calculate/treecompare.py, read off the CURRENT source (tie A of C04).

What is regenerated (each is a small symbolic evaluation of the function's AST over a finite abstract domain, or a
translation of an arithmetic expression; anything outside the recognised subset raises `Unsupported`, never a guess):

* `rfOf`            symmetric_difference: the arithmetic on the pair returned by false_positives_and_negatives
* `fpfnK`           false_positives_and_negatives: which set is subtracted from which, and the order of the returned counts
* `missingK`        find_missing_bipartitions: which tree is walked, and the polarity of the membership test
* `wrfTerm` / `euclidTerm`, `wrfOuterSqrt` / `euclidOuterSqrt`   the `dist_fn` lambdas: per-pair term, `sum`, outer `math.sqrt`
* `loop1` / `loop2`  _get_length_diffs: the decision table of one iteration of each loop over
                    (length is None, edge is the root edge, split present in the other tree's map, ...) -> refuse | pair of sources
* `prep_*` / `nsRefuses_*`  the re-encoding protocol (`is_bipartitions_updated`) and the namespace identity check of the three
                    functions that carry them
* `aliases`         the delegating entry points (module-level aliases and the deprecated Tree methods): callee and argument order

Harmless rewrites are absorbed: temporaries are inlined, `a - b` / `a.difference(b)`, `x ** 2` / `pow(x, 2)` / `x * x`,
nested `if`s versus `and`, keyword versus positional arguments, list comprehension versus generator all give the same file or
a file whose bridge theorem (Props/C04.lean, `ring` / `simp` / `decide`) still holds."""
import ast
import itertools
import os

from extract import Unsupported, find_function

NAME = "C04Kernels"


# ------------------------------------------------------------------ helpers
def _body(fn):
    return [s for s in fn.body if not (isinstance(s, ast.Expr) and isinstance(s.value, ast.Constant) and isinstance(s.value.value, str))]


def _params(fn):
    if fn.args.vararg or fn.args.kwarg or fn.args.kwonlyargs:
        raise Unsupported("unsupported signature of %s" % fn.name)
    return [a.arg for a in fn.args.args]


def _is_name(e, name=None):
    return isinstance(e, ast.Name) and (name is None or e.id == name)


def _attr_of(e, attr):
    """`X.attr` with X a plain name -> X, else None"""
    if isinstance(e, ast.Attribute) and e.attr == attr and isinstance(e.value, ast.Name):
        return e.value.id
    return None


def _dump(n):
    return ast.dump(n)[:160]


def _bool(b):
    return "true" if b else "false"


# ------------------------------------------------------------------ arithmetic terms -> Lean over Rat / Int
def _arith(e, leaf, ty):
    """+ - * unary-minus abs pow(.,n) **n over leaves recognised by `leaf` (returns Lean text or None)"""
    got = leaf(e)
    if got is not None:
        return got
    if isinstance(e, ast.Constant) and isinstance(e.value, int) and not isinstance(e.value, bool):
        return "(%d : %s)" % (e.value, ty)
    if isinstance(e, ast.BinOp):
        if isinstance(e.op, (ast.Add, ast.Sub, ast.Mult)):
            op = {ast.Add: "+", ast.Sub: "-", ast.Mult: "*"}[type(e.op)]
            return "(%s %s %s)" % (_arith(e.left, leaf, ty), op, _arith(e.right, leaf, ty))
        if isinstance(e.op, ast.Pow) and isinstance(e.right, ast.Constant) and isinstance(e.right.value, int) \
                and not isinstance(e.right.value, bool) and 0 <= e.right.value <= 8:
            return "(kpow %s %d)" % (_arith(e.left, leaf, ty), e.right.value)
    if isinstance(e, ast.UnaryOp) and isinstance(e.op, ast.USub):
        return "(- %s)" % _arith(e.operand, leaf, ty)
    if isinstance(e, ast.Call) and not e.keywords:
        if _is_name(e.func, "abs") and len(e.args) == 1:
            return "(kabs %s)" % _arith(e.args[0], leaf, ty)
        if _is_name(e.func, "pow") and len(e.args) == 2 and isinstance(e.args[1], ast.Constant) \
                and isinstance(e.args[1].value, int) and not isinstance(e.args[1].value, bool) and 0 <= e.args[1].value <= 8:
            return "(kpow %s %d)" % (_arith(e.args[0], leaf, ty), e.args[1].value)
    raise Unsupported("arithmetic outside + - * abs pow: %s" % _dump(e))


# ------------------------------------------------------------------ K1: symmetric_difference
def _call_args(call, callee_params):
    """{param name: argument expression} of a call, positional and keyword"""
    out = {}
    if any(isinstance(a, ast.Starred) for a in call.args) or any(k.arg is None for k in call.keywords):
        raise Unsupported("star arguments in %s" % _dump(call))
    for p, a in zip(callee_params, call.args):
        out[p] = a
    if len(call.args) > len(callee_params):
        raise Unsupported("too many arguments in %s" % _dump(call))
    for k in call.keywords:
        if k.arg in out:
            raise Unsupported("argument given twice in %s" % _dump(call))
        out[k.arg] = k.value
    return out


def _callee_name(call):
    f = call.func
    if isinstance(f, ast.Name):
        return f.id
    if isinstance(f, ast.Attribute) and isinstance(f.value, ast.Name) and f.value.id == "treecompare":
        return f.attr
    raise Unsupported("callee of %s" % _dump(call))


def k_symdiff(mod):
    fn = find_function(mod, "symmetric_difference")
    ps = _params(fn)
    fpfn_params = _params(find_function(mod, "false_positives_and_negatives"))
    env = {}          # name -> "pair" | ("item", 0|1)
    ret = None
    info = None
    for s in _body(fn):
        if isinstance(s, ast.Assign) and len(s.targets) == 1 and isinstance(s.value, ast.Call) \
                and _callee_name(s.value) == "false_positives_and_negatives":
            if info is not None:
                raise Unsupported("symmetric_difference calls false_positives_and_negatives twice")
            info = _call_args(s.value, fpfn_params)
            t = s.targets[0]
            if isinstance(t, ast.Name):
                env[t.id] = "pair"
            elif isinstance(t, (ast.Tuple, ast.List)) and len(t.elts) == 2 and all(isinstance(x, ast.Name) for x in t.elts):
                env[t.elts[0].id] = ("item", 0)
                env[t.elts[1].id] = ("item", 1)
            else:
                raise Unsupported("target of the call in symmetric_difference: %s" % _dump(t))
        elif isinstance(s, ast.Return) and s.value is not None:
            ret = s.value
            break
        else:
            raise Unsupported("symmetric_difference: statement %s" % _dump(s))
    if ret is None or info is None:
        raise Unsupported("symmetric_difference: no call / no return")

    def leaf(e):
        if isinstance(e, ast.Name) and isinstance(env.get(e.id), tuple):
            return ("fp", "fn")[env[e.id][1]]
        if isinstance(e, ast.Subscript) and isinstance(e.value, ast.Name) and env.get(e.value.id) == "pair":
            ix = e.slice
            if isinstance(ix, ast.Constant) and ix.value in (0, 1):
                return ("fp", "fn")[ix.value]
        return None
    text = _arith(ret, leaf, "Int")
    in_order = _is_name(info.get(fpfn_params[0]), ps[0]) and _is_name(info.get(fpfn_params[1]), ps[1])
    swapped = _is_name(info.get(fpfn_params[0]), ps[1]) and _is_name(info.get(fpfn_params[1]), ps[0])
    if not (in_order or swapped):
        raise Unsupported("symmetric_difference does not hand its two trees to false_positives_and_negatives")
    flag = _is_name(info.get("is_bipartitions_updated"), "is_bipartitions_updated")
    return ["/-- `symmetric_difference`: what is returned, as a function of the pair `false_positives_and_negatives` gave -/",
            "def rfOf (fp fn : Int) : Int := %s" % text,
            "/-- the two trees are handed on in the order received; the `is_bipartitions_updated` flag is handed on -/",
            "def rfArgsInOrder : Bool := %s" % _bool(in_order),
            "def rfPassesFlag : Bool := %s" % _bool(flag), ""]


# ------------------------------------------------------------------ K6: re-encoding protocol and namespace check
def _prep_and_ns(fn, a, b, flag):
    """symbolic evaluation of the statements that precede the computation: returns (nsRefuses: {same: bool},
    encodes: {(updated, noneA, noneB): (encA, encB)}, rest of the body).  The protocol statements are the leading `if`s whose
    tests mention only the namespaces, the flag and `X.bipartition_encoding is None`."""
    body = _body(fn)

    def is_protocol_test(t):
        for n in ast.walk(t):
            if isinstance(n, ast.Name) and n.id not in (a, b, flag):
                return False
            if isinstance(n, ast.Attribute) and n.attr not in ("taxon_namespace", "bipartition_encoding"):
                return False
            if isinstance(n, ast.Call):
                return False
        return True
    lead, rest = [], []
    for i, s in enumerate(body):
        if isinstance(s, ast.If) and is_protocol_test(s.test):
            lead.append(s)
        elif isinstance(s, ast.Assign) and isinstance(s.value, (ast.List, ast.Dict)) and not (s.value.elts if isinstance(s.value, ast.List) else s.value.keys):
            rest.append(s)        # `missing = []`, `length_diffs = []`: harmless initialisations may precede the protocol
        else:
            rest += body[i:]
            break

    class Refused(Exception):
        pass

    def cond(t, sc):
        if isinstance(t, ast.UnaryOp) and isinstance(t.op, ast.Not):
            return not cond(t.operand, sc)
        if isinstance(t, ast.BoolOp):
            vals = [cond(v, sc) for v in t.values]
            return all(vals) if isinstance(t.op, ast.And) else any(vals)
        if _is_name(t, flag):
            return sc["updated"]
        if isinstance(t, ast.Compare) and len(t.ops) == 1:
            l, r, op = t.left, t.comparators[0], t.ops[0]
            if isinstance(op, (ast.Is, ast.IsNot)):
                x, y = _attr_of(l, "taxon_namespace"), _attr_of(r, "taxon_namespace")
                if x is not None and y is not None and {x, y} == {a, b}:
                    return sc["same"] if isinstance(op, ast.Is) else not sc["same"]
                x = _attr_of(l, "bipartition_encoding")
                if x in (a, b) and isinstance(r, ast.Constant) and r.value is None:
                    isnone = sc["noneA"] if x == a else sc["noneB"]
                    return isnone if isinstance(op, ast.Is) else not isnone
                if _is_name(l, flag) and isinstance(r, ast.Constant) and isinstance(r.value, bool):
                    v = sc["updated"] is r.value
                    return v if isinstance(op, ast.Is) else not v
        raise Unsupported("%s: protocol test %s" % (fn.name, _dump(t)))

    def run(stmts, sc):
        for s in stmts:
            if isinstance(s, ast.If):
                run(s.body if cond(s.test, sc) else s.orelse, sc)
            elif isinstance(s, ast.Raise):
                raise Refused()
            elif isinstance(s, ast.Pass):
                pass
            elif isinstance(s, ast.Expr) and isinstance(s.value, ast.Call) and not s.value.args and not s.value.keywords \
                    and _attr_of(s.value.func, "encode_bipartitions") in (a, b):
                x = _attr_of(s.value.func, "encode_bipartitions")
                sc["encA" if x == a else "encB"] = True
                sc["noneA" if x == a else "noneB"] = False
            else:
                raise Unsupported("%s: protocol statement %s" % (fn.name, _dump(s)))
    ns = {}
    enc = {}
    for same in (True, False):
        outcomes = set()
        for upd, na, nb in itertools.product((False, True), repeat=3):
            sc = {"same": same, "updated": upd, "noneA": na, "noneB": nb, "encA": False, "encB": False}
            try:
                run(lead, sc)
                outcomes.add(False)
                if same:
                    enc[(upd, na, nb)] = (sc["encA"], sc["encB"])
            except Refused:
                outcomes.add(True)
        if len(outcomes) != 1:
            raise Unsupported("%s: whether it refuses depends on more than the namespace identity" % fn.name)
        ns[same] = outcomes.pop()
    if not enc:
        enc = None
    else:
        for (upd, na, nb), (ea, eb) in enc.items():
            if enc[(upd, na, not nb)][0] != ea or enc[(upd, not na, nb)][1] != eb:
                raise Unsupported("%s: whether one tree is re-encoded depends on the other tree's state" % fn.name)
    return ns, enc, rest


def _emit_prep(tag, ns, enc):
    out = ["/-- `%s`: refuses (raises) as a function of `tree1.taxon_namespace is tree2.taxon_namespace` -/" % tag,
           "def nsRefuses_%s (same : Bool) : Bool := match same with | true => %s | false => %s" % (tag, _bool(ns[True]), _bool(ns[False]))]
    for side, ix in (("A", 0), ("B", 1)):
        rows = []
        for upd in (False, True):
            for none in (False, True):
                key = (upd, none, False) if ix == 0 else (upd, False, none)
                v = enc[key][ix] if enc is not None else False
                rows.append("  | %s, %s => %s" % (_bool(upd), _bool(none), _bool(v)))
        out += ["/-- `%s`: is the %s tree (re-)encoded, as a function of (is_bipartitions_updated, its bipartition_encoding is None) -/" % (
            tag, "first" if ix == 0 else "second"),
                "def prep%s_%s (updated encNone : Bool) : Bool :=\n  match updated, encNone with\n%s" % (side, tag, "\n".join(rows))]
    return out + [""]


# ------------------------------------------------------------------ K2: false_positives_and_negatives
def k_fpfn(mod):
    fn = find_function(mod, "false_positives_and_negatives")
    ps = _params(fn)
    ref, cmp_, flag = ps[0], ps[1], "is_bipartitions_updated"
    if flag not in ps:
        raise Unsupported("false_positives_and_negatives has no is_bipartitions_updated parameter")
    ns, enc, rest = _prep_and_ns(fn, ref, cmp_, flag)
    env = {}

    def val(e):
        if isinstance(e, ast.Name) and e.id in env:
            return env[e.id]
        if isinstance(e, ast.Call) and _is_name(e.func) and e.func.id in ("set", "frozenset") and len(e.args) == 1 and not e.keywords:
            x = _attr_of(e.args[0], "bipartition_encoding")
            if x in (ref, cmp_):
                return ("S", "ref" if x == ref else "cmp")
        if isinstance(e, ast.Call) and isinstance(e.func, ast.Attribute) and e.func.attr == "difference" and len(e.args) == 1 and not e.keywords:
            return ("D", val(e.func.value), val(e.args[0]))
        if isinstance(e, ast.BinOp) and isinstance(e.op, ast.Sub):
            return ("D", val(e.left), val(e.right))
        if isinstance(e, ast.Call) and _is_name(e.func, "len") and len(e.args) == 1 and not e.keywords:
            return ("L", val(e.args[0]))
        raise Unsupported("false_positives_and_negatives: expression %s" % _dump(e))
    ret = None
    for s in rest:
        if isinstance(s, ast.Assign) and len(s.targets) == 1 and isinstance(s.targets[0], ast.Name):
            env[s.targets[0].id] = val(s.value)
        elif isinstance(s, ast.Return) and isinstance(s.value, (ast.Tuple, ast.List)) and len(s.value.elts) == 2:
            ret = [val(x) for x in s.value.elts]
            break
        else:
            raise Unsupported("false_positives_and_negatives: statement %s" % _dump(s))
    if ret is None:
        raise Unsupported("false_positives_and_negatives: no return of a pair")

    def lean(v):
        if v[0] == "L" and v[1][0] == "D" and v[1][1][0] == "S" and v[1][2][0] == "S":
            return "(kdiff %s %s).length" % (v[1][1][1], v[1][2][1])
        if v[0] == "L" and v[1][0] == "S":
            return "(kdedup %s).length" % v[1][1]
        raise Unsupported("false_positives_and_negatives returns something that is not the size of a set difference")
    out = ["/-- `false_positives_and_negatives(reference, comparison)`: the returned pair -/",
           "def fpfnK (ref cmp : List Int) : Nat × Nat := (%s, %s)" % (lean(ret[0]), lean(ret[1])), ""]
    return out + _emit_prep("fpfn", ns, enc)


# ------------------------------------------------------------------ K3: find_missing_bipartitions
def k_missing(mod):
    fn = find_function(mod, "find_missing_bipartitions")
    ps = _params(fn)
    ref, cmp_, flag = ps[0], ps[1], "is_bipartitions_updated"
    ns, enc, rest = _prep_and_ns(fn, ref, cmp_, flag)
    acc, walked, test, keep_when = None, None, None, None
    for s in rest:
        if isinstance(s, ast.Assign) and len(s.targets) == 1 and _is_name(s.targets[0]) and isinstance(s.value, ast.List) and not s.value.elts:
            acc = s.targets[0].id
        elif isinstance(s, ast.For) and _is_name(s.target) and not s.orelse and walked is None:
            var = s.target.id
            x = _attr_of(s.iter, "bipartition_encoding")
            if x not in (ref, cmp_):
                raise Unsupported("find_missing_bipartitions walks %s" % _dump(s.iter))
            walked = "ref" if x == ref else "cmp"
            if len(s.body) != 1 or not isinstance(s.body[0], ast.If):
                raise Unsupported("find_missing_bipartitions: loop body %s" % _dump(s.body[0]))
            iff = s.body[0]
            t = iff.test
            neg = False
            while isinstance(t, ast.UnaryOp) and isinstance(t.op, ast.Not):
                neg, t = not neg, t.operand
            if not (isinstance(t, ast.Compare) and len(t.ops) == 1 and isinstance(t.ops[0], (ast.In, ast.NotIn)) and _is_name(t.left, var)):
                raise Unsupported("find_missing_bipartitions: test %s" % _dump(t))
            y = _attr_of(t.comparators[0], "bipartition_encoding")
            if y not in (ref, cmp_):
                raise Unsupported("find_missing_bipartitions: membership in %s" % _dump(t.comparators[0]))
            test = "ref" if y == ref else "cmp"
            member_true = isinstance(t.ops[0], ast.In) != neg       # test is True exactly when the bipartition IS a member

            def appends(stmts):
                hit = False
                for q in stmts:
                    if isinstance(q, ast.Pass):
                        continue
                    if isinstance(q, ast.Expr) and isinstance(q.value, ast.Call) and isinstance(q.value.func, ast.Attribute) \
                            and q.value.func.attr == "append" and _is_name(q.value.func.value, acc) and len(q.value.args) == 1 \
                            and _is_name(q.value.args[0], var):
                        if hit:
                            raise Unsupported("find_missing_bipartitions appends twice")
                        hit = True
                        continue
                    raise Unsupported("find_missing_bipartitions: branch statement %s" % _dump(q))
                return hit
            in_body, in_else = appends(iff.body), appends(iff.orelse)
            if in_body == in_else:
                raise Unsupported("find_missing_bipartitions appends in both / neither branch")
            keep_when = member_true if in_body else not member_true     # kept when membership == keep_when
        elif isinstance(s, ast.Return) and _is_name(s.value, acc) and walked is not None:
            break
        else:
            raise Unsupported("find_missing_bipartitions: statement %s" % _dump(s))
    if walked is None or acc is None:
        raise Unsupported("find_missing_bipartitions: no loop")
    pred = "%s.contains s" % test if keep_when else "!%s.contains s" % test
    out = ["/-- `find_missing_bipartitions(reference, comparison)`: the list built by the loop -/",
           "def missingK (ref cmp : List Int) : List Int := %s.filter (fun s => %s)" % (walked, pred), ""]
    return out + _emit_prep("missing", ns, enc)


# ------------------------------------------------------------------ K4: the dist_fn lambdas
def _dist_fn(mod, name):
    fn = find_function(mod, name)
    env = {}
    call = None
    for s in _body(fn):
        if isinstance(s, ast.Assign) and len(s.targets) == 1 and _is_name(s.targets[0]) and isinstance(s.value, ast.Lambda):
            env[s.targets[0].id] = s.value
        elif isinstance(s, ast.Return) and isinstance(s.value, ast.Call) and _callee_name(s.value) == "_bipartition_difference":
            call = s.value
            break
        else:
            raise Unsupported("%s: statement %s" % (name, _dump(s)))
    if call is None:
        raise Unsupported("%s does not return _bipartition_difference(...)" % name)
    bd = find_function(mod, "_bipartition_difference")
    args = _call_args(call, _params(bd))
    ps = _params(fn)
    if not (_is_name(args.get("tree1"), ps[0]) and _is_name(args.get("tree2"), ps[1])):
        raise Unsupported("%s does not hand its two trees on in order" % name)
    for k in ("edge_weight_attr", "is_bipartitions_updated"):
        if not _is_name(args.get(k), k):
            raise Unsupported("%s does not hand %s on" % (name, k))
    df = args.get("dist_fn")
    if isinstance(df, ast.Name) and df.id in env:
        df = env[df.id]
    if not isinstance(df, ast.Lambda) or len(df.args.args) != 1:
        raise Unsupported("%s: dist_fn is not a one-argument lambda" % name)
    seq = df.args.args[0].arg
    e = df.body
    outer = False
    if isinstance(e, ast.Call) and not e.keywords and len(e.args) == 1 and (
            (isinstance(e.func, ast.Attribute) and e.func.attr == "sqrt" and _is_name(e.func.value, "math")) or _is_name(e.func, "sqrt")):
        outer, e = True, e.args[0]
    if not (isinstance(e, ast.Call) and _is_name(e.func, "sum") and len(e.args) == 1 and not e.keywords
            and isinstance(e.args[0], (ast.ListComp, ast.GeneratorExp))):
        raise Unsupported("%s: dist_fn is not [sqrt of] a sum over a comprehension: %s" % (name, _dump(e)))
    comp = e.args[0]
    if len(comp.generators) != 1 or comp.generators[0].ifs or not _is_name(comp.generators[0].iter, seq):
        raise Unsupported("%s: comprehension %s" % (name, _dump(comp)))
    tgt = comp.generators[0].target
    if isinstance(tgt, ast.Name):
        def leaf(x):
            if isinstance(x, ast.Subscript) and _is_name(x.value, tgt.id) and isinstance(x.slice, ast.Constant) and x.slice.value in (0, 1):
                return ("a", "b")[x.slice.value]
            return None
    elif isinstance(tgt, (ast.Tuple, ast.List)) and len(tgt.elts) == 2 and all(isinstance(x, ast.Name) for x in tgt.elts):
        def leaf(x):
            if isinstance(x, ast.Name) and x.id in (tgt.elts[0].id, tgt.elts[1].id):
                return "a" if x.id == tgt.elts[0].id else "b"
            return None
    else:
        raise Unsupported("%s: comprehension target %s" % (name, _dump(tgt)))
    return _arith(comp.elt, leaf, "Rat"), outer


def k_distfns(mod):
    bd = find_function(mod, "_bipartition_difference")
    # _bipartition_difference must be: length_diffs = _get_length_diffs(tree1, tree2, ...); return dist_fn(length_diffs)
    body = _body(bd)
    ok = False
    if len(body) == 2 and isinstance(body[0], ast.Assign) and len(body[0].targets) == 1 and _is_name(body[0].targets[0]) \
            and isinstance(body[0].value, ast.Call) and _callee_name(body[0].value) == "_get_length_diffs" \
            and isinstance(body[1], ast.Return) and isinstance(body[1].value, ast.Call) and _is_name(body[1].value.func, "dist_fn") \
            and len(body[1].value.args) == 1 and _is_name(body[1].value.args[0], body[0].targets[0].id):
        args = _call_args(body[0].value, _params(find_function(mod, "_get_length_diffs")))
        ok = _is_name(args.get("tree1"), "tree1") and _is_name(args.get("tree2"), "tree2") \
            and all(_is_name(args.get(k), k) for k in ("edge_weight_attr", "value_type", "is_bipartitions_updated")) \
            and "bipartition_length_diff_map" not in args
    elif len(body) == 1 and isinstance(body[0], ast.Return) and isinstance(body[0].value, ast.Call) and _is_name(body[0].value.func, "dist_fn") \
            and len(body[0].value.args) == 1 and isinstance(body[0].value.args[0], ast.Call) \
            and _callee_name(body[0].value.args[0]) == "_get_length_diffs":
        args = _call_args(body[0].value.args[0], _params(find_function(mod, "_get_length_diffs")))
        ok = _is_name(args.get("tree1"), "tree1") and _is_name(args.get("tree2"), "tree2") \
            and all(_is_name(args.get(k), k) for k in ("edge_weight_attr", "value_type", "is_bipartitions_updated")) \
            and "bipartition_length_diff_map" not in args
    if not ok:
        raise Unsupported("_bipartition_difference is not dist_fn(_get_length_diffs(tree1, tree2, <flags handed on>))")
    w, wo = _dist_fn(mod, "weighted_robinson_foulds_distance")
    e, eo = _dist_fn(mod, "euclidean_distance")
    return ["/-- `weighted_robinson_foulds_distance`: `dist_fn` = [sqrt of] the sum over the (length1, length2) pairs of this term -/",
            "def wrfTerm (a b : Rat) : Rat := %s" % w,
            "def wrfOuterSqrt : Bool := %s" % _bool(wo),
            "/-- `euclidean_distance`: likewise -/",
            "def euclidTerm (a b : Rat) : Rat := %s" % e,
            "def euclidOuterSqrt : Bool := %s" % _bool(eo), ""]


# ------------------------------------------------------------------ K5: _get_length_diffs
class _KeyErr(Exception):
    pass


class _Refuse(Exception):
    pass


class _Crash(Exception):
    pass


def _loop_tables(fn):
    ps = _params(fn)
    t1, t2 = ps[0], ps[1]
    for need in ("edge_weight_attr", "value_type", "is_bipartitions_updated"):
        if need not in ps:
            raise Unsupported("_get_length_diffs has no %s parameter" % need)
    ns, enc, rest = _prep_and_ns(fn, t1, t2, "is_bipartitions_updated")
    maps = {}          # local name -> (tree 1|2, is a private copy)
    loops = []
    lists, dicts = set(), set()
    for s in rest:
        if isinstance(s, ast.Assign) and len(s.targets) == 1 and _is_name(s.targets[0]):
            v = s.value
            if isinstance(v, ast.List) and not v.elts:
                lists.add(s.targets[0].id)
                continue
            if isinstance(v, ast.Dict) and not v.keys:
                dicts.add(s.targets[0].id)
                continue
            copy = False
            if isinstance(v, ast.Call) and _is_name(v.func, "dict") and len(v.args) == 1 and not v.keywords:
                copy, v = True, v.args[0]
            x = _attr_of(v, "bipartition_edge_map")
            if x in (t1, t2) and not loops:
                maps[s.targets[0].id] = (1 if x == t1 else 2, copy)
                continue
            raise Unsupported("_get_length_diffs: assignment %s" % _dump(s))
        if isinstance(s, ast.For) and _is_name(s.target) and _is_name(s.iter) and s.iter.id in maps and not s.orelse:
            loops.append(s)
            continue
        if isinstance(s, ast.If) and _is_name(s.test, "bipartition_length_diff_map") and len(loops) == 2:
            continue          # which of the two result shapes is returned
        if isinstance(s, ast.Return) and len(loops) == 2:
            continue
        raise Unsupported("_get_length_diffs: statement %s" % _dump(s))
    if len(loops) != 2:
        raise Unsupported("_get_length_diffs does not consist of two loops over the split -> edge maps")
    first_map, second_map = loops[0].iter.id, loops[1].iter.id
    if maps[first_map][0] != 1 or maps[second_map] != (2, True):
        raise Unsupported("_get_length_diffs: the first loop must walk tree1's map, the second a private copy of tree2's map")
    if len(lists) != 1:
        raise Unsupported("_get_length_diffs: expected one result list")
    acc = next(iter(lists))

    def run_body(loop, iter_k, other_map, other_k, sc, must_pop):
        var = loop.target.id
        env = {}
        result = []
        popped = [False]

        def ev(e):
            if isinstance(e, ast.Name):
                if e.id in env:
                    return env[e.id]
                raise Unsupported("_get_length_diffs: name %s read before assignment in a loop body" % e.id)
            if isinstance(e, ast.Constant):
                if e.value is None:
                    return ("none",)
                if isinstance(e.value, (int, float)) and not isinstance(e.value, bool) and e.value == 0:
                    return ("zero",)
                raise Unsupported("_get_length_diffs: constant %r" % (e.value,))
            if isinstance(e, ast.Subscript) and _is_name(e.value) and _is_name(e.slice, var):
                if e.value.id == loop.iter.id:
                    return ("edge", iter_k)
                if e.value.id == other_map:
                    if sc["found"]:
                        return ("edge", other_k)
                    raise _KeyErr()
            if isinstance(e, ast.Call) and not e.keywords:
                f = e.func
                if _is_name(f, "getattr") and len(e.args) == 2 and _is_name(e.args[1], "edge_weight_attr"):
                    x = ev(e.args[0])
                    if x[0] != "edge":
                        raise _Crash()
                    return ("none",) if sc["none%d" % x[1]] else ("len", x[1])
                if _is_name(f, "value_type") and len(e.args) == 1:
                    x = ev(e.args[0])
                    if x[0] == "none":
                        raise _Crash()          # float(None)
                    if x[0] not in ("len", "zero"):
                        raise Unsupported("_get_length_diffs: value_type applied to %r" % (x,))
                    return x
                if isinstance(f, ast.Attribute) and _is_name(f.value, other_map) and len(e.args) == 1 and _is_name(e.args[0], var):
                    if f.attr == "pop":
                        if sc["found"]:
                            popped[0] = True
                            return ("edge", other_k)
                        raise _KeyErr()
                    if f.attr == "get":
                        return ("edge", other_k) if sc["found"] else ("none",)
            raise Unsupported("_get_length_diffs: expression %s" % _dump(e))

        def cond(t):
            if isinstance(t, ast.UnaryOp) and isinstance(t.op, ast.Not):
                return not cond(t.operand)
            if isinstance(t, ast.BoolOp):
                if isinstance(t.op, ast.And):
                    for v in t.values:
                        if not cond(v):
                            return False
                    return True
                for v in t.values:
                    if cond(v):
                        return True
                return False
            if isinstance(t, ast.Compare) and len(t.ops) == 1:
                l, r, op = t.left, t.comparators[0], t.ops[0]
                if isinstance(op, (ast.Is, ast.IsNot)) and isinstance(r, ast.Constant) and r.value is None:
                    if isinstance(l, ast.Attribute) and l.attr == "tail_node":
                        x = ev(l.value)
                        if x[0] != "edge":
                            raise _Crash()
                        v = sc["root%d" % x[1]]
                    else:
                        v = ev(l)[0] == "none"
                    return v if isinstance(op, ast.Is) else not v
                if isinstance(op, (ast.In, ast.NotIn)) and _is_name(l, var) and _is_name(r):
                    if r.id == other_map:
                        v = sc["found"]
                    elif r.id == loop.iter.id:
                        v = True
                    else:
                        raise Unsupported("_get_length_diffs: membership in %s" % r.id)
                    return v if isinstance(op, ast.In) else not v
            raise Unsupported("_get_length_diffs: test %s" % _dump(t))

        def run(stmts):
            for s in stmts:
                if isinstance(s, ast.Pass):
                    continue
                if isinstance(s, ast.Expr) and isinstance(s.value, ast.Constant):
                    continue
                if isinstance(s, ast.Assign) and len(s.targets) == 1:
                    tg = s.targets[0]
                    if isinstance(tg, ast.Name):
                        env[tg.id] = ev(s.value)
                        continue
                    if isinstance(tg, ast.Subscript) and _is_name(tg.value) and tg.value.id in dicts and _is_name(tg.slice, var):
                        continue          # the optional per-bipartition copy of the result
                if isinstance(s, ast.If):
                    run(s.body if cond(s.test) else s.orelse)
                    continue
                if isinstance(s, ast.Raise):
                    raise _Refuse()
                if isinstance(s, ast.Try) and not s.finalbody and not s.orelse and len(s.handlers) == 1 \
                        and _is_name(s.handlers[0].type, "KeyError"):
                    try:
                        run(s.body)
                    except _KeyErr:
                        run(s.handlers[0].body)
                    continue
                if isinstance(s, ast.Expr) and isinstance(s.value, ast.Call) and isinstance(s.value.func, ast.Attribute) \
                        and s.value.func.attr == "append" and _is_name(s.value.func.value, acc) and len(s.value.args) == 1 \
                        and isinstance(s.value.args[0], ast.Tuple) and len(s.value.args[0].elts) == 2:
                    result.append(tuple(ev(x) for x in s.value.args[0].elts))
                    continue
                raise Unsupported("_get_length_diffs: loop statement %s" % _dump(s))
        try:
            run(loop.body)
        except _Refuse:
            return "refuse"
        except _Crash:
            return "crash"
        except _KeyErr:
            return "crash"          # a KeyError nobody catches
        if len(result) != 1:
            raise Unsupported("_get_length_diffs: a loop iteration appends %d results" % len(result))
        if must_pop and sc["found"] and not popped[0]:
            raise Unsupported("_get_length_diffs: the first loop does not remove a shared split from the copy of the other map")
        out = []
        for v in result[0]:
            if v[0] == "len":
                out.append("first" if v[1] == 1 else "second")
            elif v[0] == "zero":
                out.append("zero")
            else:
                return "crash"       # None handed to the distance function
        return tuple(out)

    def lean_out(o):
        return ".%s" % o if isinstance(o, str) else ".pair .%s .%s" % o
    rows1 = []
    for n1, r1, fd, n2, r2 in itertools.product((False, True), repeat=5):
        sc = {"none1": n1, "root1": r1, "found": fd, "none2": n2, "root2": r2}
        o = run_body(loops[0], 1, second_map, 2, sc, True)
        rows1.append("  | %s, %s, %s, %s, %s => %s" % (_bool(n1), _bool(r1), _bool(fd), _bool(n2), _bool(r2), lean_out(o)))
    # second loop: walks what is left of the copy of tree2's map = the splits tree1 lacks (the first loop removed the shared ones)
    rows2 = []
    for n2, r2 in itertools.product((False, True), repeat=2):
        sc = {"none1": False, "root1": False, "found": False, "none2": n2, "root2": r2}
        o = run_body(loops[1], 2, first_map, 1, sc, False)
        rows2.append("  | %s, %s => %s" % (_bool(n2), _bool(r2), lean_out(o)))
    out = ["/-- where a value of a (length1, length2) pair comes from: the first tree's edge, the second tree's edge, or the constant 0 -/",
           "inductive Src where | first | second | zero deriving DecidableEq, Repr",
           "/-- what one loop iteration does: refuse (a deliberate `raise`), crash (an exception nobody raised on purpose), or append a pair -/",
           "inductive Out where | refuse | crash | pair (a b : Src) deriving DecidableEq, Repr",
           "/-- `_get_length_diffs`, first loop (over tree1's split -> edge map), one iteration, as a function of: tree1's length is None,",
           "    tree1's edge is the root edge, the split is in tree2's map, tree2's length is None, tree2's edge is the root edge -/",
           "def loop1 (none1 root1 found none2 root2 : Bool) : Out :=\n  match none1, root1, found, none2, root2 with\n" + "\n".join(rows1),
           "/-- second loop (over the splits only tree2 has): tree2's length is None, tree2's edge is the root edge -/",
           "def loop2 (none2 root2 : Bool) : Out :=\n  match none2, root2 with\n" + "\n".join(rows2), ""]
    return out + _emit_prep("diffs", ns, enc)


# ------------------------------------------------------------------ aliases
def _alias(fn, self_first):
    """a delegating function: its last statement is `return <callee>(args)`; everything before is a deprecation warning / import"""
    body = _body(fn)
    if not body or not isinstance(body[-1], ast.Return) or not isinstance(body[-1].value, ast.Call):
        raise Unsupported("%s does not end in `return f(...)`" % fn.name)
    for s in body[:-1]:
        if isinstance(s, (ast.ImportFrom, ast.Import)):
            continue
        if isinstance(s, ast.Expr) and isinstance(s.value, ast.Call) and isinstance(s.value.func, ast.Attribute) \
                and s.value.func.attr.endswith("deprecation_warning"):
            continue
        raise Unsupported("%s: statement %s before the delegation" % (fn.name, _dump(s)))
    call = body[-1].value
    ps = _params(fn)
    pos = []
    for a in call.args:
        if not isinstance(a, ast.Name) or a.id not in ps:
            raise Unsupported("%s: argument %s" % (fn.name, _dump(a)))
        pos.append(ps.index(a.id))
    kws = []
    for k in call.keywords:
        if k.arg is None or not isinstance(k.value, ast.Name) or k.value.id not in ps:
            raise Unsupported("%s: keyword argument %s" % (fn.name, _dump(k)))
        kws.append((k.arg, ps.index(k.value.id)))
    return _callee_name(call), pos, sorted(kws)


def k_aliases(mod, tmod):
    rows = []

    def row(name, fn, own_trees):
        callee, pos, kws = _alias(fn, False)
        callee_ps = _params(find_function(mod, callee))
        ps = _params(fn)
        binds = dict([(callee_ps[i], ps[j]) for i, j in enumerate(pos)] + [(k, ps[j]) for k, j in kws])
        got = (binds.pop(callee_ps[0], None), binds.pop(callee_ps[1], None))
        if got == own_trees:
            order = "inOrder"
        elif got == (own_trees[1], own_trees[0]):
            order = "swapped"
        else:
            raise Unsupported("%s does not hand its two trees to %s" % (name, callee))
        rows.append((name, callee, order, sorted(binds.items())))
    for q in ("unweighted_robinson_foulds_distance", "robinson_foulds_distance"):
        fn = find_function(mod, q)
        row(q, fn, tuple(_params(fn)[:2]))
    for q in ("symmetric_difference", "false_positives_and_negatives", "robinson_foulds_distance", "euclidean_distance"):
        fn = find_function(tmod, "Tree." + q)
        row("Tree." + q, fn, tuple(_params(fn)[:2]))
    lines = []
    for q, callee, order, binds in rows:
        lines.append('  ("%s", "%s", .%s, [%s])' % (q, callee, order, ", ".join('("%s", "%s")' % b for b in binds)))
    return ["/-- how a delegating entry point hands its two trees on -/",
            "inductive ArgOrder where | inOrder | swapped deriving DecidableEq, Repr",
            "/-- the delegating entry points: (entry point, the treecompare function it returns the value of, order of the two trees,",
            "    [(further callee parameter, own parameter handed on)]) -/",
            "def aliases : List (String × String × ArgOrder × List (String × String)) := [\n%s]" % ",\n".join(lines), ""]


# ------------------------------------------------------------------ the file
HEADER = """/-! Kernels of `dendropy/calculate/treecompare.py`, regenerated from the current source (core Lean only, no imports). -/
namespace DendroModel.C04Kernels

/-- Python `abs` on exact numbers -/
def kabs (x : Rat) : Rat := if x < 0 then -x else x
/-- Python `pow(x, n)` / `x ** n` for a literal natural `n` -/
def kpow (x : Rat) : Nat → Rat
  | 0 => 1
  | n + 1 => kpow x n * x
/-- members of `set(l)` listed once -/
def kdedup : List Int → List Int
  | [] => []
  | x :: xs => if xs.contains x then kdedup xs else x :: kdedup xs
/-- members of `set(a).difference(set(b))` / `set(a) - set(b)` listed once -/
def kdiff (a b : List Int) : List Int := (kdedup a).filter (fun s => !b.contains s)
"""


def generate(repo):
    path = os.path.join(repo, "src/dendropy/calculate/treecompare.py")
    tpath = os.path.join(repo, "src/dendropy/datamodel/treemodel/_tree.py")
    mod = ast.parse(open(path).read())
    tmod = ast.parse(open(tpath).read())
    out = [HEADER]
    out += k_symdiff(mod)
    out += k_fpfn(mod)
    out += k_missing(mod)
    out += k_distfns(mod)
    out += _loop_tables(find_function(mod, "_get_length_diffs"))
    out += k_aliases(mod, tmod)
    out.append("end DendroModel.C04Kernels")
    return "\n".join(out) + "\n"
