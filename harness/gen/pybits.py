"""Gen/PyBits.lean: the closed-form integer functions of the bipartition machinery, translated
statement by statement from the current source (Python unbounded-int semantics on Lean Int)."""
import os
from extract import translate_function

NAME = "PyBits"


def generate(repo):
    bip = os.path.join(repo, "src/dendropy/datamodel/treemodel/_bipartition.py")
    bitp = os.path.join(repo, "src/dendropy/utility/bitprocessing.py")
    out = ["import DendroModel.Basic.PyInt", "namespace DendroModel.PyBits", "open DendroModel", ""]
    out.append(translate_function(bip, "Bipartition.normalize_bitmask"))
    out.append(translate_function(bip, "Bipartition.is_trivial_bitmask", "Bool"))
    out.append(translate_function(bip, "Bipartition.is_compatible_bitmasks", "Bool"))
    out.append(translate_function(bitp, "least_significant_set_bit"))
    out.append("end DendroModel.PyBits")
    return "\n".join(out) + "\n"
