"""Gen/C16Alphabets.lean: symbol -> fundamental-state-index sets of the fixed state alphabets, read off the
*literals* in the current `datamodel/charstatemodel.py` (constructor arguments of the DNA/RNA/nucleotide/protein
alphabet classes and of `new_standard_state_alphabet`).

Only the tables are extracted.  The indexing rules applied to them here are a re-statement of
`StateAlphabet.__init__` / `compile_symbol_lookup_mappings` / `StateIdentity.fundamental_indexes(_with_gaps_as_missing)`
(fundamental states are numbered in the order given, the gap state is the next fundamental state, the
no-data state maps to every fundamental state including the gap, gaps-as-missing drops the gap state and
maps the gap itself to the no-data set, case-insensitive alphabets get upper/lower variants of fundamental and
ambiguous symbols but not of explicit synonyms); that code is tied to the model by the C16 correspondence
(every cell of every generated matrix goes through the real `taxon_state_sets_map`), not by this extraction."""
import ast
import os

from extract import Unsupported, find_function

NAME = "C16Alphabets"

CLASSES = [("dna", "DnaStateAlphabet"), ("rna", "RnaStateAlphabet"),
           ("nucleotide", "NucleotideStateAlphabet"), ("protein", "ProteinStateAlphabet")]


def _lit(node, what):
    try:
        return ast.literal_eval(node)
    except Exception:
        raise Unsupported("%s is not a literal: %s" % (what, ast.dump(node)[:80]))


def _alphabet_args(fn, what, call_name):
    """literal local assignments of `fn` + keywords of the StateAlphabet constructor call inside it"""
    env = {}
    names = [a.arg for a in fn.args.args]
    for nm, dv in zip(names[len(names) - len(fn.args.defaults):], fn.args.defaults):
        try:
            env[nm] = ast.literal_eval(dv)
        except Exception:
            pass
    for st in fn.body:
        if isinstance(st, ast.Assign) and len(st.targets) == 1 and isinstance(st.targets[0], ast.Name):
            try:
                env[st.targets[0].id] = ast.literal_eval(st.value)
            except Exception:
                pass
        elif isinstance(st, ast.If):
            # `if fundamental_state_symbols is None: fundamental_state_symbols = "0123456789"` (default of the function)
            for s2 in st.body:
                if isinstance(s2, ast.Assign) and len(s2.targets) == 1 and isinstance(s2.targets[0], ast.Name):
                    try:
                        env[s2.targets[0].id] = ast.literal_eval(s2.value)
                    except Exception:
                        pass
    call = None
    for n in ast.walk(fn):
        if isinstance(n, ast.Call):
            f = n.func
            nm = (f.attr if isinstance(f, ast.Attribute) else getattr(f, "id", None))
            owner = getattr(getattr(f, "value", None), "id", None)
            if (call_name == "__init__" and nm == "__init__" and owner == "StateAlphabet") or \
               (call_name == "StateAlphabet" and nm == "StateAlphabet" and isinstance(f, ast.Name)):
                call = n
                break
    if call is None:
        raise Unsupported("%s: no StateAlphabet constructor call found" % what)
    kw = {}
    for k in call.keywords:
        if k.arg is None:
            raise Unsupported("%s: **kwargs in constructor call" % what)
        if isinstance(k.value, ast.Name):
            if k.value.id not in env:
                raise Unsupported("%s: %s=%s is not a literal" % (what, k.arg, k.value.id))
            kw[k.arg] = env[k.value.id]
        else:
            kw[k.arg] = _lit(k.value, "%s %s" % (what, k.arg))
    return kw


def _table(kw, what):
    fund = kw.get("fundamental_states")
    if not isinstance(fund, str) or not fund:
        raise Unsupported("%s: fundamental_states is not a non-empty string literal" % what)
    gap = kw.get("gap_symbol")
    nodata = kw.get("no_data_symbol")
    amb = kw.get("ambiguous_states") or ()
    if kw.get("polymorphic_states"):
        raise Unsupported("%s: polymorphic states are outside the supported subset" % what)
    syn = kw.get("symbol_synonyms") or {}
    cs = kw.get("case_sensitive", True)
    order = []   # (symbol, full mask, gaps-as-missing mask, gets case variants)
    index = {}
    for i, s in enumerate(fund):
        if s in index:
            raise Unsupported("%s: repeated fundamental symbol %r" % (what, s))
        index[s] = 1 << i
    k = len(fund)
    allfund = (1 << k) - 1
    gapbit = 0
    if gap:
        if len(gap) != 1 or gap in index:
            raise Unsupported("%s: bad gap symbol" % what)
        gapbit = 1 << k
    table = {}
    memtab = {}      # multi-state symbol -> member symbols exactly as the source lists them (not derived from the masks)

    def put(sym, full, miss):
        if len(sym) != 1 or ord(sym) > 126 or ord(sym) < 33:
            raise Unsupported("%s: symbol %r outside the supported subset" % (what, sym))
        if sym in table and table[sym] != (full, miss):
            raise Unsupported("%s: symbol %r defined twice" % (what, sym))
        table[sym] = (full, miss)

    def variants(sym):
        return {sym} if cs else {sym, sym.upper(), sym.lower()}

    for s in fund:
        for v in variants(s):
            put(v, index[s], index[s])
    if gap:
        # the gap is "a gap state" (replaced by the no-data set on request) only when a no-data state exists
        for v in variants(gap):
            put(v, gapbit, allfund if nodata else gapbit)
    if nodata:
        for v in variants(nodata):
            put(v, allfund | gapbit, allfund)
            memtab[v] = list(fund) + ([gap] if gap else [])      # member_states=self._fundamental_states (gap included)
    full_of = {s: index[s] for s in fund}
    if gap:
        full_of[gap] = gapbit
    for ent in amb:
        if not (isinstance(ent, (tuple, list)) and len(ent) == 2 and isinstance(ent[0], str) and isinstance(ent[1], str)):
            raise Unsupported("%s: ambiguous state entry %r" % (what, ent))
        sym, members = ent
        m = 0
        for c in members:
            c2 = c if c in full_of else (c.upper() if (not cs and c.upper() in full_of) else None)
            if c2 is None:
                raise Unsupported("%s: ambiguous state %r refers to unknown symbol %r" % (what, sym, c))
            m |= full_of[c2]
        for v in variants(sym):
            put(v, m, m & ~gapbit if nodata else m)
            memtab[v] = [c if c in full_of else c.upper() for c in members_of(ent)]
        full_of[sym] = m
    for s, ref in sorted(syn.items()):
        if ref not in table:
            raise Unsupported("%s: synonym %r of unknown symbol %r" % (what, s, ref))
        put(s, *table[ref])
        if ref in memtab:
            memtab[s] = list(memtab[ref])
    return table, memtab, list(fund) + ([gap] if gap else [])


def members_of(ent):
    return list(ent[1])


def generate(repo):
    path = os.path.join(repo, "src/dendropy/datamodel/charstatemodel.py")
    tree = ast.parse(open(path).read())
    out = ["namespace DendroModel.C16Alphabets", "",
           "/-- per alphabet: (symbol code point, `fundamental_indexes` as a bit mask, `fundamental_indexes_with_gaps_as_missing` as a bit mask) -/",
           "def alphabets : List (String × List (Nat × Nat × Nat)) := ["]
    rows = []
    for name, cls in CLASSES:
        fn = find_function(tree, cls + ".__init__")
        rows.append((name,) + _table(_alphabet_args(fn, cls, "__init__"), cls))
    fn = find_function(tree, "new_standard_state_alphabet")
    kw = _alphabet_args(fn, "new_standard_state_alphabet", "StateAlphabet")
    if "fundamental_states" not in kw:
        kw["fundamental_states"] = None
    # fundamental_states=fundamental_state_symbols whose default is set by the `if ... is None` branch
    rows.append(("standard",) + _table(kw, "new_standard_state_alphabet"))
    for i, (name, tab, _mem, _fo) in enumerate(rows):
        ents = ", ".join("(%d, %d, %d)" % (ord(s), tab[s][0], tab[s][1]) for s in sorted(tab))
        out.append('  ("%s", [%s])%s' % (name, ents, "," if i + 1 < len(rows) else ""))
    out.append("]")
    out.append("")
    out.append("/-- per alphabet: the fundamental symbols in index order (the gap state last), and for every multi-state symbol (ambiguity")
    out.append("    codes, the missing-data symbol, their case variants and synonyms) the member symbols as the source lists them -/")
    out.append("def members : List (String × List Nat × List (Nat × List Nat)) := [")
    for i, (name, tab, mem, fo) in enumerate(rows):
        ents = ", ".join("(%d, [%s])" % (ord(s), ", ".join(str(ord(c)) for c in mem[s])) for s in sorted(mem))
        out.append('  ("%s", [%s], [%s])%s' % (name, ", ".join(str(ord(c)) for c in fo), ents, "," if i + 1 < len(rows) else ""))
    out.append("]")
    out.append("")
    out.append("end DendroModel.C16Alphabets")
    return "\n".join(out) + "\n"
