"""Gen/C07Mid.lean: the closed-form kernels of midpoint and edge rooting, read off the current source of
`Tree.reroot_at_midpoint` and `Tree.reroot_at_edge` (src/dendropy/datamodel/treemodel/_tree.py):

  edgeLen        `_edge_len`: what an edge without a length counts as
  plen0          the half of the maximal patristic distance the walk starts with
  n1IsSecond     which of the two spanning nodes the walk starts from (the root-distance comparison)
  walkStep       one turn of the loop "going up ...": inside this edge (with the head-side length) / go on with the
                 remaining length / exactly at a node (the parent end or - the historical defect - the node itself)
  splitLens      the two edge lengths given to the inserted node and to the old head when the midpoint is inside an edge
  nodeReseedCollapse / edgeReseedCollapse / setsRooted   the literal flags of the two reseed_at calls, `is_rooted = True`
  rerootEdgeLens which of length1/length2 of reroot_at_edge goes to the inserted node's edge and which to the old head's

Exact arithmetic on `Frac` (floats are not modelled; the harness only generates dyadic lengths).  Straight-line temporaries
are inlined; comparisons may be written either way round and the if/elif/else branches of the loop may come in any order
(the bridge theorems in Props/C07.lean absorb that); anything else raises Unsupported."""
import ast
import os
from fractions import Fraction

from extract import Unsupported, find_function

NAME = "C07Mid"


def _d(n):
    return ast.dump(n)


def _is_none(n):
    return isinstance(n, ast.Constant) and n.value is None


def _strip(stmts):
    """drop docstrings / bare string expressions"""
    return [s for s in stmts if not (isinstance(s, ast.Expr) and isinstance(s.value, ast.Constant) and isinstance(s.value.value, str))]


def _const(v):
    f = Fraction(v)
    return "(⟨%d, %d⟩ : Frac)" % (f.numerator, f.denominator)


def _attr_chain(n):
    """`a.b.c` -> ['a', 'b', 'c'] or None"""
    out = []
    while isinstance(n, ast.Attribute):
        out.append(n.attr)
        n = n.value
    if isinstance(n, ast.Name):
        out.append(n.id)
        return list(reversed(out))
    return None


class Env(object):
    """maps Python sub-expressions (by ast.dump) and names to Lean Frac terms"""

    def __init__(self):
        self.names = {}
        self.exprs = {}

    def copy(self):
        e = Env()
        e.names = dict(self.names)
        e.exprs = dict(self.exprs)
        return e


def fexpr(e, env):
    """numeric expression over known names/sub-expressions -> Lean Frac term"""
    k = _d(e)
    if k in env.exprs:
        return env.exprs[k]
    if isinstance(e, ast.Name):
        if e.id in env.names:
            return env.names[e.id]
        raise Unsupported("unknown name %s in a length expression" % e.id)
    if isinstance(e, ast.Constant) and isinstance(e.value, (int, float)) and not isinstance(e.value, bool):
        return _const(e.value)
    if isinstance(e, ast.Call) and isinstance(e.func, ast.Name) and e.func.id == "float" and len(e.args) == 1 and not e.keywords:
        return fexpr(e.args[0], env)
    if isinstance(e, ast.UnaryOp) and isinstance(e.op, ast.USub):
        return "(Frac.neg %s)" % fexpr(e.operand, env)
    if isinstance(e, ast.BinOp):
        l, r = fexpr(e.left, env), fexpr(e.right, env)
        if isinstance(e.op, ast.Add):
            return "(%s + %s)" % (l, r)
        if isinstance(e.op, ast.Sub):
            return "(%s - %s)" % (l, r)
        if isinstance(e.op, ast.Mult):
            return "(%s * %s)" % (l, r)
        if isinstance(e.op, ast.Div):
            return "(Frac.div %s %s)" % (l, r)
    raise Unsupported("length expression outside the subset: %s" % _d(e)[:120])


def fcmp(e, env):
    """comparison of two length expressions -> Lean Bool term"""
    if isinstance(e, ast.UnaryOp) and isinstance(e.op, ast.Not):
        return "(!%s)" % fcmp(e.operand, env)
    if not (isinstance(e, ast.Compare) and len(e.ops) == 1):
        raise Unsupported("not a simple comparison: %s" % _d(e)[:120])
    a, b = fexpr(e.left, env), fexpr(e.comparators[0], env)
    op = e.ops[0]
    if isinstance(op, ast.Lt):
        return "(Frac.lt %s %s)" % (a, b)
    if isinstance(op, ast.Gt):
        return "(Frac.lt %s %s)" % (b, a)
    if isinstance(op, ast.LtE):
        return "(Frac.le %s %s)" % (a, b)
    if isinstance(op, ast.GtE):
        return "(Frac.le %s %s)" % (b, a)
    if isinstance(op, ast.Eq):
        return "(Frac.beq %s %s)" % (a, b)
    if isinstance(op, ast.NotEq):
        return "(!(Frac.beq %s %s))" % (a, b)
    raise Unsupported("comparison operator outside the subset: %s" % _d(e)[:120])


def _nested(fn, name):
    for s in fn.body:
        if isinstance(s, ast.FunctionDef) and s.name == name:
            return s
    raise Unsupported("reroot_at_midpoint has no nested function %s" % name)


# ------------------------------------------------------------------ _edge_len
def gen_edge_len(fn):
    f = _nested(fn, "_edge_len")
    if len(f.args.args) != 1:
        raise Unsupported("_edge_len: expected one argument")
    arg = f.args.args[0].arg
    body = _strip(f.body)
    if len(body) == 1 and isinstance(body[0], ast.Return) and isinstance(body[0].value, ast.IfExp):
        t, a, b = body[0].value.test, body[0].value.body, body[0].value.orelse
    elif len(body) == 2 and isinstance(body[0], ast.If) and not body[0].orelse and len(body[0].body) == 1 \
            and isinstance(body[0].body[0], ast.Return) and isinstance(body[1], ast.Return):
        t, a, b = body[0].test, body[0].body[0].value, body[1].value
    elif len(body) == 1 and isinstance(body[0], ast.If) and len(body[0].body) == 1 and len(body[0].orelse) == 1 \
            and isinstance(body[0].body[0], ast.Return) and isinstance(body[0].orelse[0], ast.Return):
        t, a, b = body[0].test, body[0].body[0].value, body[0].orelse[0].value
    else:
        raise Unsupported("_edge_len: body outside the subset")
    if not (isinstance(t, ast.Compare) and len(t.ops) == 1 and _is_none(t.comparators[0])
            and isinstance(t.ops[0], (ast.Is, ast.IsNot, ast.Eq, ast.NotEq))):
        raise Unsupported("_edge_len: test is not a comparison with None")
    if _attr_chain(t.left) != [arg, "edge", "length"]:
        raise Unsupported("_edge_len: tests something else than %s.edge.length" % arg)
    if isinstance(t.ops[0], (ast.IsNot, ast.NotEq)):
        a, b = b, a
    # a: value for None, b: value otherwise
    if _attr_chain(b) != [arg, "edge", "length"]:
        raise Unsupported("_edge_len: a present length is not returned as it is")
    if not (isinstance(a, ast.Constant) and isinstance(a.value, (int, float)) and not isinstance(a.value, bool)):
        raise Unsupported("_edge_len: the value for a missing length is not a numeric literal")
    return ("/-- `_edge_len`: the length an edge counts with in the walk (`none` = no length) -/\n"
            "def edgeLen (length : Option Frac) : Frac :=\n  match length with\n  | none => %s\n  | some length => length\n" % _const(a.value))


def check_root_dist(fn):
    f = _nested(fn, "_root_dist")
    if len(f.args.args) != 1:
        raise Unsupported("_root_dist: expected one argument")
    nd = f.args.args[0].arg
    body = _strip(f.body)
    ok = (len(body) == 3 and isinstance(body[0], ast.Assign) and len(body[0].targets) == 1 and isinstance(body[0].targets[0], ast.Name)
          and isinstance(body[0].value, ast.Constant) and body[0].value.value in (0, 0.0) and not isinstance(body[0].value.value, bool)
          and isinstance(body[1], ast.While) and isinstance(body[2], ast.Return))
    if not ok:
        raise Unsupported("_root_dist: not `dist = 0; while ...: ...; return dist`")
    acc = body[0].targets[0].id
    w = body[1]
    t = w.test
    if not (isinstance(t, ast.Compare) and len(t.ops) == 1 and isinstance(t.ops[0], ast.IsNot) and _is_none(t.comparators[0])
            and _attr_chain(t.left) == [nd, "_parent_node"]) or w.orelse:
        raise Unsupported("_root_dist: loop does not run while %s._parent_node is not None" % nd)
    wb = _strip(w.body)
    ok = (len(wb) == 2 and isinstance(wb[0], ast.AugAssign) and isinstance(wb[0].op, ast.Add) and isinstance(wb[0].target, ast.Name)
          and wb[0].target.id == acc and isinstance(wb[0].value, ast.Call) and isinstance(wb[0].value.func, ast.Name)
          and wb[0].value.func.id == "_edge_len" and len(wb[0].value.args) == 1 and isinstance(wb[0].value.args[0], ast.Name)
          and wb[0].value.args[0].id == nd
          and isinstance(wb[1], ast.Assign) and len(wb[1].targets) == 1 and isinstance(wb[1].targets[0], ast.Name)
          and wb[1].targets[0].id == nd and _attr_chain(wb[1].value) == [nd, "_parent_node"])
    if not ok or not (isinstance(body[2].value, ast.Name) and body[2].value.id == acc):
        raise Unsupported("_root_dist: loop body is not `dist += _edge_len(nd); nd = nd._parent_node`")


# ------------------------------------------------------------------ plen0, n1IsSecond
def _sub_index(n, base):
    if isinstance(n, ast.Subscript) and isinstance(n.value, ast.Name) and n.value.id == base:
        s = n.slice
        if isinstance(s, ast.Constant) and s.value in (0, 1):
            return s.value
    return None


def gen_plen0(fn):
    pair = None
    for s in fn.body:
        if isinstance(s, ast.Assign) and len(s.targets) == 1 and isinstance(s.targets[0], ast.Tuple) and len(s.targets[0].elts) == 2 \
                and isinstance(s.value, ast.Call) and isinstance(s.value.func, ast.Attribute) and s.value.func.attr == "max_pairwise_distance_taxa":
            pair = [e.id for e in s.targets[0].elts if isinstance(e, ast.Name)]
    if not pair or len(pair) != 2:
        raise Unsupported("the pair of taxa is not taken from max_pairwise_distance_taxa()")
    for s in fn.body:
        if isinstance(s, ast.Assign) and len(s.targets) == 1 and isinstance(s.targets[0], ast.Name) and s.targets[0].id == "plen":
            env = Env()
            found = []
            for n in ast.walk(s.value):
                if isinstance(n, ast.Call) and isinstance(n.func, ast.Attribute) and n.func.attr == "patristic_distance":
                    args = sorted(a.id for a in n.args if isinstance(a, ast.Name))
                    if args != sorted(pair) or n.keywords:
                        raise Unsupported("plen: patristic_distance is not taken between the two maximal taxa")
                    env.exprs[_d(n)] = "d"
                    found.append(n)
            if not found:
                raise Unsupported("plen: not computed from patristic_distance")
            return ("/-- the `plen` the walk starts with, from the patristic distance `d` of the pair -/\n"
                    "def plen0 (d : Frac) : Frac := %s\n" % fexpr(s.value, env))
    raise Unsupported("no assignment to plen before the walk")


def gen_order(fn):
    for s in fn.body:
        if isinstance(s, ast.If) and isinstance(s.test, ast.Compare) and len(s.test.ops) == 1:
            l, r = s.test.left, s.test.comparators[0]
            def rd(n):
                if isinstance(n, ast.Call) and isinstance(n.func, ast.Name) and n.func.id == "_root_dist" and len(n.args) == 1:
                    return _sub_index(n.args[0], "spanning_nodes")
                return None
            i, j = rd(l), rd(r)
            if i is None or j is None:
                continue
            if {i, j} != {0, 1}:
                raise Unsupported("root-distance comparison is not between the two spanning nodes")
            env = Env()
            env.exprs[_d(l)] = "d%d" % i
            env.exprs[_d(r)] = "d%d" % j
            c = fcmp(s.test, env)

            def assigns(stmts):
                m = {}
                for a in _strip(stmts):
                    if not (isinstance(a, ast.Assign) and len(a.targets) == 1 and isinstance(a.targets[0], ast.Name)):
                        raise Unsupported("n1/n2 selection: branch outside the subset")
                    k = _sub_index(a.value, "spanning_nodes")
                    if k is None:
                        raise Unsupported("n1/n2 selection: not taken from spanning_nodes")
                    m[a.targets[0].id] = k
                if sorted(m) != ["n1", "n2"] or sorted(m.values()) != [0, 1]:
                    raise Unsupported("n1/n2 selection: branch does not assign n1 and n2 to the two spanning nodes")
                return m["n1"]
            b1, b2 = assigns(s.body), assigns(s.orelse)
            if b1 == b2:
                raise Unsupported("n1/n2 selection: both branches choose the same node")
            cond = c if b1 == 1 else "(!%s)" % c
            return ("/-- the walk starts from the SECOND spanning node found (else from the first), given their root distances -/\n"
                    "def n1IsSecond (d0 d1 : Frac) : Bool := %s\n" % cond)
    raise Unsupported("no root-distance comparison selecting n1/n2")


# ------------------------------------------------------------------ the loop
def _branch(stmts, env):
    env = env.copy()
    kind = None
    has_break = False
    target_ok = False
    for s in _strip(stmts):
        if isinstance(s, ast.Break):
            has_break = True
        elif isinstance(s, ast.AugAssign) and isinstance(s.target, ast.Name) and s.target.id == "plen" and isinstance(s.op, (ast.Sub, ast.Add)):
            r = fexpr(s.value, env)
            env.names["plen"] = "(%s %s %s)" % (env.names["plen"], "-" if isinstance(s.op, ast.Sub) else "+", r)
        elif isinstance(s, ast.Assign) and len(s.targets) == 1 and isinstance(s.targets[0], ast.Name):
            n = s.targets[0].id
            if n == "target_edge":
                if _attr_chain(s.value) != ["cur_node", "edge"]:
                    raise Unsupported("walk: target_edge is not cur_node.edge")
                target_ok = True
            elif n == "cur_node":
                if _attr_chain(s.value) != ["cur_node", "_parent_node"]:
                    raise Unsupported("walk: cur_node does not move to its parent")
                kind = "up"
            elif n == "break_on_node":
                ch = _attr_chain(s.value)
                if ch == ["cur_node", "_parent_node"]:
                    kind = "nodeParent"
                elif ch == ["cur_node"]:
                    kind = "nodeSelf"
                else:
                    raise Unsupported("walk: break_on_node is neither cur_node nor its parent")
            elif n in ("plen", "head_node_edge_len"):
                env.names[n] = fexpr(s.value, env)
            else:
                raise Unsupported("walk: assignment to %s" % n)
        else:
            raise Unsupported("walk: statement outside the subset: %s" % _d(s)[:100])
    if target_ok and has_break and kind is None:
        if "head_node_edge_len" not in env.names:
            raise Unsupported("walk: the in-edge branch does not set head_node_edge_len")
        return "Step.edge %s" % env.names["head_node_edge_len"]
    if kind == "up" and not has_break and not target_ok:
        return "Step.up %s" % env.names["plen"]
    if kind in ("nodeParent", "nodeSelf") and has_break and not target_ok:
        return "Step." + kind
    raise Unsupported("walk: a branch is none of in-edge / go-on / at-node")


def gen_walk(fn):
    loop = None
    for s in fn.body:
        if isinstance(s, ast.While) and isinstance(s.test, ast.Compare) and len(s.test.ops) == 1 and isinstance(s.test.ops[0], ast.IsNot) \
                and isinstance(s.test.left, ast.Name) and s.test.left.id == "cur_node" \
                and isinstance(s.test.comparators[0], ast.Name) and s.test.comparators[0].id == "mrca_node":
            loop = s
    if loop is None or loop.orelse:
        raise Unsupported("no loop `while cur_node is not mrca_node`")
    # cur_node starts at n1, mrca_node is the MRCA of the pair
    start = mr = False
    for s in fn.body:
        if isinstance(s, ast.Assign) and len(s.targets) == 1 and isinstance(s.targets[0], ast.Name):
            if s.targets[0].id == "cur_node" and isinstance(s.value, ast.Name) and s.value.id == "n1":
                start = True
            if s.targets[0].id == "mrca_node" and isinstance(s.value, ast.Call) and isinstance(s.value.func, ast.Attribute) \
                    and s.value.func.attr == "mrca":
                ch = sorted(tuple(_attr_chain(a) or ()) for a in s.value.args)
                kw = sorted(tuple(_attr_chain(k.value) or ()) for k in s.value.keywords)
                if ch == [("n1", "taxon"), ("n2", "taxon")] and not kw:
                    mr = True
    if not (start and mr):
        raise Unsupported("the walk does not start at n1 / does not stop at the MRCA of n1 and n2")
    env = Env()
    env.names["plen"] = "plen"
    body = _strip(loop.body)
    call = None
    if body and isinstance(body[0], ast.Assign) and len(body[0].targets) == 1 and isinstance(body[0].targets[0], ast.Name) \
            and isinstance(body[0].value, ast.Call) and isinstance(body[0].value.func, ast.Name) and body[0].value.func.id == "_edge_len" \
            and len(body[0].value.args) == 1 and isinstance(body[0].value.args[0], ast.Name) and body[0].value.args[0].id == "cur_node":
        env.names[body[0].targets[0].id] = "cur_edge_len"
        call = body[0].value
        body = body[1:]
    env.exprs[_d(call) if call is not None else _d(ast.parse("_edge_len(cur_node)", mode="eval").body)] = "cur_edge_len"
    if len(body) != 1 or not isinstance(body[0], ast.If):
        raise Unsupported("walk: loop body is not one if/elif/else")

    def chain(node, ind):
        pad = "  " * ind
        if not node.orelse:
            raise Unsupported("walk: if without else")
        out = "%sif %s then %s\n" % (pad, fcmp(node.test, env), _branch(node.body, env))
        if len(node.orelse) == 1 and isinstance(node.orelse[0], ast.If):
            return out + "%selse\n" % pad + chain(node.orelse[0], ind + 1)
        return out + "%selse %s\n" % (pad, _branch(node.orelse, env))
    return ("/-- one turn of the loop \"going up ...\": what happens at the current node for its edge length and the remaining length -/\n"
            "inductive Step where\n  | edge (head_node_edge_len : Frac)\n  | up (plen : Frac)\n  | nodeParent\n  | nodeSelf\nderiving DecidableEq\n\n"
            "def walkStep (cur_edge_len plen : Frac) : Step :=\n" + chain(body[0], 1))


# ------------------------------------------------------------------ after the loop
def _reseed_kw(call, first):
    if not (isinstance(call, ast.Call) and isinstance(call.func, ast.Attribute) and call.func.attr == "reseed_at"
            and _attr_chain(call.func.value) == ["self"]):
        raise Unsupported("expected a call self.reseed_at(...)")
    if not (len(call.args) == 1 and isinstance(call.args[0], ast.Name) and call.args[0].id == first):
        raise Unsupported("reseed_at is not called with %s" % first)
    kw = {k.arg: k.value for k in call.keywords}
    if sorted(kw) != ["collapse_unrooted_basal_bifurcation", "suppress_unifurcations", "update_bipartitions"]:
        raise Unsupported("reseed_at: unexpected keyword set %s" % sorted(kw))
    if not (isinstance(kw["update_bipartitions"], ast.Constant) and kw["update_bipartitions"].value is False):
        raise Unsupported("reseed_at: update_bipartitions is not the literal False")
    if not (isinstance(kw["suppress_unifurcations"], ast.Name) and kw["suppress_unifurcations"].id == "suppress_unifurcations"):
        raise Unsupported("reseed_at: suppress_unifurcations is not passed through")
    c = kw["collapse_unrooted_basal_bifurcation"]
    if not (isinstance(c, ast.Constant) and isinstance(c.value, bool)):
        raise Unsupported("reseed_at: collapse_unrooted_basal_bifurcation is not a literal")
    return "true" if c.value else "false"


def _surgery(stmts, syms, env, lens):
    """node surgery statements over the symbols TAIL/HEAD/NEW; returns the set of (op, x, y) seen and the reseed call"""
    ops, call = set(), None
    for s in _strip(stmts):
        if isinstance(s, ast.Assign) and len(s.targets) == 1 and isinstance(s.targets[0], ast.Name):
            n, v = s.targets[0].id, s.value
            ch = _attr_chain(v)
            if ch in (["target_edge", "head_node"], ["edge", "head_node"]):
                syms[n] = "HEAD"
            elif ch in (["target_edge", "tail_node"], ["edge", "tail_node"]):
                syms[n] = "TAIL"
            elif isinstance(v, ast.Call) and _attr_chain(v.func) in (["_node", "Node"], ["Node"]) and not v.args and not v.keywords:
                syms[n] = "NEW"
            elif isinstance(v, ast.Call) and isinstance(v.func, ast.Attribute) and v.func.attr == "new_child" \
                    and isinstance(v.func.value, ast.Name) and syms.get(v.func.value.id) == "TAIL" and not v.args:
                kw = {k.arg: k.value for k in v.keywords}
                if sorted(kw) not in ([], ["edge_length"]):
                    raise Unsupported("new_child: unexpected keywords")
                syms[n] = "NEW"
                ops.add(("add", "TAIL", "NEW"))
                lens["NEW"] = fexpr(kw["edge_length"], env) if kw else "NONE"
            else:
                env.names[n] = fexpr(v, env)
        elif isinstance(s, ast.Assign) and len(s.targets) == 1 and isinstance(s.targets[0], ast.Attribute):
            ch = _attr_chain(s.targets[0])
            if not (ch and len(ch) == 3 and ch[1:] == ["edge", "length"] and ch[0] in syms):
                raise Unsupported("surgery: assignment to %s" % _d(s.targets[0])[:80])
            lens[syms[ch[0]]] = fexpr(s.value, env)
        elif isinstance(s, ast.Expr) and isinstance(s.value, ast.Call) and isinstance(s.value.func, ast.Attribute):
            c = s.value
            if c.func.attr in ("reseed_at", "reroot_at_node"):
                call = c
                continue
            if not (isinstance(c.func.value, ast.Name) and c.func.value.id in syms and len(c.args) == 1
                    and isinstance(c.args[0], ast.Name) and c.args[0].id in syms):
                raise Unsupported("surgery: call outside the subset: %s" % _d(c)[:100])
            x, y = syms[c.func.value.id], syms[c.args[0].id]
            if c.func.attr == "remove_child" and not c.keywords:
                ops.add(("remove", x, y))
            elif c.func.attr == "add_child":
                kw = {k.arg: k.value for k in c.keywords}
                if sorted(kw) not in ([], ["edge_length"]):
                    raise Unsupported("add_child: unexpected keywords")
                ops.add(("add", x, y))
                if kw:
                    lens[y] = fexpr(kw["edge_length"], env)
            else:
                raise Unsupported("surgery: method %s" % c.func.attr)
        else:
            raise Unsupported("surgery: statement outside the subset: %s" % _d(s)[:100])
    if ops != {("remove", "TAIL", "HEAD"), ("add", "NEW", "HEAD"), ("add", "TAIL", "NEW")}:
        raise Unsupported("surgery: not `tail.remove_child(head); new.add_child(head); tail.add_child(new)`: %s" % sorted(ops))
    return call


def gen_after(fn):
    node = None
    for s in fn.body:
        if isinstance(s, ast.If) and isinstance(s.test, ast.Name) and s.test.id == "break_on_node":
            node = s
    if node is None:
        raise Unsupported("no `if break_on_node:` after the walk")
    nb = _strip(node.body)
    calls = [s.value for s in nb if isinstance(s, ast.Expr)]
    rest = [s for s in nb if not isinstance(s, ast.Expr)]
    for s in rest:
        if not (isinstance(s, ast.Assign) and len(s.targets) == 1 and isinstance(s.targets[0], ast.Name)
                and s.targets[0].id == "new_seed_node" and isinstance(s.value, ast.Name) and s.value.id == "break_on_node"):
            raise Unsupported("at-node branch: statement outside the subset")
    if len(calls) != 1:
        raise Unsupported("at-node branch: expected exactly one call")
    c_node = _reseed_kw(calls[0], "break_on_node")
    env = Env()
    env.names["head_node_edge_len"] = "head_node_edge_len"
    env.exprs[_d(ast.parse("target_edge.length", mode="eval").body)] = "edge_length"
    syms, lens = {}, {}
    call = _surgery(node.orelse, syms, env, lens)
    if call is None:
        raise Unsupported("in-edge branch: no reseed_at call")
    new = [k for k, v in syms.items() if v == "NEW"]
    if len(new) != 1:
        raise Unsupported("in-edge branch: inserted node not identified")
    c_edge = _reseed_kw(call, new[0])
    if "NEW" not in lens or "HEAD" not in lens or lens["NEW"] == "NONE":
        raise Unsupported("in-edge branch: the two sub-edge lengths are not both assigned")
    rooted = any(isinstance(s, ast.Assign) and len(s.targets) == 1 and _attr_chain(s.targets[0]) == ["self", "is_rooted"]
                 and isinstance(s.value, ast.Constant) and s.value.value is True for s in fn.body)
    return ("/-- midpoint inside an edge: (edge length of the inserted node = towards the old tail, edge length of the old head) -/\n"
            "def splitLens (edge_length head_node_edge_len : Frac) : Frac × Frac := (%s, %s)\n\n"
            "/-- `collapse_unrooted_basal_bifurcation` of the reseed_at call in the at-node / in-edge branch -/\n"
            "def nodeReseedCollapse : Bool := %s\ndef edgeReseedCollapse : Bool := %s\n\n"
            "/-- the method ends by `self.is_rooted = True` -/\ndef setsRooted : Bool := %s\n"
            % (lens["NEW"], lens["HEAD"], c_node, c_edge, "true" if rooted else "false"))


def gen_reroot_edge(fn):
    names = [a.arg for a in fn.args.args]
    if "length1" not in names or "length2" not in names:
        raise Unsupported("reroot_at_edge: no length1/length2 parameters")
    env = Env()
    env.names["length1"] = "length1"
    env.names["length2"] = "length2"
    body = [s for s in _strip(fn.body) if not isinstance(s, ast.Return)]
    syms, lens = {}, {}
    call = _surgery(body, syms, env, lens)
    if call is None or call.func.attr != "reroot_at_node":
        raise Unsupported("reroot_at_edge: does not end in reroot_at_node")
    new = [k for k, v in syms.items() if v == "NEW"]
    if not (len(call.args) == 1 and isinstance(call.args[0], ast.Name) and [call.args[0].id] == new):
        raise Unsupported("reroot_at_edge: reroot_at_node is not called with the inserted node")
    for side in ("NEW", "HEAD"):
        if lens.get(side) not in ("length1", "length2"):
            raise Unsupported("reroot_at_edge: the %s edge does not get length1 or length2 as it is" % side)
    return ("/-- `reroot_at_edge(edge, length1, length2)`: (edge length of the inserted node = towards the old tail, of the old head) -/\n"
            "def rerootEdgeLens (length1 length2 : Option Frac) : Option Frac × Option Frac := (%s, %s)\n" % (lens["NEW"], lens["HEAD"]))


def generate(repo):
    path = os.path.join(repo, "src/dendropy/datamodel/treemodel/_tree.py")
    with open(path) as f:
        tree = ast.parse(f.read())
    mid = find_function(tree, "Tree.reroot_at_midpoint")
    edge = find_function(tree, "Tree.reroot_at_edge")
    check_root_dist(mid)
    parts = ["import DendroModel.Basic.Frac", "namespace DendroModel.C07Mid", "open DendroModel", "",
             gen_edge_len(mid), gen_plen0(mid), gen_order(mid), gen_walk(mid), gen_after(mid), gen_reroot_edge(edge),
             "end DendroModel.C07Mid"]
    return "\n".join(parts) + "\n"
