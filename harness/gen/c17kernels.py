"""Gen/C17Kernels.lean: the closed-form kernels of calculate/treemeasure.py and of the age / root-distance / lineage routines of
datamodel/treemodel/_tree.py, read off the CURRENT source (tie A of C17) as definitions over core `Rat`.

How: a small symbolic evaluator runs the straight-line statements of each anchored loop body / normalisation branch / return
expression over named leaves and yields, for every updated variable, a closed arithmetic term.  Values have the form r * sqrt(q)
(q absent = rational) so that `pow(x, 0.5)` and `pow(n, 3.0/2)` are carried exactly; `math.log(...)` and module constants are
named parameters.  Temporaries are inlined, `x += e` / `x = x + e`, `float(.)`, keyword/positional do not matter; commuted operands
or re-associated formulas give a different text whose bridge theorem (Props/C17.lean: `ring`, `field_simp`, `decide`) still holds.
Anything outside the recognised subset raises `Unsupported`, never a guess.

Regenerated (names in Gen/C17Kernels.lean):
  B1            b1Init b1Leaf b1Node b1Acc b1SkipsRoot
  Colless       collessLeaf collessLeafCount collessNode collessAcc collessArity collessYule collessPdaRat/Rad collessMax collessRaw
                collessNormTable collessDefault eulerNum/eulerDen
  Sackin/N_bar  sackinLeafInc sackinAncInc sackinAncInclusive sackinHarmLo/Hi/Term sackinYule sackinPdaRat/Rad sackinTrue sackinRaw
                sackinNormTable sackinDefault nbarLeafInc nbarAncInc nbarAncInclusive nbarRet
  treeness      treenessSkipsRoot treenessLeafExt/LeafInt/NodeExt/NodeInt treenessRet
  gamma         gammaSpecArity gammaCountInc gammaSortDesc gammaInterval gammaNextOlder gammaLast gammaTInit gammaAccumInit
                gammaLoopLo/Hi/Idx/T/Accum gammaLastIdx gammaTotal gammaRetRat gammaRetRad
  _tree.py      setlenRaw setlenClampTest setlenClampVal setlenNegTest setlenDefaultMin setlenDefaultErr
                ultraFirst ultraOther ultraDev ultraRejects precSkips lineageCounts lineageInc rootDistRoot rootDistStep
                depthRoot depthStep resolveAge"""
import ast
import os
from fractions import Fraction

from extract import Unsupported, find_function

NAME = "C17Kernels"


# ------------------------------------------------------------------ symbolic values r * sqrt(q)
class SV(object):
    def __init__(self, r, q=None):
        self.r, self.q = r, q


def _lit(v):
    f = Fraction(v)
    if f.denominator == 1:
        return "(%d : Rat)" % f.numerator
    return "((%d : Rat) / %d)" % (f.numerator, f.denominator)


def _const(e):
    """constant folding of a numeric literal expression -> Fraction or None"""
    if isinstance(e, ast.Constant) and isinstance(e.value, (int, float)) and not isinstance(e.value, bool):
        return Fraction(e.value)
    if isinstance(e, ast.UnaryOp) and isinstance(e.op, ast.USub):
        v = _const(e.operand)
        return None if v is None else -v
    if isinstance(e, ast.BinOp) and isinstance(e.op, (ast.Add, ast.Sub, ast.Mult, ast.Div)):
        a, b = _const(e.left), _const(e.right)
        if a is None or b is None:
            return None
        if isinstance(e.op, ast.Add):
            return a + b
        if isinstance(e.op, ast.Sub):
            return a - b
        if isinstance(e.op, ast.Mult):
            return a * b
        if b == 0:
            raise Unsupported("constant division by zero")
        return a / b
    return None


def _dump(n):
    try:
        return ast.unparse(n)[:120]
    except Exception:   # noqa
        return ast.dump(n)[:120]


def _is_doc(s):
    return isinstance(s, ast.Expr) and isinstance(s.value, ast.Constant) and isinstance(s.value.value, str)


class Sym(object):
    """symbolic execution of straight-line numeric statements"""

    def __init__(self, leaves, logs=None, lists=(), maxes=None):
        self.env = dict((k, SV(v)) for k, v in leaves.items())
        self.logs = logs or {}
        self.lists = dict((k, None) for k in lists)     # list name -> recorded index term
        self.listleaf = dict((k, v) for k, v in (lists.items() if isinstance(lists, dict) else []))
        self.appended = {}
        self.maxes = maxes or {}
        self.alias = {}

    # -------- expressions
    def key(self, e):
        return ast.unparse(e)

    def ev(self, e):
        c = _const(e)
        if c is not None:
            return SV(_lit(c))
        if isinstance(e, (ast.Name, ast.Attribute, ast.Subscript)):
            k = self.key(e)
            if k in self.env:
                return self.env[k]
            if isinstance(e, ast.Subscript) and isinstance(e.value, ast.Name) and e.value.id in self.listleaf:
                idx = self.ev(e.slice)
                if idx.q is not None:
                    raise Unsupported("irrational index %s" % _dump(e))
                name = e.value.id
                if self.lists.get(name) not in (None, idx.r):
                    raise Unsupported("list %s read at two different indices" % name)
                self.lists[name] = idx.r
                return SV(self.listleaf[name])
            raise Unsupported("unknown quantity %s" % k)
        if isinstance(e, ast.UnaryOp) and isinstance(e.op, ast.USub):
            v = self.ev(e.operand)
            return SV("(- %s)" % v.r, v.q)
        if isinstance(e, ast.UnaryOp) and isinstance(e.op, ast.UAdd):
            return self.ev(e.operand)
        if isinstance(e, ast.BinOp):
            if isinstance(e.op, ast.Pow):
                return self.power(e.left, e.right)
            a, b = self.ev(e.left), self.ev(e.right)
            if isinstance(e.op, (ast.Add, ast.Sub)):
                if a.q is not None or b.q is not None:
                    raise Unsupported("sum of irrational terms %s" % _dump(e))
                return SV("(%s %s %s)" % (a.r, "+" if isinstance(e.op, ast.Add) else "-", b.r))
            if isinstance(e.op, (ast.Mult, ast.Div)):
                op = "*" if isinstance(e.op, ast.Mult) else "/"
                r = "(%s %s %s)" % (a.r, op, b.r)
                if a.q is None and b.q is None:
                    return SV(r)
                qa = a.q if a.q is not None else "(1 : Rat)"
                qb = b.q if b.q is not None else "(1 : Rat)"
                return SV(r, "(%s %s %s)" % (qa, op, qb))
            raise Unsupported("operator in %s" % _dump(e))
        if isinstance(e, ast.Call) and not e.keywords:
            f = e.func
            if isinstance(f, ast.Name) and f.id == "float" and len(e.args) == 1:
                return self.ev(e.args[0])
            if isinstance(f, ast.Name) and f.id == "abs" and len(e.args) == 1:
                v = self.ev(e.args[0])
                if v.q is not None:
                    raise Unsupported("abs of an irrational term")
                return SV("(kabs %s)" % v.r)
            if isinstance(f, ast.Name) and f.id == "pow" and len(e.args) == 2:
                return self.power(e.args[0], e.args[1])
            if isinstance(f, ast.Attribute) and isinstance(f.value, ast.Name) and f.value.id == "math":
                if f.attr == "log" and len(e.args) == 1:
                    c = _const(e.args[0])
                    k = str(c) if c is not None else self.key(e.args[0])
                    if k in self.logs:
                        return SV(self.logs[k])
                    raise Unsupported("logarithm of %s" % k)
                if f.attr == "sqrt" and len(e.args) == 1:
                    v = self.ev(e.args[0])
                    if v.q is not None:
                        raise Unsupported("nested root")
                    return SV("(1 : Rat)", v.r)
            if isinstance(f, ast.Name) and f.id == "max" and len(e.args) == 1 and \
                    isinstance(e.args[0], (ast.GeneratorExp, ast.ListComp)) and len(e.args[0].generators) == 1:
                elt = e.args[0].elt
                if isinstance(elt, ast.Subscript) and isinstance(elt.value, ast.Name) and elt.value.id in self.maxes:
                    return SV(self.maxes[elt.value.id])
        raise Unsupported("expression outside the arithmetic subset: %s" % _dump(e))

    def power(self, base, exponent):
        c = _const(exponent)
        if c is None or (2 * c).denominator != 1 or not (0 <= c <= 4):
            raise Unsupported("exponent %s" % _dump(exponent))
        b = self.ev(base)
        if b.q is not None:
            raise Unsupported("power of an irrational term")
        whole, half = int(2 * c) // 2, int(2 * c) % 2
        r = "(1 : Rat)"
        for _ in range(whole):
            r = b.r if r == "(1 : Rat)" else "(%s * %s)" % (r, b.r)
        return SV(r, b.r if half else None)

    def test(self, e):
        if isinstance(e, ast.Compare) and len(e.ops) == 1:
            ops = {ast.Lt: "<", ast.LtE: "≤", ast.Gt: ">", ast.GtE: "≥", ast.Eq: "=", ast.NotEq: "≠"}
            if type(e.ops[0]) in ops:
                a, b = self.ev(e.left), self.ev(e.comparators[0])
                if a.q is not None or b.q is not None:
                    raise Unsupported("comparison of irrational terms")
                return "(decide (%s %s %s))" % (a.r, ops[type(e.ops[0])], b.r)
        if isinstance(e, ast.BoolOp):
            return "(" + (" && " if isinstance(e.op, ast.And) else " || ").join(self.test(v) for v in e.values) + ")"
        if isinstance(e, ast.UnaryOp) and isinstance(e.op, ast.Not):
            return "(!%s)" % self.test(e.operand)
        raise Unsupported("test outside the comparison subset: %s" % _dump(e))

    # -------- statements
    def run(self, stmts):
        for s in stmts:
            if _is_doc(s) or isinstance(s, (ast.Pass, ast.Continue)):
                continue
            if isinstance(s, ast.Assign) and len(s.targets) == 1 and isinstance(s.targets[0], (ast.Name, ast.Subscript, ast.Attribute)):
                try:
                    self.env[self.key(s.targets[0])] = self.ev(s.value)
                except Unsupported:
                    # a non-numeric alias (`child_nodes = nd._child_nodes`, `x = {}`): remembered, never evaluated
                    if isinstance(s.targets[0], ast.Name) and isinstance(s.value, (ast.Attribute, ast.Name, ast.Dict, ast.List, ast.Call)) \
                            and not any(isinstance(n, ast.BinOp) for n in ast.walk(s.value)):
                        self.alias[s.targets[0].id] = self.key(s.value)
                        self.env.pop(s.targets[0].id, None)
                        continue
                    raise
                continue
            if isinstance(s, ast.AugAssign) and isinstance(s.target, (ast.Name, ast.Subscript, ast.Attribute)):
                load = ast.parse(self.key(s.target), mode="eval").body
                self.env[self.key(s.target)] = self.ev(ast.BinOp(left=load, op=s.op, right=s.value))
                continue
            if isinstance(s, ast.Expr) and isinstance(s.value, ast.Call) and isinstance(s.value.func, ast.Attribute) \
                    and s.value.func.attr == "append" and isinstance(s.value.func.value, ast.Name) and len(s.value.args) == 1:
                self.appended.setdefault(s.value.func.value.id, []).append(self.ev(s.value.args[0]))
                continue
            raise Unsupported("statement outside the straight-line subset: %s" % _dump(s))
        return self

    def get(self, k, rational=True):
        if k not in self.env:
            raise Unsupported("%s is never assigned" % k)
        v = self.env[k]
        if rational and v.q is not None:
            raise Unsupported("%s is irrational" % k)
        return v


# ------------------------------------------------------------------ output helpers
class Out(object):
    def __init__(self):
        self.lines = []

    def rat(self, name, params, body, doc=None):
        if doc:
            self.lines.append("/-- %s -/" % doc)
        if params:
            self.lines.append("def %s (%s : Rat) : Rat := %s" % (name, " ".join(params), body))
        else:
            self.lines.append("def %s : Rat := %s" % (name, body))

    def boolfn(self, name, params, body, doc=None):
        if doc:
            self.lines.append("/-- %s -/" % doc)
        if params:
            self.lines.append("def %s (%s : Rat) : Bool := %s" % (name, " ".join(params), body))
        else:
            self.lines.append("def %s : Bool := %s" % (name, body))

    def raw(self, text):
        self.lines.append(text)


def _body(fn):
    return [s for s in fn.body if not _is_doc(s)]


def _for_loops(stmts):
    return [s for s in stmts if isinstance(s, ast.For)]


def _iter_call(loop, attr):
    """the loop iterates over `<x>.<attr>(...)`"""
    it = loop.iter
    return isinstance(it, ast.Call) and isinstance(it.func, ast.Attribute) and it.func.attr == attr


def _skips_root(body):
    """leading `if nd._parent_node is None: continue` / `if not nd._parent_node: continue` -> (True, rest)"""
    if body and isinstance(body[0], ast.If) and not body[0].orelse and len(body[0].body) == 1 and isinstance(body[0].body[0], ast.Continue):
        t = body[0].test
        ok = False
        if isinstance(t, ast.Compare) and len(t.ops) == 1 and isinstance(t.ops[0], ast.Is) \
                and isinstance(t.comparators[0], ast.Constant) and t.comparators[0].value is None \
                and isinstance(t.left, ast.Attribute) and t.left.attr == "_parent_node":
            ok = True
        if isinstance(t, ast.UnaryOp) and isinstance(t.op, ast.Not) and isinstance(t.operand, ast.Attribute) \
                and t.operand.attr == "_parent_node":
            ok = True
        if ok:
            return True, body[1:]
    return False, body


def _is_leaf_test(t):
    """`nd.is_leaf()` or `len(<children>) == 0` or `not <children>`"""
    if isinstance(t, ast.Call) and isinstance(t.func, ast.Attribute) and t.func.attr == "is_leaf" and not t.args:
        return True
    if isinstance(t, ast.Compare) and len(t.ops) == 1 and isinstance(t.ops[0], ast.Eq) and isinstance(t.left, ast.Call) \
            and isinstance(t.left.func, ast.Name) and t.left.func.id == "len" \
            and isinstance(t.comparators[0], ast.Constant) and t.comparators[0].value == 0:
        return True
    return False


def _arity_test(t, ops):
    """`len(<children>) <op> k` -> k"""
    if isinstance(t, ast.Compare) and len(t.ops) == 1 and isinstance(t.ops[0], ops) and isinstance(t.left, ast.Call) \
            and isinstance(t.left.func, ast.Name) and t.left.func.id == "len" and isinstance(t.comparators[0], ast.Constant) \
            and isinstance(t.comparators[0].value, int) and not isinstance(t.comparators[0].value, bool):
        return t.comparators[0].value
    return None


def _raises(stmts, exc=None):
    return len(stmts) == 1 and isinstance(stmts[0], ast.Raise)


# ------------------------------------------------------------------ normalisation branch tables
def _pyval(e):
    if isinstance(e, ast.Constant):
        return e.value
    raise Unsupported("non-literal in a normalisation test: %s" % _dump(e))


def _eval_test(t, var, value):
    """Python truth of a test over the single variable `var` bound to `value`"""
    if isinstance(t, ast.BoolOp):
        vals = [_eval_test(v, var, value) for v in t.values]
        return all(vals) if isinstance(t.op, ast.And) else any(vals)
    if isinstance(t, ast.UnaryOp) and isinstance(t.op, ast.Not):
        return not _eval_test(t.operand, var, value)
    if isinstance(t, ast.Compare) and len(t.ops) == 1 and isinstance(t.left, ast.Name) and t.left.id == var:
        c = _pyval(t.comparators[0])
        op = t.ops[0]
        if isinstance(op, ast.Eq):
            return value == c
        if isinstance(op, ast.NotEq):
            return value != c
        if isinstance(op, ast.Is):
            return value is c
        if isinstance(op, ast.IsNot):
            return value is not c
    raise Unsupported("normalisation test outside the subset: %s" % _dump(t))


def _chain(stmt):
    """if/elif/else chain -> [(test or None, body)]"""
    out = []
    while True:
        out.append((stmt.test, stmt.body))
        if len(stmt.orelse) == 1 and isinstance(stmt.orelse[0], ast.If):
            stmt = stmt.orelse[0]
            continue
        if stmt.orelse:
            out.append((None, stmt.orelse))
        return out


def _norm_table(chain, var, candidates):
    """which branch each candidate value of `normalize` takes: ({repr: branch index | 'raw' | 'refuse'}, {index: name})"""
    sel = {}
    for v in candidates:
        taken = None
        for i, (t, body) in enumerate(chain):
            if t is None or _eval_test(t, var, v):
                taken = i
                break
        if taken is None:
            sel[v] = "raw"
        elif _raises(chain[taken][1]):
            sel[v] = "refuse"
        else:
            sel[v] = taken
    names = {}
    for v in candidates:       # strings name their branches first, then True, then None
        if isinstance(v, str) and isinstance(sel[v], int) and sel[v] not in names:
            names[sel[v]] = v
    if isinstance(sel.get(True), int) and sel[True] not in names:
        names[sel[True]] = "true"
    if isinstance(sel.get(None), int) and sel[None] not in names:
        names[sel[None]] = "raw"
    table = []
    for v in candidates:
        s = sel[v]
        table.append((repr(v).strip("'"), names[s] if isinstance(s, int) else s))
    return table, dict((n, i) for i, n in names.items())


def _default_literal(fn, arg):
    names = [a.arg for a in fn.args.args]
    defaults = dict(zip(names[len(names) - len(fn.args.defaults):], fn.args.defaults))
    if arg not in defaults:
        raise Unsupported("%s has no default for %s" % (fn.name, arg))
    return defaults[arg]


def _emit_table(out, name, table, default_name):
    out.raw("def %sNormTable : List (String × String) := [%s]" % (
        name, ", ".join('("%s", "%s")' % (a, b) for a, b in table)))
    out.raw('def %sDefault : String := "%s"' % (name, default_name))


def _capital(s):
    return s[:1].upper() + s[1:]


# ------------------------------------------------------------------ treemeasure.B1
def k_b1(mod, out):
    fn = find_function(mod, "B1")
    body = _body(fn)
    loops = _for_loops(body)
    if len(loops) != 1 or not _iter_call(loops[0], "postorder_node_iter"):
        raise Unsupported("B1: expected one loop over postorder_node_iter")
    pre = Sym({}).run([s for s in body[:body.index(loops[0])]])
    acc = None
    ret = body[-1]
    if not (isinstance(ret, ast.Return) and isinstance(ret.value, ast.Name)):
        raise Unsupported("B1: return is not a plain accumulator")
    acc = ret.value.id
    init = pre.get(acc)
    skips, rest = _skips_root(loops[0].body)
    dicts = [k for k, v in pre.alias.items() if v == "{}"]
    if len(dicts) != 1:
        raise Unsupported("B1: expected exactly one per-node dict")
    d = dicts[0]
    target = None
    leaf = None
    tail = []
    for s in rest:
        if isinstance(s, ast.If) and _is_leaf_test(s.test) and not s.orelse and s.body and isinstance(s.body[-1], ast.Continue):
            sy = Sym({acc: acc}).run(s.body)
            ks = [k for k in sy.env if k.startswith(d + "[")]
            if len(ks) != 1:
                raise Unsupported("B1: leaf branch does not set %s[...]" % d)
            target = ks[0]
            leaf = sy.get(target)
            if sy.get(acc).r != acc:
                raise Unsupported("B1: the leaf branch changes the accumulator")
        else:
            tail.append(s)
    if leaf is None:
        raise Unsupported("B1: no leaf branch")
    sy = Sym({acc: "b1"}, maxes={d: "m"}).run(tail)
    out.raw("\n/-! treemeasure.B1 -/")
    out.rat("b1Init", [], init.r, "value of the accumulator before the loop")
    out.rat("b1Leaf", [], leaf.r, "`nd_mi` of a leaf")
    out.rat("b1Node", ["m"], sy.get(target).r, "`nd_mi` of an internal node whose children's maximum is `m`")
    out.rat("b1Acc", ["b1", "m"], sy.get(acc).r, "the accumulator after an internal non-root node")
    out.boolfn("b1SkipsRoot", [], "true" if skips else "false")


# ------------------------------------------------------------------ treemeasure.colless_tree_imbalance
def _euler(mod, out):
    for node in mod.body:
        if isinstance(node, ast.Assign) and len(node.targets) == 1 and isinstance(node.targets[0], ast.Name) \
                and node.targets[0].id == "EULERS_CONSTANT":
            c = _const(node.value)
            if c is None:
                raise Unsupported("EULERS_CONSTANT is not a literal")
            c = Fraction(float(c))     # the float the interpreter computes with
            out.raw("def eulerNum : Int := %d\ndef eulerDen : Nat := %d" % (c.numerator, c.denominator))
            return
    raise Unsupported("treemeasure.py does not assign EULERS_CONSTANT")


def k_colless(mod, out):
    fn = find_function(mod, "colless_tree_imbalance")
    body = _body(fn)
    loops = _for_loops(body)
    if len(loops) != 1 or not _iter_call(loops[0], "postorder_node_iter"):
        raise Unsupported("colless: expected one loop over postorder_node_iter")
    li = body.index(loops[0])
    pre = Sym({}).run(body[:li])
    dicts = [k for k, v in pre.alias.items() if v == "{}"]
    if len(dicts) != 1:
        raise Unsupported("colless: expected exactly one per-node dict")
    d = dicts[0]
    ret = body[-1]
    if not (isinstance(ret, ast.Return) and isinstance(ret.value, ast.Name)):
        raise Unsupported("colless: return is not a plain variable")
    acc = ret.value.id
    lb = loops[0].body
    if not (len(lb) == 1 and isinstance(lb[0], ast.If) and _is_leaf_test(lb[0].test) and lb[0].orelse):
        raise Unsupported("colless: loop body is not `if leaf: ... else: ...`")
    counters = [k for k in pre.env if k != acc]
    if len(counters) != 1:
        raise Unsupported("colless: expected one leaf counter besides the accumulator")
    cnt = counters[0]
    if pre.get(acc).r != "(0 : Rat)" or pre.get(cnt).r != "(0 : Rat)":
        raise Unsupported("colless: accumulators do not start at 0")
    sl = Sym({acc: "colless", cnt: "num_leaves"}).run(lb[0].body)
    tkeys = [k for k in sl.env if k.startswith(d + "[")]
    if len(tkeys) != 1 or sl.get(acc).r != "colless":
        raise Unsupported("colless: leaf branch")
    target = tkeys[0]
    nodev = ast.parse(target, mode="eval").body.slice
    arity = None
    internal = []
    for s in lb[0].orelse:
        if isinstance(s, ast.If) and not s.orelse and _raises(s.body):
            arity = _arity_test(s.test, ast.NotEq)
            if arity is None:
                raise Unsupported("colless: refusal test %s" % _dump(s.test))
        else:
            internal.append(s)
    if arity != 2:
        raise Unsupported("colless: arity test is not `!= 2`")
    child = lambda i: "%s[%s._child_nodes[%d]]" % (d, ast.unparse(nodev), i)
    si = Sym({acc: "colless", cnt: "num_leaves", child(0): "l", child(1): "r"}).run(internal)
    if si.get(cnt).r != "num_leaves":
        raise Unsupported("colless: internal branch changes the leaf counter")
    out.raw("\n/-! treemeasure.colless_tree_imbalance -/")
    out.rat("collessLeaf", [], sl.get(target).r, "`subtree_leaves` of a leaf")
    out.rat("collessLeafCount", ["num_leaves"], sl.get(cnt).r)
    out.rat("collessNode", ["l", "r"], si.get(target).r, "`subtree_leaves` of a node with children `l`, `r` (child 0, child 1)")
    out.rat("collessAcc", ["colless", "l", "r"], si.get(acc).r)
    out.raw("def collessArity : Nat := %d" % arity)
    # normalisation
    post = body[li + 1:-1]
    if not (len(post) == 1 and isinstance(post[0], ast.If)):
        raise Unsupported("colless: normalisation is not one if/elif chain")
    chain = _chain(post[0])
    table, names = _norm_table(chain, "normalize", ["yule", "pda", "max", True, None, False, "bogus"])
    for need in ("yule", "pda", "max"):
        if need not in names:
            raise Unsupported("colless: no branch for %r" % need)
    leaves = {acc: "colless", cnt: "num_leaves", "EULERS_CONSTANT": "euler"}
    logs = {cnt: "lnN", "2": "ln2"}
    y = Sym(leaves, logs).run(chain[names["yule"]][1]).get(acc)
    out.rat("collessYule", ["colless", "num_leaves", "lnN", "ln2", "euler"], y.r,
            "`lnN` = math.log(num_leaves), `ln2` = math.log(2), `euler` = EULERS_CONSTANT")
    p = Sym(leaves, logs).run(chain[names["pda"]][1]).get(acc, rational=False)
    out.rat("collessPdaRat", ["colless", "num_leaves"], p.r, "PDA value = collessPdaRat * sqrt(collessPdaRad)")
    out.rat("collessPdaRad", ["colless", "num_leaves"], p.q if p.q is not None else "(1 : Rat)")
    m = Sym(leaves, logs).run(chain[names["max"]][1]).get(acc)
    out.rat("collessMax", ["colless", "num_leaves"], m.r)
    out.rat("collessRaw", ["colless", "num_leaves"], "colless")
    dflt = _pyval(_default_literal(fn, "normalize"))
    dn = dict(table).get(repr(dflt).strip("'"))
    if dn is None:
        raise Unsupported("colless: default normalize %r not in the table" % (dflt,))
    _emit_table(out, "colless", table, dn)


# ------------------------------------------------------------------ treemeasure.sackin_index / N_bar
def _leaf_anc_loop(fn, what):
    """the loop `for leaf in tree.leaf_node_iter(): c += 1; for parent in leaf.ancestor_iter(inclusive=False): a += 1`
    -> (leaf counter name, ancestor counter name, leaf inc term, anc inc term, inclusive flag, statements after the loop)"""
    body = _body(fn)
    loops = _for_loops(body)
    if len(loops) != 1 or not _iter_call(loops[0], "leaf_node_iter"):
        raise Unsupported("%s: expected one loop over leaf_node_iter" % what)
    li = body.index(loops[0])
    pre = Sym({}).run(body[:li])
    inner = [s for s in loops[0].body if isinstance(s, ast.For)]
    if len(inner) != 1 or not _iter_call(inner[0], "ancestor_iter"):
        raise Unsupported("%s: expected an inner loop over ancestor_iter" % what)
    call = inner[0].iter
    incl = None
    if call.args:
        incl = _pyval(call.args[0])
    for k in call.keywords:
        if k.arg == "inclusive":
            incl = _pyval(k.value)
    if incl is None:
        raise Unsupported("%s: ancestor_iter without an explicit inclusive flag" % what)
    outer = [s for s in loops[0].body if s is not inner[0]]
    names = list(pre.env)
    so = Sym(dict((n, n) for n in names)).run(outer)
    sn = Sym(dict((n, n) for n in names)).run(inner[0].body)
    leafc = [n for n in names if so.get(n).r != n]
    ancc = [n for n in names if sn.get(n).r != n]
    if len(leafc) != 1 or len(ancc) != 1 or leafc == ancc:
        raise Unsupported("%s: cannot tell the leaf counter from the ancestor counter" % what)
    for n in names:
        if pre.get(n).r != "(0 : Rat)":
            raise Unsupported("%s: counter %s does not start at 0" % (what, n))
    return leafc[0], ancc[0], so.get(leafc[0]).r.replace(leafc[0], "c"), sn.get(ancc[0]).r.replace(ancc[0], "a"), bool(incl), body[li + 1:]


def k_sackin(mod, out):
    fn = find_function(mod, "sackin_index")
    lc, ac, linc, ainc, incl, post = _leaf_anc_loop(fn, "sackin_index")
    out.raw("\n/-! treemeasure.sackin_index -/")
    out.rat("sackinLeafInc", ["c"], linc)
    out.rat("sackinAncInc", ["a"], ainc)
    out.boolfn("sackinAncInclusive", [], "true" if incl else "false")
    if not (len(post) == 2 and isinstance(post[0], ast.If) and isinstance(post[1], ast.Return) and isinstance(post[1].value, ast.Name)):
        raise Unsupported("sackin_index: normalisation is not one if/elif chain followed by a return")
    res = post[1].value.id
    chain = _chain(post[0])
    table, names = _norm_table(chain, "normalize", ["yule", "pda", "max", True, None, False, "bogus"])
    for need in ("yule", "pda", "true", "raw"):
        if need not in names:
            raise Unsupported("sackin_index: no branch for %r" % need)
    # Yule branch: the harmonic sum is a named quantity
    yb = list(chain[names["yule"]][1])
    harm = None
    for s in yb:
        if isinstance(s, ast.Assign) and isinstance(s.value, ast.Call) and isinstance(s.value.func, ast.Name) and s.value.func.id == "sum" \
                and len(s.value.args) == 1 and isinstance(s.value.args[0], (ast.GeneratorExp, ast.ListComp)):
            harm = s
    if harm is None:
        raise Unsupported("sackin_index: no harmonic sum in the Yule branch")
    comp = harm.value.args[0]
    gen = comp.generators[0]
    if len(comp.generators) != 1 or gen.ifs or not isinstance(gen.target, ast.Name) or not (
            isinstance(gen.iter, ast.Call) and isinstance(gen.iter.func, ast.Name) and gen.iter.func.id == "range" and len(gen.iter.args) == 2):
        raise Unsupported("sackin_index: harmonic sum is not over range(a, b)")
    sy = Sym({lc: "leaf_count", ac: "num_anc"})
    out.rat("sackinHarmLo", ["leaf_count"], sy.ev(gen.iter.args[0]).r, "the harmonic sum runs over lo ≤ j < hi")
    out.rat("sackinHarmHi", ["leaf_count"], sy.ev(gen.iter.args[1]).r)
    t = Sym({gen.target.id: "j"}).ev(comp.elt)
    if t.q is not None:
        raise Unsupported("sackin_index: irrational harmonic term")
    out.rat("sackinHarmTerm", ["j"], t.r)
    hname = harm.targets[0].id
    rest = [s for s in yb if s is not harm]
    y = Sym({lc: "leaf_count", ac: "num_anc", hname: "x"}).run(rest).get(res)
    out.rat("sackinYule", ["num_anc", "leaf_count", "x"], y.r, "`x` = the harmonic sum")
    p = Sym({lc: "leaf_count", ac: "num_anc"}).run(chain[names["pda"]][1]).get(res, rational=False)
    out.rat("sackinPdaRat", ["num_anc", "leaf_count"], p.r, "PDA value = sackinPdaRat * sqrt(sackinPdaRad)")
    out.rat("sackinPdaRad", ["num_anc", "leaf_count"], p.q if p.q is not None else "(1 : Rat)")
    out.rat("sackinTrue", ["num_anc", "leaf_count"], Sym({lc: "leaf_count", ac: "num_anc"}).run(chain[names["true"]][1]).get(res).r)
    out.rat("sackinRaw", ["num_anc", "leaf_count"], Sym({lc: "leaf_count", ac: "num_anc"}).run(chain[names["raw"]][1]).get(res).r)
    dflt = _pyval(_default_literal(fn, "normalize"))
    dn = dict(table).get(repr(dflt).strip("'"))
    if dn is None:
        raise Unsupported("sackin_index: default normalize %r not in the table" % (dflt,))
    _emit_table(out, "sackin", table, dn)


def k_nbar(mod, out):
    fn = find_function(mod, "N_bar")
    lc, ac, linc, ainc, incl, post = _leaf_anc_loop(fn, "N_bar")
    if not (len(post) == 1 and isinstance(post[0], ast.Return)):
        raise Unsupported("N_bar: expected a single return after the loop")
    v = Sym({lc: "leaf_count", ac: "nbar"}).ev(post[0].value)
    if v.q is not None:
        raise Unsupported("N_bar: irrational return")
    out.raw("\n/-! treemeasure.N_bar -/")
    out.rat("nbarLeafInc", ["c"], linc)
    out.rat("nbarAncInc", ["a"], ainc)
    out.boolfn("nbarAncInclusive", [], "true" if incl else "false")
    out.rat("nbarRet", ["nbar", "leaf_count"], v.r)


# ------------------------------------------------------------------ treemeasure.treeness
def k_treeness(mod, out):
    fn = find_function(mod, "treeness")
    body = _body(fn)
    loops = _for_loops(body)
    if len(loops) != 1 or not _iter_call(loops[0], "postorder_node_iter"):
        raise Unsupported("treeness: expected one loop over postorder_node_iter")
    li = body.index(loops[0])
    pre = Sym({}).run(body[:li])
    skips, rest = _skips_root(loops[0].body)
    if not (len(rest) == 1 and isinstance(rest[0], ast.If) and _is_leaf_test(rest[0].test) and rest[0].orelse):
        raise Unsupported("treeness: loop body is not `if leaf: ... else: ...`")
    ret = body[-1]
    if not isinstance(ret, ast.Return) or li != len(body) - 2:
        raise Unsupported("treeness: expected the return right after the loop")
    names = sorted(pre.env)
    if names != ["external", "internal"]:
        raise Unsupported("treeness: accumulators are not `internal`, `external`")
    for n in names:
        if pre.get(n).r != "(0 : Rat)":
            raise Unsupported("treeness: %s does not start at 0" % n)
    node = loops[0].target.id
    leaves = {"external": "external", "internal": "internal", "%s.edge.length" % node: "len", "%s.edge_length" % node: "len"}
    a = Sym(leaves).run(rest[0].body)
    b = Sym(leaves).run(rest[0].orelse)
    r = Sym(leaves).ev(ret.value)
    if r.q is not None:
        raise Unsupported("treeness: irrational return")
    out.raw("\n/-! treemeasure.treeness -/")
    out.boolfn("treenessSkipsRoot", [], "true" if skips else "false")
    out.rat("treenessLeafExt", ["external", "internal", "len"], a.get("external").r)
    out.rat("treenessLeafInt", ["external", "internal", "len"], a.get("internal").r)
    out.rat("treenessNodeExt", ["external", "internal", "len"], b.get("external").r)
    out.rat("treenessNodeInt", ["external", "internal", "len"], b.get("internal").r)
    out.rat("treenessRet", ["internal", "external"], r.r)


# ------------------------------------------------------------------ treemeasure.pybus_harvey_gamma
def k_gamma(mod, out):
    fn = find_function(mod, "pybus_harvey_gamma")
    body = _body(fn)
    loops = _for_loops(body)
    if len(loops) != 3:
        raise Unsupported("gamma: expected three loops (nodes, ages, intervals)")
    l1, l2, l3 = loops
    out.raw("\n/-! treemeasure.pybus_harvey_gamma -/")
    # loop 1: which nodes are speciation events, which are counted
    if not (_iter_call(l1, "postorder_node_iter") and len(l1.body) == 1 and isinstance(l1.body[0], ast.If) and l1.body[0].orelse):
        raise Unsupported("gamma: node loop")
    ar = _arity_test(l1.body[0].test, ast.Eq)
    if ar is None:
        raise Unsupported("gamma: speciation test %s" % _dump(l1.body[0].test))
    node = l1.target.id
    s1 = Sym({"%s.age" % node: "age", "n": "n"}).run(l1.body[0].body)
    if list(s1.appended) != ["speciation_ages"] or s1.appended["speciation_ages"][0].r != "age" or s1.get("n").r != "n":
        raise Unsupported("gamma: the bifurcating branch does not just record the node's age")
    s1b = Sym({"%s.age" % node: "age", "n": "n"}).run(l1.body[0].orelse)
    if s1b.appended:
        raise Unsupported("gamma: the other branch records an age")
    out.raw("def gammaSpecArity : Nat := %d" % ar)
    out.rat("gammaCountInc", ["n"], s1b.get("n").r)
    # sort
    sort = [s for s in body if isinstance(s, ast.Expr) and isinstance(s.value, ast.Call) and isinstance(s.value.func, ast.Attribute)
            and s.value.func.attr == "sort" and isinstance(s.value.func.value, ast.Name) and s.value.func.value.id == "speciation_ages"]
    if len(sort) != 1 or sort[0].value.args:
        raise Unsupported("gamma: speciation_ages.sort(...)")
    rev = False
    for k in sort[0].value.keywords:
        if k.arg == "reverse":
            rev = bool(_pyval(k.value))
        else:
            raise Unsupported("gamma: sort key")
    out.boolfn("gammaSortDesc", [], "true" if rev else "false")
    # loop 2: the intervals
    i2 = body.index(l2)
    init = body[i2 - 1]
    if not (isinstance(init, ast.Assign) and ast.unparse(init.value) == "speciation_ages[0]" and isinstance(init.targets[0], ast.Name)):
        raise Unsupported("gamma: `older = speciation_ages[0]`")
    older = init.targets[0].id
    if ast.unparse(l2.iter) != "speciation_ages[1:]" or not isinstance(l2.target, ast.Name):
        raise Unsupported("gamma: interval loop does not run over speciation_ages[1:]")
    s2 = Sym({older: "older", l2.target.id: "age"}).run(l2.body)
    if list(s2.appended) != ["g"] or len(s2.appended["g"]) != 1:
        raise Unsupported("gamma: interval loop does not append exactly one interval")
    out.rat("gammaInterval", ["older", "age"], s2.appended["g"][0].r)
    out.rat("gammaNextOlder", ["older", "age"], s2.get(older).r)
    after = body[i2 + 1]
    s2c = Sym({older: "older"}).run([after])
    if list(s2c.appended) != ["g"]:
        raise Unsupported("gamma: the last interval is not appended right after the loop")
    out.rat("gammaLast", ["older"], s2c.appended["g"][0].r)
    # accumulators and loop 3
    i3 = body.index(l3)
    pre = Sym({}).run([s for s in body[i2 + 2:i3] if isinstance(s, ast.Assign)])
    tname, aname = "T", "accum"
    out.rat("gammaTInit", [], pre.get(tname).r)
    out.rat("gammaAccumInit", [], pre.get(aname).r)
    if not (isinstance(l3.iter, ast.Call) and isinstance(l3.iter.func, ast.Name) and l3.iter.func.id == "range" and len(l3.iter.args) == 2
            and isinstance(l3.target, ast.Name)):
        raise Unsupported("gamma: accumulation loop is not over range(a, b)")
    sn = Sym({"n": "n"})
    out.rat("gammaLoopLo", ["n"], sn.ev(l3.iter.args[0]).r)
    out.rat("gammaLoopHi", ["n"], sn.ev(l3.iter.args[1]).r)
    s3 = Sym({tname: "T", aname: "accum", l3.target.id: "i"}, lists={"g": "g"}).run(l3.body)
    if s3.lists["g"] is None:
        raise Unsupported("gamma: the loop does not read g")
    out.rat("gammaLoopIdx", ["i"], s3.lists["g"], "index of the interval read in round `i`")
    out.rat("gammaLoopT", ["T", "accum", "i", "g"], s3.get(tname).r)
    out.rat("gammaLoopAccum", ["T", "accum", "i", "g"], s3.get(aname).r)
    # after the loop
    post = body[i3 + 1:]
    if not isinstance(post[-1], ast.Return):
        raise Unsupported("gamma: no final return")
    s4 = Sym({tname: "T", aname: "accum", "n": "n"}, lists={"g": "g"}).run(post[:-1])
    if s4.lists["g"] is None:
        raise Unsupported("gamma: the last interval is not read after the loop")
    out.rat("gammaLastIdx", ["n"], s4.lists["g"])
    out.rat("gammaTotal", ["T", "n", "g"], s4.get(tname).r, "`T` after the last interval `g` = g[gammaLastIdx n]")
    r = s4.ev(post[-1].value)
    out.rat("gammaRetRat", ["T", "accum", "n", "g"], r.r, "returned value = gammaRetRat * sqrt(gammaRetRad); `T`, `accum` as left by the loop")
    out.rat("gammaRetRad", ["T", "accum", "n", "g"], r.q if r.q is not None else "(1 : Rat)")


# ------------------------------------------------------------------ _tree.py
def _walk_assigns(fn, name):
    return [s for s in ast.walk(fn) if isinstance(s, ast.Assign) and len(s.targets) == 1 and isinstance(s.targets[0], ast.Name)
            and s.targets[0].id == name]


def _numeric_conjunct(test, nonnumeric_ok):
    """a test `A and B` where exactly one conjunct is a numeric comparison; the others must be in `nonnumeric_ok` (unparsed)"""
    vals = test.values if isinstance(test, ast.BoolOp) and isinstance(test.op, ast.And) else [test]
    num = []
    for v in vals:
        if ast.unparse(v) in nonnumeric_ok:
            continue
        num.append(v)
    if len(num) != 1:
        raise Unsupported("test %s" % _dump(test))
    return num[0]


def k_tree(tmod, out):
    out.raw("\n/-! _tree.py: set_edge_lengths_from_node_ages -/")
    fn = find_function(tmod, "Tree.set_edge_lengths_from_node_ages")
    loops = _for_loops(_body(fn))
    if len(loops) != 1 or not _iter_call(loops[0], "preorder_node_iter"):
        raise Unsupported("set_edge_lengths_from_node_ages: loop")
    node = loops[0].target.id
    lb = loops[0].body
    if not (len(lb) == 1 and isinstance(lb[0], ast.If) and not lb[0].orelse
            and ast.unparse(lb[0].test) in ("%s._parent_node is not None" % node, "%s._parent_node" % node)):
        raise Unsupported("set_edge_lengths_from_node_ages: the root guard")
    inner = lb[0].body
    leaves = {"%s._parent_node.age" % node: "pa", "%s.age" % node: "a", "minimum_edge_length": "m"}
    sy = Sym(leaves)
    stage = 0
    var = None
    for s in inner:
        if _is_doc(s):
            continue
        if stage == 0 and isinstance(s, ast.Assign) and isinstance(s.targets[0], ast.Name):
            var = s.targets[0].id
            sy.run([s])
            out.rat("setlenRaw", ["pa", "a"], sy.get(var).r, "parent age `pa`, own age `a`")
            sy.env[var] = SV("e")
            stage = 1
        elif stage == 1 and isinstance(s, ast.If) and not s.orelse and not _raises(s.body):
            t = _numeric_conjunct(s.test, ("minimum_edge_length is not None",))
            out.boolfn("setlenClampTest", ["e", "m"], sy.test(t), "applied only when minimum_edge_length is not None")
            out.rat("setlenClampVal", ["e", "m"], Sym({var: "e", "minimum_edge_length": "m"}).run(s.body).get(var).r)
            stage = 2
        elif stage in (1, 2) and isinstance(s, ast.If) and not s.orelse and _raises(s.body):
            t = _numeric_conjunct(s.test, ("error_on_negative_edge_lengths",))
            out.boolfn("setlenNegTest", ["e"], sy.test(t), "applied only when error_on_negative_edge_lengths")
            stage = 3
        elif stage == 3 and isinstance(s, ast.Assign) and ast.unparse(s.targets[0]) == "%s.edge.length" % node \
                and isinstance(s.value, ast.Name) and s.value.id == var:
            stage = 4
        else:
            raise Unsupported("set_edge_lengths_from_node_ages: statement %s" % _dump(s))
    if stage != 4:
        raise Unsupported("set_edge_lengths_from_node_ages: expected difference, clamp, negative test, assignment")
    dm = _const(_default_literal(fn, "minimum_edge_length"))
    if dm is None:
        raise Unsupported("set_edge_lengths_from_node_ages: default minimum is not a number")
    out.rat("setlenDefaultMin", [], _lit(dm))
    out.boolfn("setlenDefaultErr", [], "true" if _pyval(_default_literal(fn, "error_on_negative_edge_lengths")) else "false")

    out.raw("\n/-! _tree.py: calc_node_ages -/")
    fn = find_function(tmod, "Tree.calc_node_ages")
    firsts = [s for s in _walk_assigns(fn, "age_to_set") if isinstance(s.value, ast.BinOp)]
    if len(firsts) != 1:
        raise Unsupported("calc_node_ages: expected one arithmetic assignment to age_to_set")
    v = Sym({"first_child.age": "age", "first_child.edge.length": "len"}).ev(firsts[0].value)
    out.rat("ultraFirst", ["age", "len"], v.r, "age of a node from its first child")
    oc = [s for s in _walk_assigns(fn, "ocnd") if isinstance(s.value, ast.BinOp)]
    if len(oc) != 1:
        raise Unsupported("calc_node_ages: expected one arithmetic assignment to ocnd")
    v = Sym({"nnd.age": "age", "nnd.edge.length": "len"}).ev(oc[0].value)
    out.rat("ultraOther", ["age", "len"], v.r, "the age another child would give")
    ds = _walk_assigns(fn, "d")
    if len(ds) != 1:
        raise Unsupported("calc_node_ages: expected one assignment to d")
    sy = Sym({"node.age": "age", "ocnd": "ocnd", "ultrametricity_precision": "p"})
    out.rat("ultraDev", ["age", "ocnd"], sy.ev(ds[0].value).r)
    rej = [s for s in ast.walk(fn) if isinstance(s, ast.If) and isinstance(s.test, ast.Compare) and isinstance(s.test.left, ast.Name)
           and s.test.left.id == "d" and any(isinstance(x, ast.Raise) for x in ast.walk(s))]
    if len(rej) != 1:
        raise Unsupported("calc_node_ages: expected one rejection test on d")
    out.boolfn("ultraRejects", ["d", "p"], Sym({"d": "d", "ultrametricity_precision": "p"}).test(rej[0].test))
    guards = [s for s in ast.walk(fn) if isinstance(s, ast.If) and isinstance(s.test, ast.UnaryOp) and isinstance(s.test.op, ast.Not)
              and isinstance(s.test.operand, ast.BoolOp) and isinstance(s.test.operand.op, ast.Or)]
    if len(guards) != 1:
        raise Unsupported("calc_node_ages: expected one `if not (... or ...)` guard")
    allowed = ("is_force_max_age", "is_force_min_age", "ultrametricity_precision is None", "ultrametricity_precision is False")
    num = [x for x in guards[0].test.operand.values if ast.unparse(x) not in allowed]
    if len(num) != 1 or sorted(ast.unparse(x) for x in guards[0].test.operand.values if ast.unparse(x) in allowed) != sorted(allowed):
        raise Unsupported("calc_node_ages: guard %s" % _dump(guards[0].test))
    out.boolfn("precSkips", ["p"], Sym({"ultrametricity_precision": "p"}).test(num[0]), "a numeric precision that disables the check")

    out.raw("\n/-! _tree.py: num_lineages_at, calc_node_root_distances, resolve_node_depths, resolve_node_ages -/")
    fn = find_function(tmod, "Tree.num_lineages_at")
    loops = _for_loops(_body(fn))
    if len(loops) != 1:
        raise Unsupported("num_lineages_at: loop")
    node = loops[0].target.id
    lb = loops[0].body
    if not (len(lb) == 1 and isinstance(lb[0], ast.If)):
        raise Unsupported("num_lineages_at: loop body")
    t0 = ast.unparse(lb[0].test)
    if t0 in ("not %s._parent_node" % node, "%s._parent_node is None" % node):
        if not all(isinstance(s, ast.Pass) for s in lb[0].body) or len(lb[0].orelse) != 1 or not isinstance(lb[0].orelse[0], ast.If):
            raise Unsupported("num_lineages_at: root branch")
        chain = _chain(lb[0].orelse[0])
    else:
        raise Unsupported("num_lineages_at: the root is not skipped first")
    leaves = {"%s.root_distance" % node: "rd", "%s._parent_node.root_distance" % node: "prd", "distance_from_root": "d", "num_lineages": "k"}
    tests, incs = [], set()
    for t, b in chain:
        if t is None:
            raise Unsupported("num_lineages_at: unconditional branch")
        tests.append(Sym(leaves).test(t))
        incs.add(Sym(leaves).run(b).get("num_lineages").r)
    if len(incs) != 1:
        raise Unsupported("num_lineages_at: branches count differently")
    out.boolfn("lineageCounts", ["rd", "prd", "d"], "(" + " || ".join(tests) + ")",
               "a non-root node at root distance `rd` (parent at `prd`) is counted at distance `d`")
    out.rat("lineageInc", ["k"], incs.pop())

    fn = find_function(tmod, "Tree.calc_node_root_distances")
    loops = _for_loops(_body(fn))
    if len(loops) != 1 or not _iter_call(loops[0], "preorder_node_iter"):
        raise Unsupported("calc_node_root_distances: loop")
    node = loops[0].target.id
    first = loops[0].body[0]
    if not (isinstance(first, ast.If) and ast.unparse(first.test) == "%s._parent_node is None" % node and first.orelse):
        raise Unsupported("calc_node_root_distances: root test")
    lv = {"%s.edge.length" % node: "len", "%s._parent_node.root_distance" % node: "prd"}
    out.rat("rootDistRoot", [], Sym(lv).run(first.body).get("%s.root_distance" % node).r)
    out.rat("rootDistStep", ["len", "prd"], Sym(lv).run(first.orelse).get("%s.root_distance" % node).r)

    fn = find_function(tmod, "Tree.resolve_node_depths")
    loops = _for_loops(_body(fn))
    if len(loops) != 1 or not _iter_call(loops[0], "preorder_node_iter"):
        raise Unsupported("resolve_node_depths: loop")
    node = loops[0].target.id
    first = loops[0].body[0]
    if not (isinstance(first, ast.If) and ast.unparse(first.test) == "%s._parent_node is None" % node and first.orelse):
        raise Unsupported("resolve_node_depths: root test")
    lam = [s for s in ast.walk(fn) if isinstance(s, ast.Assign) and isinstance(s.value, ast.Lambda)
           and ast.unparse(s.targets[0]) == "node_edge_length_fn"]
    if len(lam) != 1 or ast.unparse(lam[0].value.body) != "%s.edge.length" % lam[0].value.args.args[0].arg:
        raise Unsupported("resolve_node_depths: default node_edge_length_fn is not the edge length")
    lv = {"cache[%s._parent_node]" % node: "pd"}

    class S2(Sym):
        def ev(self, e):
            if isinstance(e, ast.Call) and isinstance(e.func, ast.Name) and e.func.id == "node_edge_length_fn" and len(e.args) == 1:
                return SV("len")
            return Sym.ev(self, e)
    root = [s for s in first.body if isinstance(s, ast.Assign)]
    out.rat("depthRoot", [], S2(lv).run(root).get("v").r)
    out.rat("depthStep", ["len", "pd"], S2(lv).run(first.orelse).get("v").r)

    fn = find_function(tmod, "Tree.resolve_node_ages")
    vs = [s for s in _walk_assigns(fn, "v")]
    if len(vs) != 1:
        raise Unsupported("resolve_node_ages: expected one assignment to v")
    md = [s for s in _walk_assigns(fn, "max_depth")]
    if len(md) != 1 or ast.unparse(md[0].value) != "max(depth_cache.values())":
        raise Unsupported("resolve_node_ages: max_depth is not max(depth_cache.values())")
    out.rat("resolveAge", ["m", "d"], Sym({"max_depth": "m", "depth_cache[node]": "d"}).ev(vs[0].value).r,
            "`m` = the largest depth of any node, `d` = the node's depth")


def generate(repo):
    mpath = os.path.join(repo, "src/dendropy/calculate/treemeasure.py")
    tpath = os.path.join(repo, "src/dendropy/datamodel/treemodel/_tree.py")
    mod = ast.parse(open(mpath).read())
    tmod = ast.parse(open(tpath).read())
    out = Out()
    out.raw("set_option linter.unusedVariables false\nnamespace DendroModel.C17Kernels\n")
    out.raw("def kabs (x : Rat) : Rat := if x < 0 then -x else x")
    _euler(mod, out)
    k_b1(mod, out)
    k_colless(mod, out)
    k_sackin(mod, out)
    k_nbar(mod, out)
    k_treeness(mod, out)
    k_gamma(mod, out)
    k_tree(tmod, out)
    out.raw("\nend DendroModel.C17Kernels")
    return "\n".join(out.lines) + "\n"
