"""Gen/C08Kernels.lean: the closed-form kernels of the pruning / extraction code, read off the current source.

* the case rule of label lookup (`TaxonNamespace._lookup_label` + `Taxon.lower_cased_label`): WHICH `str` method folds the given
  label and the stored label, and that method's table for the Latin-1 range (code points 0..255) taken from the running
  interpreter (only non-identity entries are listed);
* the node filters the four `Tree.extract_tree_with(out)_taxa(_labels)` wrappers build (boolean lambdas over `nd.taxon`), the
  constant filter flags they pass on, whether they forward `suppress_unifurcations`, and that the `_labels` ones resolve labels
  through `TaxonNamespace.get_taxa`;
* the edge-length merge performed when a node with one child is suppressed (`Tree.suppress_unifurcations`) or merged on the fly
  (`Node.extract_subtree`);
* the default values of the flags of every entry point (`suppress_unifurcations`, `update_bipartitions`, `recursive`, the two
  filter flags), and the "exactly one child" test of both mechanisms.

Anything outside the supported shapes raises Unsupported (never a guess)."""
import ast
import os

from extract import Unsupported, find_function

NAME = "C08Kernels"
FOLDS = ("lower", "upper", "casefold", "swapcase", "title", "capitalize")


def _src(repo, rel):
    with open(os.path.join(repo, rel)) as f:
        return ast.parse(f.read())


def _walk_no_nested(fn):
    """all nodes of a function body, not descending into nested defs"""
    stack = list(fn.body)
    while stack:
        n = stack.pop()
        yield n
        for c in ast.iter_child_nodes(n):
            if not isinstance(c, (ast.FunctionDef, ast.ClassDef)):
                stack.append(c)


# ------------------------------------------------------------------ case folding
def _fold_call(e):
    """`str(X).m()` or `X.m()` -> (m, X) ; else None"""
    if isinstance(e, ast.Call) and not e.args and not e.keywords and isinstance(e.func, ast.Attribute) and e.func.attr in FOLDS:
        inner = e.func.value
        if isinstance(inner, ast.Call) and isinstance(inner.func, ast.Name) and inner.func.id == "str" and len(inner.args) == 1:
            inner = inner.args[0]
        return e.func.attr, inner
    return None


def _case_rule(repo):
    tm = _src(repo, "src/dendropy/datamodel/taxonmodel.py")
    lk = find_function(tm, "TaxonNamespace._lookup_label")
    given = set()
    stored_attr = set()
    plain = False
    for n in _walk_no_nested(lk):
        if isinstance(n, ast.Assign) and len(n.targets) == 1 and isinstance(n.targets[0], ast.Name) and n.targets[0].id == "label":
            fc = _fold_call(n.value)
            if fc is None or not (isinstance(fc[1], ast.Name) and fc[1].id == "label"):
                raise Unsupported("_lookup_label reassigns label in an unsupported way: %s" % ast.dump(n.value)[:120])
            given.add(fc[0])
        if isinstance(n, ast.Compare) and len(n.ops) == 1 and isinstance(n.ops[0], ast.Eq):
            sides = [n.left, n.comparators[0]]
            names = [s for s in sides if isinstance(s, ast.Name) and s.id == "label"]
            attrs = [s for s in sides if isinstance(s, ast.Attribute) and isinstance(s.value, ast.Name) and s.value.id == "taxon"]
            if len(names) == 1 and len(attrs) == 1:
                if attrs[0].attr == "label":
                    plain = True
                else:
                    stored_attr.add(attrs[0].attr)
            elif any(isinstance(s, ast.Name) and s.id == "label" for s in sides):
                raise Unsupported("_lookup_label compares label with something unsupported: %s" % ast.dump(n)[:120])
    if not plain:
        raise Unsupported("_lookup_label: no case-sensitive comparison `label == taxon.label` found")
    if len(given) != 1 or len(stored_attr) != 1:
        raise Unsupported("_lookup_label: case-insensitive branch not of the shape label = str(label).<fold>() ; label == taxon.<attr>")
    attr = stored_attr.pop()
    # the stored side: property <attr> = property(_get_<attr>) returning str(self._label).<fold>() (cached)
    getter = find_function(tm, "Taxon._get_%s" % attr)
    stored = set()
    for n in _walk_no_nested(getter):
        fc = _fold_call(n) if isinstance(n, ast.Call) else None
        if fc is not None:
            inner = fc[1]
            if not (isinstance(inner, ast.Attribute) and inner.attr in ("_label", "label") and isinstance(inner.value, ast.Name)
                    and inner.value.id == "self"):
                raise Unsupported("Taxon._get_%s folds something else than self._label" % attr)
            stored.add(fc[0])
    if len(stored) != 1:
        raise Unsupported("Taxon._get_%s: expected exactly one fold of self._label, found %s" % (attr, sorted(stored)))
    g, s = given.pop(), stored.pop()
    if g != s:
        raise Unsupported("label lookup folds the given label with str.%s() but the stored label with str.%s()" % (g, s))
    # the setter must drop the cache
    setter = find_function(tm, "Taxon._set_label")
    resets = [n for n in _walk_no_nested(setter) if isinstance(n, ast.Assign) and isinstance(n.targets[0], ast.Attribute)
              and n.targets[0].attr == "_lower_cased_label" and isinstance(n.value, ast.Constant) and n.value.value is None]
    caches = any(isinstance(n, ast.Attribute) and n.attr == "_lower_cased_label" for n in ast.walk(getter))
    if caches and not resets:
        raise Unsupported("Taxon caches the folded label but _set_label does not reset the cache")
    return g


def _fold_table(method):
    rows = []
    for cp in range(256):
        out = [ord(c) for c in getattr(chr(cp), method)()]
        if out != [cp]:
            rows.append((cp, out))
    return rows


# ------------------------------------------------------------------ wrapper filters
def _bool_expr(e, param, setnames):
    """boolean lambda body over `param.taxon` -> Lean Bool term in variables (S : Nat → Bool) (x : Option Nat)"""
    def is_taxon(a):
        return isinstance(a, ast.Attribute) and a.attr == "taxon" and isinstance(a.value, ast.Name) and a.value.id == param

    def is_set(a):
        if isinstance(a, ast.Call) and isinstance(a.func, ast.Name) and a.func.id in ("set", "frozenset") and len(a.args) == 1:
            a = a.args[0]
        return isinstance(a, ast.Name) and a.id in setnames
    if isinstance(e, ast.BoolOp):
        op = " || " if isinstance(e.op, ast.Or) else " && "
        return "(" + op.join(_bool_expr(v, param, setnames) for v in e.values) + ")"
    if isinstance(e, ast.UnaryOp) and isinstance(e.op, ast.Not):
        return "(!" + _bool_expr(e.operand, param, setnames) + ")"
    if isinstance(e, ast.Compare) and len(e.ops) == 1 and is_taxon(e.left):
        op, r = e.ops[0], e.comparators[0]
        if isinstance(r, ast.Constant) and r.value is None and isinstance(op, (ast.Is, ast.Eq)):
            return "x.isNone"
        if isinstance(r, ast.Constant) and r.value is None and isinstance(op, (ast.IsNot, ast.NotEq)):
            return "x.isSome"
        if is_set(r) and isinstance(op, ast.In):
            return "(memS S x)"
        if is_set(r) and isinstance(op, ast.NotIn):
            return "(!memS S x)"
    raise Unsupported("filter expression outside the supported subset: %s" % ast.dump(e)[:160])


def _wrapper(tree_ast, name, by_label):
    fn = find_function(tree_ast, "Tree." + name)
    params = [a.arg for a in fn.args.args]
    coll = "labels" if by_label else "taxa"
    if coll not in params or "suppress_unifurcations" not in params:
        raise Unsupported("%s: unexpected signature %s" % (name, params))
    setnames = set()
    via_get_taxa = False
    lam = None
    call = None
    for st in fn.body:
        if isinstance(st, ast.Expr) and isinstance(st.value, ast.Constant):
            continue                                    # docstring
        if isinstance(st, ast.Assign) and len(st.targets) == 1 and isinstance(st.targets[0], ast.Name):
            tgt, v = st.targets[0].id, st.value
            if isinstance(v, ast.Lambda):
                if lam is not None or len(v.args.args) != 1:
                    raise Unsupported("%s: more than one filter lambda" % name)
                lam = (tgt, v)
                continue
            inner = v
            if isinstance(inner, ast.Call) and isinstance(inner.func, ast.Name) and inner.func.id in ("set", "frozenset", "list", "tuple") \
                    and len(inner.args) == 1:
                inner = inner.args[0]
            if isinstance(inner, ast.Name) and inner.id == coll and not by_label:
                setnames.add(tgt)
                continue
            if by_label and isinstance(inner, ast.Call) and isinstance(inner.func, ast.Attribute) and inner.func.attr == "get_taxa" \
                    and isinstance(inner.func.value, ast.Attribute) and inner.func.value.attr == "taxon_namespace" \
                    and isinstance(inner.func.value.value, ast.Name) and inner.func.value.value.id == "self":
                args = list(inner.args) + [k.value for k in inner.keywords if k.arg == "labels"]
                extra = [k.arg for k in inner.keywords if k.arg != "labels"]
                if len(args) != 1 or not (isinstance(args[0], ast.Name) and args[0].id == "labels") or extra:
                    raise Unsupported("%s: get_taxa called with other arguments than the labels" % name)
                setnames.add(tgt)
                via_get_taxa = True
                continue
            raise Unsupported("%s: unsupported statement %s" % (name, ast.dump(st)[:120]))
        if isinstance(st, ast.Return) and isinstance(st.value, ast.Call):
            call = st.value
            continue
        raise Unsupported("%s: unsupported statement %s" % (name, ast.dump(st)[:120]))
    if not by_label:
        setnames.add(coll)
    if lam is None or call is None:
        raise Unsupported("%s: no filter lambda / no returned call" % name)
    if by_label and not via_get_taxa:
        raise Unsupported("%s does not resolve its labels through self.taxon_namespace.get_taxa(labels)" % name)
    if not (isinstance(call.func, ast.Attribute) and call.func.attr == "extract_tree" and isinstance(call.func.value, ast.Name)
            and call.func.value.id == "self") or call.args:
        raise Unsupported("%s does not return self.extract_tree(keywords…)" % name)
    kws = {k.arg: k.value for k in call.keywords}
    if None in kws:
        raise Unsupported("%s passes **kwargs" % name)
    known = {"node_filter_fn", "extraction_source_reference_attr_name", "suppress_unifurcations", "is_apply_filter_to_leaf_nodes",
             "is_apply_filter_to_internal_nodes"}
    if set(kws) - known:
        raise Unsupported("%s passes unexpected keywords %s" % (name, sorted(set(kws) - known)))
    f = kws.get("node_filter_fn")
    if not (isinstance(f, ast.Name) and f.id == lam[0]):
        raise Unsupported("%s does not pass its lambda as node_filter_fn" % name)
    et = find_function(tree_ast, "Tree.extract_tree")
    dflt = _defaults(et)

    def flagval(k):
        if k not in kws:
            return dflt[k]
        v = kws[k]
        if isinstance(v, ast.Constant) and isinstance(v.value, bool):
            return v.value
        raise Unsupported("%s passes a non-constant %s" % (name, k))
    sup = kws.get("suppress_unifurcations")
    if sup is None:
        fwd = "(fun _ => %s)" % ("true" if dflt["suppress_unifurcations"] else "false")
    elif isinstance(sup, ast.Name) and sup.id == "suppress_unifurcations":
        fwd = "(fun s => s)"
    elif isinstance(sup, ast.Constant) and isinstance(sup.value, bool):
        fwd = "(fun _ => %s)" % ("true" if sup.value else "false")
    else:
        raise Unsupported("%s passes an unsupported suppress_unifurcations" % name)
    body = _bool_expr(lam[1].body, lam[1].args.args[0].arg, setnames)
    return body, flagval("is_apply_filter_to_leaf_nodes"), flagval("is_apply_filter_to_internal_nodes"), fwd


def _defaults(fn):
    names = [a.arg for a in fn.args.args]
    ds = fn.args.defaults
    out = {}
    for n, d in zip(names[len(names) - len(ds):], ds):
        if isinstance(d, ast.Constant) and (isinstance(d.value, bool) or d.value is None or isinstance(d.value, str)):
            out[n] = d.value
        else:
            raise Unsupported("%s: default of %s is not a literal" % (fn.name, n))
    return out


# ------------------------------------------------------------------ edge-length merge
def _is_len(e):
    """X.edge.length -> X's name"""
    if isinstance(e, ast.Attribute) and e.attr == "length" and isinstance(e.value, ast.Attribute) and e.value.attr == "edge":
        return ast.unparse(e.value.value)
    return None


def _none_test(t):
    """(`X.edge.length is None` / `is not None`) -> (X, is_none)"""
    if isinstance(t, ast.Compare) and len(t.ops) == 1 and isinstance(t.comparators[0], ast.Constant) and t.comparators[0].value is None:
        x = _is_len(t.left)
        if x is not None and isinstance(t.ops[0], (ast.Is, ast.IsNot)):
            return x, isinstance(t.ops[0], ast.Is)
    return None


def _merge_kernel(fn, what):
    """finds the one statement  if P.len is not None: (if C.len is None: C.len = P.len  else: C.len += P.len)  [else: …]
    and returns (Lean match text for `some c, some p`, orelse-writes-to)"""
    found = []
    for n in _walk_no_nested(fn):
        if not isinstance(n, ast.If):
            continue
        t = _none_test(n.test)
        if t is None or t[1] or len(n.body) != 1 or not isinstance(n.body[0], ast.If):
            continue
        parent = t[0]
        inner = n.body[0]
        ti = _none_test(inner.test)
        if ti is None:
            continue
        child, isnone = ti
        if child == parent:
            continue
        b_none, b_some = (inner.body, inner.orelse) if isnone else (inner.orelse, inner.body)
        if len(b_none) != 1 or len(b_some) != 1:
            raise Unsupported("%s: length merge branches are not single statements" % what)
        a = b_none[0]
        if not (isinstance(a, ast.Assign) and len(a.targets) == 1 and _is_len(a.targets[0]) == child and _is_len(a.value) == parent):
            raise Unsupported("%s: child without length does not simply take the parent's length" % what)
        s = b_some[0]
        if isinstance(s, ast.AugAssign) and isinstance(s.op, ast.Add) and _is_len(s.target) == child and _is_len(s.value) == parent:
            both = "c + p"
        elif isinstance(s, ast.Assign) and len(s.targets) == 1 and _is_len(s.targets[0]) == child and isinstance(s.value, ast.BinOp) \
                and isinstance(s.value.op, ast.Add) and sorted([_is_len(s.value.left) or "?", _is_len(s.value.right) or "?"]) == sorted([child, parent]):
            both = "c + p" if _is_len(s.value.left) == child else "p + c"
        else:
            raise Unsupported("%s: child with length is not increased by the parent's length: %s" % (what, ast.dump(s)[:120]))
        # the outer else may only write to something that is not the child (extract_subtree has such a write)
        other = []
        for st in n.orelse:
            if isinstance(st, ast.Assign) and len(st.targets) == 1 and _is_len(st.targets[0]) not in (None, child, parent):
                other.append(_is_len(st.targets[0]))
            elif isinstance(st, ast.Pass):
                pass
            else:
                raise Unsupported("%s: parent without length: unsupported statement %s" % (what, ast.dump(st)[:120]))
        found.append((both, other))
    if len(found) != 1:
        raise Unsupported("%s: expected exactly one edge-length merge, found %d" % (what, len(found)))
    return found[0]


def _one_child_tests(fn, what):
    """every `len(X) == k` / `k == len(X)` comparison in the function -> list of k"""
    ks = []
    for n in _walk_no_nested(fn):
        if isinstance(n, ast.Compare) and len(n.ops) == 1:
            sides = [n.left, n.comparators[0]]
            lens = [s for s in sides if isinstance(s, ast.Call) and isinstance(s.func, ast.Name) and s.func.id == "len"]
            consts = [s for s in sides if isinstance(s, ast.Constant) and isinstance(s.value, int) and not isinstance(s.value, bool)]
            if len(lens) == 1 and len(consts) == 1:
                if not isinstance(n.ops[0], ast.Eq):
                    raise Unsupported("%s: child-count test is not an equality" % what)
                ks.append(consts[0].value)
    if len(ks) != 1:
        raise Unsupported("%s: expected exactly one `len(children) == k` test, found %s" % (what, ks))
    return ks[0]


def _b(v):
    return "true" if v else "false"


def generate(repo):
    method = _case_rule(repo)
    rows = _fold_table(method)
    tr = _src(repo, "src/dendropy/datamodel/treemodel/_tree.py")
    nd = _src(repo, "src/dendropy/datamodel/treemodel/_node.py")
    out = ["import DendroModel.Basic.Frac", "namespace DendroModel.C08Kernels", "open DendroModel", "",
           "/-- the `str` method that folds both the given and the stored label in case-insensitive lookup -/",
           "def foldMethod : String := \"%s\"" % method,
           "/-- non-identity entries of that method for code points 0..255 (from the running interpreter) -/",
           "def foldTable : List (Nat × List Nat) := [%s]" % ", ".join("(%d, [%s])" % (c, ", ".join(map(str, o))) for c, o in rows),
           "def foldLimit : Nat := 256",
           "def foldCp (c : Nat) : List Nat := match foldTable.lookup c with | some r => r | none => [c]", "",
           "def memS (S : Nat → Bool) : Option Nat → Bool", "  | some k => S k", "  | none => false", ""]
    for name, by_label, lean in (("extract_tree_with_taxa", False, "withTaxa"), ("extract_tree_without_taxa", False, "withoutTaxa"),
                                 ("extract_tree_with_taxa_labels", True, "withLabels"),
                                 ("extract_tree_without_taxa_labels", True, "withoutLabels")):
        body, fl, fi, fwd = _wrapper(tr, name, by_label)
        out += ["/-- node filter of Tree.%s (S = the taxa given%s) -/" % (name, " = get_taxa(labels)" if by_label else ""),
                "def %sFilter (S : Nat → Bool) (x : Option Nat) : Bool := %s" % (lean, body),
                "def %sLeafFlag : Bool := %s" % (lean, _b(fl)), "def %sInnerFlag : Bool := %s" % (lean, _b(fi)),
                "def %sSup : Bool → Bool := %s" % (lean, fwd), ""]
    for fn, what, lean in ((find_function(tr, "Tree.suppress_unifurcations"), "Tree.suppress_unifurcations", "Suppress"),
                           (find_function(nd, "Node.extract_subtree"), "Node.extract_subtree", "Extract")):
        both, other = _merge_kernel(fn, what)
        out += ["/-- the edge length a single child ends up with when its parent is merged into it (%s) -/" % what,
                "def merge%s (child parent : Option Frac) : Option Frac :=" % lean,
                "  match parent with", "  | none => child", "  | some p => match child with", "    | none => some p",
                "    | some c => some (%s)" % both,
                "/-- when the parent has no length the code additionally writes to: %s -/" % (", ".join(other) or "nothing"),
                "def merge%sOtherWrites : Nat := %d" % (lean, len(other)),
                "def oneChild%s : Nat := %d" % (lean, _one_child_tests(fn, what)), ""]
    dflt = []
    for q, lean in (("Tree.extract_tree", "extractTree"), ("Tree.prune_taxa", "pruneTaxa"), ("Tree.prune_taxa_with_labels", "pruneLabels"),
                    ("Tree.retain_taxa", "retainTaxa"), ("Tree.retain_taxa_with_labels", "retainLabels"),
                    ("Tree.filter_leaf_nodes", "filterLeaves"), ("Tree.prune_leaves_without_taxa", "plwt"),
                    ("Tree.prune_subtree", "pruneSubtree"), ("Tree.extract_tree_with_taxa", "withTaxa"),
                    ("Tree.extract_tree_without_taxa", "withoutTaxa"), ("Tree.extract_tree_with_taxa_labels", "withLabels"),
                    ("Tree.extract_tree_without_taxa_labels", "withoutLabels")):
        d = _defaults(find_function(tr, q))
        for k in ("suppress_unifurcations", "update_bipartitions", "recursive", "is_apply_filter_to_leaf_nodes",
                  "is_apply_filter_to_internal_nodes"):
            if k in d:
                if not isinstance(d[k], bool):
                    raise Unsupported("%s: default of %s is not a bool" % (q, k))
                dflt.append("(\"%s.%s\", %s)" % (lean, k, _b(d[k])))
    d = _defaults(find_function(nd, "Node.extract_subtree"))
    for k in ("suppress_unifurcations", "is_apply_filter_to_leaf_nodes", "is_apply_filter_to_internal_nodes"):
        if not isinstance(d.get(k), bool):
            raise Unsupported("Node.extract_subtree: default of %s is not a bool" % k)
        dflt.append("(\"extractSubtree.%s\", %s)" % (k, _b(d[k])))
    out += ["/-- default values of the boolean flags of every entry point -/",
            "def defaults : List (String × Bool) := [%s]" % ", ".join(dflt), "", "end DendroModel.C08Kernels"]
    return "\n".join(out) + "\n"
