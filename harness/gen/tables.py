"""Gen/Tables.lean: constant tables read off the current source: protect character classes,
the NexusTokenizer delimiter sets, the rooting tokens."""
import ast
import os
import re
from extract import Unsupported, regex_class, lean_chars, find_function

NAME = "Tables"


def _named_literals(tree, name):
    """string literals bound to `name` by a plain assignment at module or class level"""
    found = []
    for scope in [tree] + [n for n in ast.walk(tree) if isinstance(n, ast.ClassDef)]:
        for st in scope.body:
            if isinstance(st, ast.Assign) and len(st.targets) == 1 and isinstance(st.targets[0], ast.Name) \
                    and st.targets[0].id == name and isinstance(st.value, ast.Constant) and isinstance(st.value.value, str):
                found.append(st.value.value)
    return found


def _str_const(node, tree=None):
    """a string literal, or a name / `self.X` / `Class.X` bound exactly once (module or class level) to one"""
    if isinstance(node, ast.Constant) and isinstance(node.value, str):
        return node.value
    if tree is not None:
        name = node.id if isinstance(node, ast.Name) else (node.attr if isinstance(node, ast.Attribute) else None)
        if name is not None:
            found = _named_literals(tree, name)
            # the name must not be re-bound anywhere else (attribute assignment, augmented assignment, second binding)
            rebound = [n for n in ast.walk(tree) if isinstance(n, (ast.Assign, ast.AugAssign, ast.AnnAssign))
                       for t in (n.targets if isinstance(n, ast.Assign) else [n.target])
                       if (isinstance(t, ast.Attribute) and t.attr == name)]
            if len(found) == 1 and not rebound:
                return found[0]
    raise Unsupported("expected a string literal, got %s" % ast.dump(node)[:80])


def generate(repo):
    np_path = os.path.join(repo, "src/dendropy/dataio/nexusprocessing.py")
    nw_path = os.path.join(repo, "src/dendropy/dataio/newickwriter.py")
    np_tree = ast.parse(open(np_path).read())
    nw_tree = ast.parse(open(nw_path).read())
    # default protect_regex of escape_nexus_token
    esc = find_function(np_tree, "escape_nexus_token")
    names = [a.arg for a in esc.args.args]
    defaults = dict(zip(names[len(names) - len(esc.args.defaults):], esc.args.defaults))
    if "protect_regex" not in defaults:
        raise Unsupported("escape_nexus_token has no protect_regex default")
    protect_default = regex_class(_str_const(defaults["protect_regex"], np_tree))
    # override handed over by NewickWriter._render_node_tag (absent => the default applies)
    rnt = find_function(nw_tree, "NewickWriter._render_node_tag")
    protect_newick = None
    for n in ast.walk(rnt):
        if isinstance(n, ast.Call) and getattr(n.func, "attr", getattr(n.func, "id", None)) == "escape_nexus_token":
            for kw in n.keywords:
                if kw.arg == "protect_regex":
                    protect_newick = regex_class(_str_const(kw.value, nw_tree))
    if protect_newick is None:
        protect_newick = protect_default
    # NexusTokenizer.__init__ -> Tokenizer.__init__(uncaptured_delimiters=..., ...)
    init = find_function(np_tree, "NexusTokenizer.__init__")
    sets = {}
    for n in ast.walk(init):
        if isinstance(n, ast.Call) and getattr(n.func, "attr", None) == "__init__":
            for kw in n.keywords:
                if kw.arg in ("uncaptured_delimiters", "captured_delimiters", "quote_chars", "comment_begin", "comment_end"):
                    v = kw.value
                    if isinstance(v, ast.Call) and getattr(v.func, "id", None) in ("list", "set", "tuple") and len(v.args) == 1:
                        v = v.args[0]
                    if isinstance(v, (ast.List, ast.Tuple, ast.Set)):
                        sets[kw.arg] = [_str_const(e) for e in v.elts]
                    else:
                        sets[kw.arg] = list(_str_const(v))
                elif kw.arg in ("escape_quote_by_doubling", "escape_quote_by_backslash", "escape_by_backslash", "capture_comments"):
                    if not isinstance(kw.value, ast.Constant):
                        raise Unsupported("non-literal %s" % kw.arg)
                    sets[kw.arg] = kw.value.value
    for k in ("uncaptured_delimiters", "captured_delimiters", "quote_chars", "comment_begin", "comment_end"):
        if k not in sets:
            raise Unsupported("NexusTokenizer does not pass %s literally" % k)
        if any(len(c) != 1 for c in sets[k]):
            raise Unsupported("multi-character member in %s" % k)
    out = ["namespace DendroModel.Tables", ""]
    out.append("def protectDefault : List Char := " + lean_chars(protect_default))
    out.append("def protectNewick : List Char := " + lean_chars(protect_newick))
    out.append("def tokUncaptured : List Char := " + lean_chars(sets["uncaptured_delimiters"]))
    out.append("def tokCaptured : List Char := " + lean_chars(sets["captured_delimiters"]))
    out.append("def tokQuote : List Char := " + lean_chars(sets["quote_chars"]))
    out.append("def tokCommentBegin : List Char := " + lean_chars(sets["comment_begin"]))
    out.append("def tokCommentEnd : List Char := " + lean_chars(sets["comment_end"]))
    for k, lean in (("escape_quote_by_doubling", "tokQuoteDoubling"), ("capture_comments", "tokCaptureComments")):
        v = sets.get(k)
        out.append("def %s : Bool := %s" % (lean, "true" if v else "false"))
    out.append("")
    out.append("end DendroModel.Tables")
    return "\n".join(out) + "\n"
