"""Gen/C06Kernels.lean: the decision kernels of the TreeArray merge/accession code and of the SumTrees worker protocol,
translated statement by statement from the *current* source (tie A of property C06):

* `TreeArray.update`            -> `update`            (no-op test, the four compatibility tests in source order, adoption,
                                                        the four list concatenations, the distribution merge)
* `TreeArray.validate_rooting`  -> `validateRooting`
* `TreeArray.__len__`           -> which list `len(array)` measures
* `TreeArray.extend/__iadd__`   -> `extendIsUpdate` / `iaddIsExtend` (thin wrappers)
* `TreeArray.add_tree`          -> `weightToUse` (weight kernel), `accession` (append / insert into the four lists)
* `TreeArray.calculate_log_product_of_split_supports` -> `qualifies`, `replacesMax` (strict first maximum)
* `TreeArray.read_from_files` and sumtrees `_read_into_tree_array` -> `readStep` / `readStepLogged` (per-source burn-in)
* sumtrees `TreeAnalysisWorker.run` / `TreeProcessor.parallel_analyze_trees` / `analyze_trees` -> blocking get, end-of-work
  marker test, markers posted, workers started, results awaited, exception re-raise, serial/parallel switch.

The generated file imports nothing.  Anything outside the supported statement subset raises `Unsupported`."""
import ast
import os

from extract import Unsupported, find_function

NAME = "C06Kernels"

FIELDS = {"_is_rooted_trees": ("rooting", "obool"), "ignore_edge_lengths": ("ignoreLens", "bool"),
          "ignore_node_ages": ("ignoreAges", "bool"), "use_tree_weights": ("useWeights", "bool"),
          "_tree_split_bitmasks": ("splits", "list"), "_tree_edge_lengths": ("elens", "list"),
          "_tree_leafset_bitmasks": ("leafsets", "list"), "_tree_weights": ("weights", "list"),
          "_split_distribution": ("sd", "sd")}
EXC = {"IncompatibleRootingTreeArrayUpdate": "incRooting", "IncompatibleEdgeLengthsTreeArrayUpdate": "incLens",
       "IncompatibleNodeAgesTreeArrayUpdate": "incAges", "IncompatibleTreeWeightsTreeArrayUpdate": "incWeights",
       "MixedRootingError": "mixedRooting"}
CMPN = {ast.Eq: "==", ast.NotEq: "!=", ast.Lt: "<", ast.LtE: "≤", ast.Gt: ">", ast.GtE: "≥"}


def _is_doc(s):
    return isinstance(s, ast.Expr) and isinstance(s.value, ast.Constant) and isinstance(s.value.value, str)


class TA(object):
    """translator of the TreeArray methods that only test settings and move lists around"""

    def __init__(self, len_field, objs=("self", "other"), params=None):
        self.len_field = len_field
        self.objs = objs
        self.params = params or {}       # name -> (lean name, type)

    # ---- values: (lean text, type)
    def value(self, e):
        if isinstance(e, ast.Constant):
            if e.value is None:
                return "none", "obool"
            if isinstance(e.value, bool):
                return ("true" if e.value else "false"), "bool"
            if isinstance(e.value, int):
                return str(e.value), "nat" if e.value >= 0 else "int"
            raise Unsupported("constant %r" % (e.value,))
        if isinstance(e, ast.Name) and e.id in self.params:
            return self.params[e.id]
        if isinstance(e, ast.Attribute) and isinstance(e.value, ast.Name) and e.value.id in self.objs and e.attr in FIELDS:
            f, t = FIELDS[e.attr]
            return "%s.%s" % (e.value.id, f), t
        if isinstance(e, ast.Call) and isinstance(e.func, ast.Name) and e.func.id == "len" and len(e.args) == 1 and not e.keywords:
            a = e.args[0]
            if isinstance(a, ast.Name) and a.id in self.objs:
                return "%s.%s.length" % (a.id, self.len_field), "nat"
            v, t = self.value(a)
            if t == "list":
                return "%s.length" % v, "nat"
        raise Unsupported("value %s" % ast.dump(e)[:120])

    def lift(self, v, t, want):
        if t == want:
            return v
        if t == "bool" and want == "obool":
            return "(some %s)" % v
        raise Unsupported("cannot compare a %s with a %s" % (t, want))

    def cond(self, e):
        if isinstance(e, ast.BoolOp):
            return "(" + (" || " if isinstance(e.op, ast.Or) else " && ").join(self.cond(v) for v in e.values) + ")"
        if isinstance(e, ast.UnaryOp) and isinstance(e.op, ast.Not):
            return "(!%s)" % self.cond(e.operand)
        if isinstance(e, ast.Compare) and len(e.ops) == 1:
            op = e.ops[0]
            (l, lt), (r, rt) = self.value(e.left), self.value(e.comparators[0])
            if isinstance(op, (ast.Is, ast.IsNot, ast.Eq, ast.NotEq)) and "nat" not in (lt, rt):
                # `is` on None/True/False is equality of the three singletons (the settings are genuine bools)
                want = "obool" if "obool" in (lt, rt) else "bool"
                if lt not in ("bool", "obool") or rt not in ("bool", "obool"):
                    raise Unsupported("identity test on %s/%s" % (lt, rt))
                sym = "==" if isinstance(op, (ast.Is, ast.Eq)) else "!="
                return "(%s %s %s)" % (self.lift(l, lt, want), sym, self.lift(r, rt, want))
            if type(op) in CMPN and lt == "nat" and rt == "nat":
                if isinstance(op, (ast.Eq, ast.NotEq)):
                    return "(%s %s %s)" % (l, CMPN[type(op)], r)
                return "(decide (%s %s %s))" % (l, CMPN[type(op)], r)
            raise Unsupported("comparison %s" % ast.dump(e)[:120])
        v, t = self.value(e)       # truthiness
        if t == "nat":
            return "(%s != 0)" % v
        if t == "bool":
            return v
        if t == "obool":
            return "(%s == some true)" % v
        if t == "list":
            return "(!%s.isEmpty)" % v
        raise Unsupported("truthiness of %s" % t)

    # ---- statements
    def harmless(self, s):
        """message-only code: local string constants, and branches made of those"""
        if _is_doc(s) or isinstance(s, ast.Pass):
            return True
        if isinstance(s, ast.Assign) and all(isinstance(t, ast.Name) and t.id not in self.params for t in s.targets) \
                and isinstance(s.value, ast.Constant) and isinstance(s.value.value, str):
            return True
        if isinstance(s, ast.If):
            self.cond(s.test)      # must still be a pure test
            return all(self.harmless(x) for x in s.body + s.orelse)
        return False

    def exc_of(self, s):
        e = s.exc
        f = e.func if isinstance(e, ast.Call) else e
        name = f.attr if isinstance(f, ast.Attribute) else (f.id if isinstance(f, ast.Name) else None)
        if name not in EXC:
            raise Unsupported("raise of %s" % (ast.dump(e)[:100] if e is not None else "nothing"))
        return EXC[name]

    def block(self, stmts, ind):
        pad = "  " * ind
        if not stmts:
            return pad + ".ok self"
        s, rest = stmts[0], list(stmts[1:])
        if self.harmless(s):
            return self.block(rest, ind)
        if isinstance(s, ast.Return):
            if s.value is not None and not (isinstance(s.value, ast.Name) and s.value.id == "self"):
                raise Unsupported("return of a value")
            return pad + ".ok self"
        if isinstance(s, ast.Raise):
            return pad + ".error .%s" % self.exc_of(s)
        if isinstance(s, ast.If):
            return ("%sif %s then\n%s\n%selse\n%s" % (pad, self.cond(s.test), self.block(list(s.body) + rest, ind + 1), pad,
                                                      self.block(list(s.orelse) + rest, ind + 1)))
        if isinstance(s, ast.Assign) and len(s.targets) == 1:
            t = s.targets[0]
            if isinstance(t, ast.Attribute) and isinstance(t.value, ast.Name) and t.value.id == "self" and t.attr in FIELDS:
                f, ft = FIELDS[t.attr]
                v, vt = self.value(s.value)
                return "%slet self := { self with %s := %s }\n" % (pad, f, self.lift(v, vt, ft)) + self.block(rest, ind)
        if isinstance(s, ast.Expr) and isinstance(s.value, ast.Call) and isinstance(s.value.func, ast.Attribute) \
                and len(s.value.args) == 1 and not s.value.keywords:
            c = s.value
            tgt, meth = c.func.value, c.func.attr
            if isinstance(tgt, ast.Attribute) and isinstance(tgt.value, ast.Name) and tgt.value.id == "self" and tgt.attr in FIELDS:
                f, ft = FIELDS[tgt.attr]
                v, vt = self.value(c.args[0])
                if meth == "extend" and ft == "list" and vt == "list":
                    return "%slet self := { self with %s := self.%s ++ %s }\n" % (pad, f, f, v) + self.block(rest, ind)
                if meth == "update" and ft == "sd" and vt == "sd":
                    return "%slet self := { self with sd := mergeSD self.sd %s }\n" % (pad, v) + self.block(rest, ind)
        raise Unsupported("statement %s" % ast.dump(s)[:160])


def _len_field(cls_tree):
    fn = find_function(cls_tree, "TreeArray.__len__")
    body = [s for s in fn.body if not _is_doc(s)]
    if len(body) == 1 and isinstance(body[0], ast.Return):
        v = body[0].value
        if isinstance(v, ast.Call) and isinstance(v.func, ast.Name) and v.func.id == "len" and len(v.args) == 1:
            a = v.args[0]
            if isinstance(a, ast.Attribute) and isinstance(a.value, ast.Name) and a.value.id == "self" \
                    and a.attr in FIELDS and FIELDS[a.attr][1] == "list":
                return FIELDS[a.attr][0]
    raise Unsupported("TreeArray.__len__ is not `return len(self.<one of the four lists>)`")


def _is_self_call(e, meth, argname):
    return isinstance(e, ast.Call) and isinstance(e.func, ast.Attribute) and isinstance(e.func.value, ast.Name) \
        and e.func.value.id == "self" and e.func.attr == meth and len(e.args) == 1 and not e.keywords \
        and isinstance(e.args[0], ast.Name) and e.args[0].id == argname


def _wrapper(tree, qual, meth):
    """`qual(self, x)` = optional asserts, `self.meth(x)`, `return self`   or   `return self.meth(x)`"""
    fn = find_function(tree, qual)
    arg = [a.arg for a in fn.args.args if a.arg != "self"]
    if len(arg) != 1:
        raise Unsupported("%s signature" % qual)
    body = [s for s in fn.body if not _is_doc(s) and not isinstance(s, ast.Assert)]
    if len(body) == 1 and isinstance(body[0], ast.Return) and _is_self_call(body[0].value, meth, arg[0]):
        return True
    if len(body) == 2 and isinstance(body[0], ast.Expr) and _is_self_call(body[0].value, meth, arg[0]) \
            and isinstance(body[1], ast.Return) and isinstance(body[1].value, ast.Name) and body[1].value.id == "self":
        return True
    raise Unsupported("%s is not a thin wrapper of self.%s" % (qual, meth))


# ------------------------------------------------------------------------------------------ add_tree
VALUE_OF = {"splits": "splits", "edge_lengths": "elens", "weight_to_use": "weight"}


def _acc_value(e):
    if isinstance(e, ast.Name) and e.id in VALUE_OF:
        return VALUE_OF[e.id]
    if isinstance(e, ast.Attribute) and e.attr == "leafset_bitmask":
        return "leafset"
    raise Unsupported("accessioned value %s" % ast.dump(e)[:100])


def _accession(fn):
    """the `if index is None: append x4 else: insert x4` block of add_tree"""
    blk = None
    for s in fn.body:
        if isinstance(s, ast.If) and isinstance(s.test, ast.Compare) and isinstance(s.test.left, ast.Name) \
                and s.test.left.id == "index" and len(s.test.ops) == 1 and isinstance(s.test.ops[0], (ast.Is, ast.IsNot, ast.Eq, ast.NotEq)) \
                and isinstance(s.test.comparators[0], ast.Constant) and s.test.comparators[0].value is None:
            blk = s
    if blk is None:
        raise Unsupported("add_tree: no `if index is None` block")
    none_body, some_body = (blk.body, blk.orelse) if isinstance(blk.test.ops[0], (ast.Is, ast.Eq)) else (blk.orelse, blk.body)

    def branch(stmts, meth):
        out = []
        for s in stmts:
            if isinstance(s, ast.Assign) and len(s.targets) == 1 and isinstance(s.targets[0], ast.Name) and s.targets[0].id == "index":
                continue      # the returned position, not part of the state
            if isinstance(s, ast.Expr) and isinstance(s.value, ast.Call) and isinstance(s.value.func, ast.Attribute) and not s.value.keywords:
                c = s.value
                tgt = c.func.value
                if c.func.attr == meth and isinstance(tgt, ast.Attribute) and isinstance(tgt.value, ast.Name) and tgt.value.id == "self" \
                        and tgt.attr in FIELDS and FIELDS[tgt.attr][1] == "list":
                    f = FIELDS[tgt.attr][0]
                    if meth == "append" and len(c.args) == 1:
                        out.append("%s := self.%s ++ [%s]" % (f, f, _acc_value(c.args[0])))
                        continue
                    if meth == "insert" and len(c.args) == 2 and isinstance(c.args[0], ast.Name) and c.args[0].id == "index":
                        out.append("%s := ins i %s self.%s" % (f, _acc_value(c.args[1]), f))
                        continue
            raise Unsupported("add_tree accession statement %s" % ast.dump(s)[:120])
        if len(out) != len(set(o.split(" :=")[0] for o in out)):
            raise Unsupported("add_tree: a list is written twice")
        return "{ self with " + ", ".join(out) + " }" if out else "self"
    return ("def accession {α β γ δ σ : Type} (ins : {τ : Type} → Int → τ → List τ → List τ) (self : KTA α β γ δ σ) (index : Option Int)\n"
            "    (splits : α) (elens : β) (leafset : γ) (weight : δ) : KTA α β γ δ σ :=\n"
            "  match index with\n  | none => %s\n  | some i => %s\n" % (branch(none_body, "append"), branch(some_body, "insert")))


def _weight(fn):
    """`if tree.weight is not None and self.use_tree_weights: weight_to_use = float(tree.weight) else: weight_to_use = 1.0`"""
    for s in fn.body:
        if isinstance(s, ast.If) and len(s.body) == 1 and len(s.orelse) == 1 and all(
                isinstance(b, ast.Assign) and len(b.targets) == 1 and isinstance(b.targets[0], ast.Name) and b.targets[0].id == "weight_to_use"
                for b in (s.body[0], s.orelse[0])):
            def val(e):
                if isinstance(e, ast.Constant) and e.value in (1, 1.0) and not isinstance(e.value, bool):
                    return "one"
                if isinstance(e, ast.Call) and isinstance(e.func, ast.Name) and e.func.id == "float" and len(e.args) == 1:
                    e = e.args[0]
                if isinstance(e, ast.Attribute) and isinstance(e.value, ast.Name) and e.value.id == "tree" and e.attr == "weight":
                    return "(treeWeight.getD one)"
                raise Unsupported("weight value %s" % ast.dump(e)[:100])

            def test(e):
                if isinstance(e, ast.BoolOp):
                    return "(" + (" || " if isinstance(e.op, ast.Or) else " && ").join(test(v) for v in e.values) + ")"
                if isinstance(e, ast.UnaryOp) and isinstance(e.op, ast.Not):
                    return "(!%s)" % test(e.operand)
                if isinstance(e, ast.Compare) and len(e.ops) == 1 and isinstance(e.ops[0], (ast.Is, ast.IsNot, ast.Eq, ast.NotEq)) \
                        and isinstance(e.left, ast.Attribute) and isinstance(e.left.value, ast.Name) and e.left.value.id == "tree" \
                        and e.left.attr == "weight" and isinstance(e.comparators[0], ast.Constant) and e.comparators[0].value is None:
                    return "treeWeight.isSome" if isinstance(e.ops[0], (ast.IsNot, ast.NotEq)) else "treeWeight.isNone"
                if isinstance(e, ast.Attribute) and isinstance(e.value, ast.Name) and e.value.id == "self" and e.attr == "use_tree_weights":
                    return "useTreeWeights"
                raise Unsupported("weight test %s" % ast.dump(e)[:100])
            return ("def weightToUse {δ : Type} (one : δ) (treeWeight : Option δ) (useTreeWeights : Bool) : δ :=\n"
                    "  if %s then %s else %s\n" % (test(s.test), val(s.body[0].value), val(s.orelse[0].value)))
    raise Unsupported("add_tree: weight kernel not found")


# ------------------------------------------------------------------------------------------ credibility scores
def _scores(fn):
    defaults = dict(zip([a.arg for a in fn.args.args][len(fn.args.args) - len(fn.args.defaults):], fn.args.defaults))
    d = defaults.get("include_external_splits")
    if not (isinstance(d, ast.Constant) and isinstance(d.value, bool)):
        raise Unsupported("default of include_external_splits")
    qual = repl = None
    skip0 = None
    for n in ast.walk(fn):
        if isinstance(n, ast.If):
            names = {x.id for x in ast.walk(n.test) if isinstance(x, ast.Name)}
            if "include_external_splits" in names:
                qual = n

                def q(e):
                    if isinstance(e, ast.BoolOp):
                        return "(" + (" || " if isinstance(e.op, ast.Or) else " && ").join(q(v) for v in e.values) + ")"
                    if isinstance(e, ast.UnaryOp) and isinstance(e.op, ast.Not):
                        return "(!%s)" % q(e.operand)
                    if isinstance(e, ast.Name) and e.id == "include_external_splits":
                        return "include_external_splits"
                    if isinstance(e, ast.Compare) and len(e.ops) == 1 and isinstance(e.ops[0], (ast.Eq, ast.NotEq)) \
                            and {getattr(e.left, "id", None), getattr(e.comparators[0], "id", None)} == {"split_bitmask", "tree_leafset_bitmask"}:
                        return "(split_bitmask %s tree_leafset_bitmask)" % ("==" if isinstance(e.ops[0], ast.Eq) else "!=")
                    if isinstance(e, ast.Call) and isinstance(e.func, ast.Attribute) and e.func.attr == "is_trivial_bitmask" \
                            and [getattr(a, "id", None) for a in e.args] == ["split_bitmask", "tree_leafset_bitmask"] and not e.keywords:
                        return "(isTrivial split_bitmask tree_leafset_bitmask)"
                    raise Unsupported("qualifying test %s" % ast.dump(e)[:120])
                qual_txt = q(n.test)
                inner = [s for s in n.body if isinstance(s, ast.If)]
                skip0 = len(inner) == 1 and isinstance(inner[0].test, ast.Name) and inner[0].test.id == "split_support" and not inner[0].orelse
            if "max_score" in names and any(isinstance(b, ast.Assign) and getattr(b.targets[0], "id", None) == "max_score" for b in n.body):
                repl = n

                def r(e):
                    if isinstance(e, ast.BoolOp):
                        return "(" + (" || " if isinstance(e.op, ast.Or) else " && ").join(r(v) for v in e.values) + ")"
                    if isinstance(e, ast.Compare) and len(e.ops) == 1:
                        l, rr, op = e.left, e.comparators[0], e.ops[0]
                        if isinstance(l, ast.Name) and l.id == "max_score" and isinstance(rr, ast.Constant) and rr.value is None \
                                and isinstance(op, (ast.Is, ast.Eq)):
                            return "max_score.isNone"
                        ids = (getattr(l, "id", None), getattr(rr, "id", None))
                        if set(ids) == {"max_score", "log_product_of_split_support"} and type(op) in (ast.Lt, ast.LtE, ast.Gt, ast.GtE):
                            a, b = ("m", "score") if ids[0] == "max_score" else ("score", "m")
                            t = {ast.Lt: "lt %s %s" % (a, b), ast.Gt: "lt %s %s" % (b, a),
                                 ast.LtE: "!(lt %s %s)" % (b, a), ast.GtE: "!(lt %s %s)" % (a, b)}[type(op)]
                            return "(match max_score with | some m => %s | none => false)" % t
                    raise Unsupported("maximum test %s" % ast.dump(e)[:120])
                repl_txt = r(n.test)
                tgt = {getattr(b.targets[0], "id", None) for b in n.body if isinstance(b, ast.Assign)}
                if tgt != {"max_score", "max_score_tree_idx"}:
                    raise Unsupported("maximum update assigns %s" % sorted(map(str, tgt)))
    if qual is None or repl is None or not skip0:
        raise Unsupported("calculate_log_product_of_split_supports: kernels not found")
    return ("def includeExternalDefault : Bool := %s\n\n"
            "def qualifies (isTrivial : Nat → Nat → Bool) (include_external_splits : Bool) (split_bitmask tree_leafset_bitmask : Nat) : Bool :=\n  %s\n\n"
            "/-- supports that are zero are skipped (`if split_support:`) -/\ndef skipsZeroSupport : Bool := true\n\n"
            "def replacesMax {σ : Type} (lt : σ → σ → Bool) (max_score : Option σ) (score : σ) : Bool :=\n  %s\n"
            % ("true" if d.value else "false", qual_txt, repl_txt))


# ------------------------------------------------------------------------------------------ burn-in loops
LOG_NAMES = {"info_message_func", "error_message_func", "_log_progress"}
LOG_LOCALS = {"source_name"}


def _loop_of(fn, var):
    for n in ast.walk(fn):
        if isinstance(n, ast.For) and isinstance(n.iter, ast.Call) and getattr(n.iter.func, "id", None) == "enumerate" \
                and isinstance(n.iter.args[0], ast.Name) and n.iter.args[0].id == var:
            return n
    raise Unsupported("no `for ... in enumerate(%s)` loop in %s" % (var, fn.name))


def _init_none(fn, name):
    for n in ast.walk(fn):
        if isinstance(n, ast.Assign) and len(n.targets) == 1 and getattr(n.targets[0], "id", None) == name \
                and isinstance(n.value, ast.Constant) and n.value.value is None:
            return True
    return False


def _read_step(fn, target, lean_name, array="self"):
    loop = _loop_of(fn, "tree_yielder")
    if not (_init_none(fn, "current_source_index") and _init_none(fn, "current_tree_offset")):
        raise Unsupported("%s: the source index / tree offset do not start undefined" % fn.name)

    def loggy(s):
        if isinstance(s, ast.Expr) and isinstance(s.value, ast.Call) and getattr(s.value.func, "id", None) in LOG_NAMES:
            return True
        if isinstance(s, ast.Assign) and all(getattr(t, "id", None) in LOG_LOCALS for t in s.targets):
            return True
        if isinstance(s, ast.If):
            names = {x.id for x in ast.walk(s.test) if isinstance(x, ast.Name)}
            return names <= (LOG_LOCALS | {"len", "tree_sources"}) and all(loggy(x) for x in s.body + s.orelse)
        return False

    def nat(e):
        if isinstance(e, ast.Name) and e.id == "current_tree_offset":
            return "off"
        if isinstance(e, ast.Name) and e.id == target:
            return "target"
        if isinstance(e, ast.Constant) and isinstance(e.value, int) and not isinstance(e.value, bool) and e.value >= 0:
            return str(e.value)
        raise Unsupported("offset expression %s" % ast.dump(e)[:100])

    def test(e):
        if isinstance(e, ast.Compare) and len(e.ops) == 1:
            l, r, op = e.left, e.comparators[0], e.ops[0]
            ids = {getattr(l, "id", None), getattr(r, "id", None)}
            if ids == {"current_source_index", "current_yielder_index"} and isinstance(op, (ast.NotEq, ast.IsNot, ast.Eq, ast.Is)):
                return "(src %s some yielderIndex)" % ("!=" if isinstance(op, (ast.NotEq, ast.IsNot)) else "==")
            if type(op) in (ast.Lt, ast.LtE, ast.Gt, ast.GtE):
                return "(decide (%s %s %s))" % (nat(l), CMPN[type(op)], nat(r))
        raise Unsupported("loop test %s" % ast.dump(e)[:120])

    def go(stmts, ind):
        pad = "  " * ind
        if not stmts:
            return pad + "(src, off, added)"
        s, rest = stmts[0], list(stmts[1:])
        if loggy(s):
            return go(rest, ind)
        if isinstance(s, ast.Assign) and len(s.targets) == 1 and isinstance(s.targets[0], ast.Name):
            n = s.targets[0].id
            if n == "current_yielder_index":
                if not (isinstance(s.value, ast.Attribute) and s.value.attr == "current_file_index"):
                    raise Unsupported("current_yielder_index is not the yielder's current_file_index")
                return go(rest, ind)
            if n == "current_source_index" and getattr(s.value, "id", None) == "current_yielder_index":
                return "%slet src := some yielderIndex\n" % pad + go(rest, ind)
            if n == "current_tree_offset":
                return "%slet off := %s\n" % (pad, nat(s.value)) + go(rest, ind)
        if isinstance(s, ast.AugAssign) and isinstance(s.op, ast.Add) and getattr(s.target, "id", None) == "current_tree_offset":
            return "%slet off := off + %s\n" % (pad, nat(s.value)) + go(rest, ind)
        if isinstance(s, ast.Expr) and isinstance(s.value, ast.Call) and isinstance(s.value.func, ast.Attribute) \
                and s.value.func.attr == "add_tree" and getattr(s.value.func.value, "id", None) == array:
            return "%slet added := added + 1\n" % pad + go(rest, ind)
        if isinstance(s, ast.If):
            return "%sif %s then\n%s\n%selse\n%s" % (pad, test(s.test), go(list(s.body) + rest, ind + 1), pad, go(list(s.orelse) + rest, ind + 1))
        raise Unsupported("%s loop statement %s" % (fn.name, ast.dump(s)[:140]))
    return ("/-- one pass of the reading loop of `%s` for a tree of source number `yielderIndex`: (source index, running offset,\n"
            "    how often the tree is added) -/\n"
            "def %s (target : Nat) (src : Option Nat) (off : Nat) (yielderIndex : Nat) : Option Nat × Nat × Nat :=\n"
            "  let added := 0\n%s\n" % (fn.name, lean_name, go(list(loop.body), 1)))


# ------------------------------------------------------------------------------------------ sumtrees worker protocol
def _nat_of_nproc(e, env=None):
    """an expression over `self.num_processes`, `len(tree_sources)`, small constants and straight-line temporaries -> Lean Nat text"""
    env = env or {}
    if isinstance(e, ast.Attribute) and isinstance(e.value, ast.Name) and e.value.id == "self" and e.attr == "num_processes":
        return "num_processes"
    if isinstance(e, ast.Name) and e.id in env:
        return env[e.id]
    if isinstance(e, ast.Call) and isinstance(e.func, ast.Name) and not e.keywords:
        if e.func.id == "len" and len(e.args) == 1 and isinstance(e.args[0], ast.Name) and e.args[0].id == "tree_sources":
            return "nfiles"
        if e.func.id in ("min", "max") and len(e.args) == 2:
            return "(Nat.%s %s %s)" % (e.func.id, _nat_of_nproc(e.args[0], env), _nat_of_nproc(e.args[1], env))
    if isinstance(e, ast.Constant) and isinstance(e.value, int) and not isinstance(e.value, bool) and e.value >= 0:
        return str(e.value)
    if isinstance(e, ast.BinOp) and isinstance(e.op, (ast.Add, ast.Sub, ast.Mult)):
        return "(%s %s %s)" % (_nat_of_nproc(e.left, env), {ast.Add: "+", ast.Sub: "-", ast.Mult: "*"}[type(e.op)], _nat_of_nproc(e.right, env))
    raise Unsupported("count expression %s" % ast.dump(e)[:100])


def _temporaries(fn):
    """straight-line temporaries of the function body (assigned once, at top level, from a count expression): inlined"""
    env, seen = {}, {}
    for n in ast.walk(fn):
        if isinstance(n, ast.Assign):
            for t in n.targets:
                if isinstance(t, ast.Name):
                    seen[t.id] = seen.get(t.id, 0) + 1
        if isinstance(n, ast.AugAssign) and isinstance(n.target, ast.Name):
            seen[n.target.id] = seen.get(n.target.id, 0) + 2
    for s in fn.body:
        if isinstance(s, ast.Assign) and len(s.targets) == 1 and isinstance(s.targets[0], ast.Name) and seen.get(s.targets[0].id) == 1:
            try:
                env[s.targets[0].id] = _nat_of_nproc(s.value, env)
            except Unsupported:
                pass
    return env


def _queue_call(e, queue_attr_or_name, is_self):
    if not (isinstance(e, ast.Call) and isinstance(e.func, ast.Attribute)):
        return None
    q = e.func.value
    if is_self:
        ok = isinstance(q, ast.Attribute) and isinstance(q.value, ast.Name) and q.value.id == "self" and q.attr == queue_attr_or_name
    else:
        ok = isinstance(q, ast.Name) and q.id == queue_attr_or_name
    return e.func.attr if ok else None


def _worker(fn):
    loops = [s for s in fn.body if isinstance(s, ast.While)]
    if len(loops) != 1:
        raise Unsupported("TreeAnalysisWorker.run: expected one while loop")
    body = loops[0].body
    blocking = stops_at_none = None
    var = None
    for i, s in enumerate(body):
        cand = s
        in_try = False
        if isinstance(s, ast.Try) and len(s.body) == 1:
            cand, in_try = s.body[0], True
        if isinstance(cand, ast.Assign) and len(cand.targets) == 1 and isinstance(cand.targets[0], ast.Name):
            m = _queue_call(cand.value, "work_queue", True)
            if m is None:
                continue
            var = cand.targets[0].id
            c = cand.value
            if m == "get_nowait":
                blocking = False
            elif m == "get":
                kw = {k.arg: k.value for k in c.keywords}
                blk = c.args[0] if c.args else kw.get("block")
                tmo = c.args[1] if len(c.args) > 1 else kw.get("timeout")
                if tmo is not None and not (isinstance(tmo, ast.Constant) and tmo.value is None):
                    raise Unsupported("work_queue.get with a timeout")
                if blk is None:
                    blocking = True
                elif isinstance(blk, ast.Constant) and isinstance(blk.value, bool):
                    blocking = blk.value
                else:
                    raise Unsupported("work_queue.get(block=<expression>)")
            else:
                raise Unsupported("work_queue.%s" % m)
            if in_try and blocking:
                pass
            nxt = body[i + 1] if i + 1 < len(body) else None
            stops_at_none = (isinstance(nxt, ast.If) and isinstance(nxt.test, ast.Compare) and getattr(nxt.test.left, "id", None) == var
                             and len(nxt.test.ops) == 1 and isinstance(nxt.test.ops[0], (ast.Is, ast.Eq))
                             and isinstance(nxt.test.comparators[0], ast.Constant) and nxt.test.comparators[0].value is None
                             and len(nxt.body) == 1 and isinstance(nxt.body[0], ast.Break) and not nxt.orelse)
            break
    if blocking is None:
        raise Unsupported("TreeAnalysisWorker.run: no work_queue.get")
    # the reading step: an exception is posted as the worker's result and ends the loop
    posts_exc = False
    for s in body:
        if isinstance(s, ast.Try):
            for h in s.handlers:
                puts = [x for x in h.body if isinstance(x, ast.Expr) and _queue_call(x.value, "results_queue", True) == "put"
                        and len(x.value.args) == 1 and getattr(x.value.args[0], "id", None) == h.name]
                if puts and isinstance(h.body[-1], ast.Break):
                    posts_exc = True
    # after the loop: the array is posted unless a kill request came in
    posts_array = False
    for s in fn.body:
        for n in ast.walk(s):
            if isinstance(n, ast.Expr) and _queue_call(n.value, "results_queue", True) == "put" and len(n.value.args) == 1:
                a = n.value.args[0]
                if isinstance(a, ast.Attribute) and a.attr == "tree_array" and getattr(a.value, "id", None) == "self":
                    posts_array = not any(n in ast.walk(l) for l in loops)
    return blocking, bool(stops_at_none), posts_exc, posts_array


def _parent(fn):
    env = _temporaries(fn)
    events = []     # in source order: ("files",) / ("markers", count) / ("start", count) / ("await", count)
    reraises = updates = False
    for s in fn.body:
        if isinstance(s, ast.For):
            rng = s.iter
            is_range = isinstance(rng, ast.Call) and getattr(rng.func, "id", None) == "range" and len(rng.args) == 1
            for n in ast.walk(s):
                if isinstance(n, ast.Expr) and _queue_call(n.value, "work_queue", False) == "put" and len(n.value.args) == 1:
                    a = n.value.args[0]
                    if isinstance(a, ast.Constant) and a.value is None and is_range:
                        events.append(("markers", _nat_of_nproc(rng.args[0], env)))
                    elif isinstance(a, ast.Name) and isinstance(s.target, ast.Name) and a.id == s.target.id \
                            and getattr(s.iter, "id", None) == "tree_sources":
                        events.append(("files",))
                    else:
                        raise Unsupported("work_queue.put(%s)" % ast.dump(a)[:80])
                if isinstance(n, ast.Expr) and isinstance(n.value, ast.Call) and isinstance(n.value.func, ast.Attribute) \
                        and n.value.func.attr == "start" and is_range:
                    events.append(("start", _nat_of_nproc(rng.args[0], env)))
        for n in ast.walk(s):
            if isinstance(n, ast.While) and isinstance(n.test, ast.Compare) and len(n.test.ops) == 1 \
                    and getattr(n.test.left, "id", None) == "result_count" and any(
                        isinstance(x, ast.Assign) and _queue_call(x.value, "results_queue", False) == "get" for x in ast.walk(n)):
                cnt = _nat_of_nproc(n.test.comparators[0], env)
                op = n.test.ops[0]
                if isinstance(op, ast.Lt):
                    events.append(("await", cnt))
                elif isinstance(op, ast.LtE):
                    events.append(("await", "(%s + 1)" % cnt))
                else:
                    raise Unsupported("collation loop test")
                incs = [x for x in ast.walk(n) if isinstance(x, ast.AugAssign) and getattr(x.target, "id", None) == "result_count"
                        and isinstance(x.op, ast.Add) and isinstance(x.value, ast.Constant) and x.value.value == 1]
                if len(incs) != 1:
                    raise Unsupported("collation loop does not count results one by one")
                for x in n.body if not isinstance(n.body[0], ast.Try) else n.body:
                    pass
                for x in ast.walk(n):
                    if isinstance(x, ast.If) and any(isinstance(c, ast.Call) and getattr(c.func, "id", None) == "isinstance" for c in ast.walk(x.test)) \
                            and any(isinstance(b, ast.Raise) and getattr(b.exc, "id", None) == "result" for b in x.body):
                        reraises = True
                    if isinstance(x, ast.Expr) and isinstance(x.value, ast.Call) and isinstance(x.value.func, ast.Attribute) \
                            and x.value.func.attr == "update" and getattr(x.value.func.value, "id", None) == "master_tree_array" \
                            and [getattr(a, "id", None) for a in x.value.args] == ["result"]:
                        updates = True
    kinds = [e[0] for e in events]
    if sorted(kinds) != ["await", "files", "markers", "start"] and sorted(kinds) != ["await", "files", "start"]:
        raise Unsupported("parallel_analyze_trees: queue events %s" % kinds)
    get = dict((e[0], e[1]) for e in events if len(e) > 1)
    markers = get.get("markers", "0")
    behind = "markers" in kinds and kinds.index("files") < kinds.index("markers")
    return markers, behind, get["start"], get["await"], reraises, updates


def _analyze_switch(fn):
    """`if self.num_processes is None or self.num_processes <= 1: serial else: parallel`"""
    for s in fn.body:
        if isinstance(s, ast.If) and s.orelse:
            def which(stmts):
                for n in ast.walk(ast.Module(body=list(stmts), type_ignores=[])):
                    if isinstance(n, ast.Call) and isinstance(n.func, ast.Attribute) and n.func.attr in ("serial_analyze_trees", "parallel_analyze_trees"):
                        return n.func.attr
                return None
            a, b = which(s.body), which(s.orelse)
            if {a, b} != {"serial_analyze_trees", "parallel_analyze_trees"}:
                continue

            def t(e):
                if isinstance(e, ast.BoolOp):
                    return "(" + (" || " if isinstance(e.op, ast.Or) else " && ").join(t(v) for v in e.values) + ")"
                if isinstance(e, ast.UnaryOp) and isinstance(e.op, ast.Not):
                    return "(!%s)" % t(e.operand)
                if isinstance(e, ast.Compare) and len(e.ops) == 1 and isinstance(e.left, ast.Attribute) and e.left.attr == "num_processes":
                    r, op = e.comparators[0], e.ops[0]
                    if isinstance(r, ast.Constant) and r.value is None and isinstance(op, (ast.Is, ast.Eq, ast.IsNot, ast.NotEq)):
                        return "num_processes.isNone" if isinstance(op, (ast.Is, ast.Eq)) else "num_processes.isSome"
                    if isinstance(r, ast.Constant) and isinstance(r.value, int) and type(op) in CMPN:
                        return "(match num_processes with | some n => decide (n %s (%d : Int)) | none => false)" % (CMPN[type(op)] if not isinstance(op, (ast.Eq, ast.NotEq)) else ("=" if isinstance(op, ast.Eq) else "≠"), r.value)
                raise Unsupported("analyze_trees test %s" % ast.dump(e)[:120])
            c = t(s.test)
            return "def runsSerial (num_processes : Option Int) : Bool :=\n  %s\n" % (c if a == "serial_analyze_trees" else "(!%s)" % c)
    raise Unsupported("analyze_trees: serial/parallel switch not found")


HEADER = """namespace DendroModel.C06Kernels

inductive Exc where
  | mixedRooting | incRooting | incLens | incAges | incWeights
deriving DecidableEq, Repr

/-- a TreeArray as far as `update` / `validate_rooting` / the accession block of `add_tree` look at it -/
structure KTA (α β γ δ σ : Type) where
  rooting : Option Bool
  ignoreLens : Bool
  ignoreAges : Bool
  useWeights : Bool
  splits : List α
  elens : List β
  leafsets : List γ
  weights : List δ
  sd : σ
"""


def generate(repo):
    tpath = os.path.join(repo, "src/dendropy/datamodel/treecollectionmodel.py")
    spath = os.path.join(repo, "src/dendropy/application/sumtrees.py")
    ttree = ast.parse(open(tpath).read())
    stree = ast.parse(open(spath).read())
    lf = _len_field(ttree)
    out = [HEADER]
    out.append("/-- the list `len(array)` measures -/\ndef lenOf {α β γ δ σ : Type} (self : KTA α β γ δ σ) : Nat := self.%s.length\n" % lf)
    upd = find_function(ttree, "TreeArray.update")
    if [a.arg for a in upd.args.args] != ["self", "other"]:
        raise Unsupported("TreeArray.update signature")
    out.append("/-- `TreeArray.update` -/\ndef update {α β γ δ σ : Type} (mergeSD : σ → σ → σ) (self other : KTA α β γ δ σ) : Except Exc (KTA α β γ δ σ) :=\n"
               + TA(lf).block(list(upd.body), 1) + "\n")
    val = find_function(ttree, "TreeArray.validate_rooting")
    args = [a.arg for a in val.args.args]
    if len(args) != 2:
        raise Unsupported("TreeArray.validate_rooting signature")
    out.append("/-- `TreeArray.validate_rooting` -/\ndef validateRooting {α β γ δ σ : Type} (self : KTA α β γ δ σ) (rooting_of_other : Option Bool) : Except Exc (KTA α β γ δ σ) :=\n"
               + TA(lf, objs=("self",), params={args[1]: ("rooting_of_other", "obool")}).block(list(val.body), 1) + "\n")
    out.append("/-- `extend(x)` is `update(x)`; `+=` is `extend` -/\ndef extendIsUpdate : Bool := %s\ndef iaddIsExtend : Bool := %s\n" % (
        "true" if _wrapper(ttree, "TreeArray.extend", "update") else "false",
        "true" if _wrapper(ttree, "TreeArray.__iadd__", "extend") else "false"))
    add = find_function(ttree, "TreeArray.add_tree")
    out.append(_weight(add))
    out.append(_accession(add))
    out.append(_scores(find_function(ttree, "TreeArray.calculate_log_product_of_split_supports")))
    out.append(_read_step(find_function(ttree, "TreeArray.read_from_files"), "target_tree_offset", "readStep"))
    out.append(_read_step(find_function(stree, "_read_into_tree_array"), "tree_offset", "readStepLogged", array="tree_array"))
    blocking, stops, posts_exc, posts_array = _worker(find_function(stree, "TreeAnalysisWorker.run"))
    markers, behind, started, awaited, reraises, updates = _parent(find_function(stree, "TreeProcessor.parallel_analyze_trees"))
    b = lambda x: "true" if x else "false"
    out.append("/-- `TreeAnalysisWorker.run`: the worker waits in a blocking `get`; it leaves its loop at a `None` item; a failing read\n"
               "    posts the exception as the worker's result and ends the loop; otherwise the array is posted after the loop -/\n"
               "def workerGetBlocks : Bool := %s\ndef workerStopsAtNone : Bool := %s\ndef workerPostsException : Bool := %s\ndef workerPostsArray : Bool := %s\n"
               % (b(blocking), b(stops), b(posts_exc), b(posts_array)))
    out.append("/-- `parallel_analyze_trees`: end-of-work markers put on the work queue, whether they follow the files, workers started,\n"
               "    results awaited by the collation loop, which re-raises a posted exception and merges arrays with `update` -/\n"
               "def markersPosted (num_processes nfiles : Nat) : Nat := %s\ndef markersBehindFiles : Bool := %s\n"
               "def workersStarted (num_processes nfiles : Nat) : Nat := %s\ndef resultsAwaited (num_processes nfiles : Nat) : Nat := %s\n"
               "def parentReraises : Bool := %s\ndef parentMergesWithUpdate : Bool := %s\n"
               % (markers, b(behind), started, awaited, b(reraises), b(updates)))
    out.append("/-- the work queue as the parent fills it: file indices, then (if so) the markers (`none`) -/\n"
               "def initialQueue (num_processes nfiles : Nat) : List (Option Nat) :=\n  %s\n" % (
                   "(List.range nfiles).map some ++ List.replicate (markersPosted num_processes nfiles) none" if behind or markers == "0"
                   else "List.replicate (markersPosted num_processes nfiles) none ++ (List.range nfiles).map some"))
    out.append(_analyze_switch(find_function(stree, "TreeProcessor.analyze_trees")))
    out.append("end DendroModel.C06Kernels")
    return "\n".join(out) + "\n"
