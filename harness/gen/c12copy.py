"""Gen/C12Copy.lean: the closed-form kernels of the copy machinery, read off the current source.

* which attributes the three attribute-wise `__deepcopy__` loops skip (`Annotable.__deepcopy__`, `Taxon.__deepcopy__`,
  `TaxonNamespace.__deepcopy__`) and which attribute `TaxonNamespace.__deepcopy__` copies before the loop;
* that each of them ends with `deep_copy_annotations_from(self, memo)` (annotations last);
* the depth dispatch of `DataObject.clone` (0 -> copy.copy, 1 -> taxon_namespace_scoped_copy, 2 -> copy.deepcopy, else TypeError);
* the re-targeting test of `Annotable.deep_copy_annotations_from`
  (`if a2.is_attribute and a1._value[0] is other: a2._value = (self, a1._value[1])`) and its final memo registration;
* what `TaxonNamespace.populate_memo_for_taxon_namespace_scoped_copy` seeds (the namespace and every taxon, to themselves).

Anything outside the supported shapes raises Unsupported (never a guess).  Tolerated rewrites: `k == "x": continue` vs
`k != "x": <body>`, `or`-chains vs `k in (..)`, operands of `==`/`and`/`or` commuted, the depth tests in any order."""
import ast
import os

from extract import Unsupported, find_function, lean_string

NAME = "C12Copy"


def _src(repo, rel):
    with open(os.path.join(repo, rel)) as f:
        return ast.parse(f.read())


def _names_tested(test, var):
    """`var == "a"`, `"a" == var`, `var == "a" or var == "b"`, `var in ("a", "b")` -> ["a", "b"]; else None"""
    if isinstance(test, ast.BoolOp) and isinstance(test.op, ast.Or):
        out = []
        for v in test.values:
            r = _names_tested(v, var)
            if r is None:
                return None
            out += r
        return out
    if isinstance(test, ast.Compare) and len(test.ops) == 1 and len(test.comparators) == 1:
        a, b = test.left, test.comparators[0]
        if isinstance(test.ops[0], ast.Eq):
            for x, y in ((a, b), (b, a)):
                if isinstance(x, ast.Name) and x.id == var and isinstance(y, ast.Constant) and isinstance(y.value, str):
                    return [y.value]
        if isinstance(test.ops[0], ast.In) and isinstance(a, ast.Name) and a.id == var and isinstance(b, (ast.Tuple, ast.List, ast.Set)):
            if all(isinstance(e, ast.Constant) and isinstance(e.value, str) for e in b.elts):
                return [e.value for e in b.elts]
    return None


def _names_excluded(test, var):
    """`var != "a"`, `var != "a" and var != "b"`, `var not in (..)` -> names; else None"""
    if isinstance(test, ast.BoolOp) and isinstance(test.op, ast.And):
        out = []
        for v in test.values:
            r = _names_excluded(v, var)
            if r is None:
                return None
            out += r
        return out
    if isinstance(test, ast.Compare) and len(test.ops) == 1 and len(test.comparators) == 1:
        a, b = test.left, test.comparators[0]
        if isinstance(test.ops[0], ast.NotEq):
            for x, y in ((a, b), (b, a)):
                if isinstance(x, ast.Name) and x.id == var and isinstance(y, ast.Constant) and isinstance(y.value, str):
                    return [y.value]
        if isinstance(test.ops[0], ast.NotIn) and isinstance(a, ast.Name) and a.id == var and isinstance(b, (ast.Tuple, ast.List, ast.Set)):
            if all(isinstance(e, ast.Constant) and isinstance(e.value, str) for e in b.elts):
                return [e.value for e in b.elts]
    if isinstance(test, ast.UnaryOp) and isinstance(test.op, ast.Not):
        return _names_tested(test.operand, var)
    return None


def _is_self_dict(e):
    return isinstance(e, ast.Attribute) and e.attr == "__dict__" and isinstance(e.value, ast.Name) and e.value.id == "self"


def _is_deepcopy_of_attr(stmt, var):
    """`X.__dict__[var] = copy.deepcopy(self.__dict__[var], memo...)`"""
    if not (isinstance(stmt, ast.Assign) and len(stmt.targets) == 1 and isinstance(stmt.targets[0], ast.Subscript)):
        return False
    t = stmt.targets[0]
    if not (isinstance(t.value, ast.Attribute) and t.value.attr == "__dict__"):
        return False
    v = stmt.value
    if not (isinstance(v, ast.Call) and isinstance(v.func, ast.Attribute) and v.func.attr == "deepcopy" and v.args):
        return False
    a0 = v.args[0]
    return isinstance(a0, ast.Subscript) and _is_self_dict(a0.value)


def _attr_loop(fn, what):
    """the `for k in self.__dict__:` loop of an attribute-wise __deepcopy__: returns (skipped names, index of the loop in fn.body)"""
    loops = [(i, s) for i, s in enumerate(fn.body) if isinstance(s, ast.For) and _is_self_dict(s.iter) and isinstance(s.target, ast.Name)]
    if len(loops) != 1:
        raise Unsupported("%s: expected exactly one `for k in self.__dict__` loop, found %d" % (what, len(loops)))
    idx, loop = loops[0]
    var = loop.target.id
    if loop.orelse:
        raise Unsupported("%s: attribute loop has an else clause" % what)
    skipped = []
    copies = False
    for s in loop.body:
        if isinstance(s, ast.If) and not s.orelse and len(s.body) == 1 and isinstance(s.body[0], ast.Continue):
            names = _names_tested(s.test, var)
            if names is not None:
                skipped += names
                continue
            # `if k in other.__dict__: continue` (attributes a derived class set already): never true for a fresh copy
            t = s.test
            if isinstance(t, ast.Compare) and len(t.ops) == 1 and isinstance(t.ops[0], ast.In) and isinstance(t.left, ast.Name) \
                    and t.left.id == var and isinstance(t.comparators[0], ast.Attribute) and t.comparators[0].attr == "__dict__" \
                    and not _is_self_dict(t.comparators[0]):
                continue
            raise Unsupported("%s: unsupported skip test %s" % (what, ast.dump(s.test)[:120]))
        if isinstance(s, ast.If) and not s.orelse:
            names = _names_excluded(s.test, var)
            if names is None or not any(_is_deepcopy_of_attr(b, var) for b in s.body):
                raise Unsupported("%s: unsupported guarded body %s" % (what, ast.dump(s.test)[:120]))
            skipped += names
            copies = True
            continue
        if _is_deepcopy_of_attr(s, var):
            copies = True
            continue
        if isinstance(s, ast.Assign) and len(s.targets) == 1 and isinstance(s.targets[0], ast.Subscript) \
                and isinstance(s.targets[0].value, ast.Name) and s.targets[0].value.id == "memo":
            continue       # memo[id(self.__dict__[k])] = other.__dict__[k]
        if isinstance(s, ast.Expr) and isinstance(s.value, ast.Constant):
            continue
        raise Unsupported("%s: unsupported statement in the attribute loop: %s" % (what, ast.dump(s)[:120]))
    if not copies:
        raise Unsupported("%s: the attribute loop does not deep-copy the attributes" % what)
    return sorted(set(skipped)), idx


def _annotations_last(fn, idx, what):
    """after the attribute loop: `<copy>.deep_copy_annotations_from(self, memo...)` and a return"""
    rest = [s for s in fn.body[idx + 1:] if not (isinstance(s, ast.Expr) and isinstance(s.value, ast.Constant))]
    calls = [s for s in rest if isinstance(s, ast.Expr) and isinstance(s.value, ast.Call) and isinstance(s.value.func, ast.Attribute)
             and s.value.func.attr == "deep_copy_annotations_from"]
    if len(calls) != 1 or not (calls[0].value.args and isinstance(calls[0].value.args[0], ast.Name) and calls[0].value.args[0].id == "self"):
        raise Unsupported("%s: does not end with <copy>.deep_copy_annotations_from(self, memo)" % what)
    for s in fn.body[:idx]:
        for n in ast.walk(s):
            if isinstance(n, ast.Attribute) and n.attr == "deep_copy_annotations_from":
                raise Unsupported("%s: annotations are copied before the attributes" % what)


def _namespace_first(fn, idx):
    """attributes TaxonNamespace.__deepcopy__ builds before the loop: `o._taxa = []` ... append(copy.deepcopy(t, memo))"""
    first = []
    for s in fn.body[:idx]:
        if isinstance(s, ast.Assign) and len(s.targets) == 1 and isinstance(s.targets[0], ast.Attribute) \
                and isinstance(s.targets[0].value, ast.Name) and s.targets[0].value.id != "self" \
                and isinstance(s.value, ast.List) and not s.value.elts:
            first.append(s.targets[0].attr)
    for name in first:
        ok = False
        for s in fn.body[:idx]:
            if isinstance(s, ast.For) and isinstance(s.iter, ast.Attribute) and s.iter.attr == name and isinstance(s.iter.value, ast.Name) \
                    and s.iter.value.id == "self":
                for n in ast.walk(s):
                    if isinstance(n, ast.Call) and isinstance(n.func, ast.Attribute) and n.func.attr == "deepcopy":
                        ok = True
        if not ok:
            raise Unsupported("TaxonNamespace.__deepcopy__: %s is created but its members are not deep-copied before the loop" % name)
    return first


def _clone_table(fn):
    """DataObject.clone: if depth == 0: return copy.copy(self) / == 1: self.taxon_namespace_scoped_copy(..) / == 2: copy.deepcopy(self) / else raise TypeError"""
    args = [a.arg for a in fn.args.args]
    if len(args) != 2:
        raise Unsupported("clone: unexpected signature")
    var = args[1]
    body = [s for s in fn.body if not (isinstance(s, ast.Expr) and isinstance(s.value, ast.Constant))]
    if len(body) != 1 or not isinstance(body[0], ast.If):
        raise Unsupported("clone: body is not a single if/elif chain")
    table = {}
    node = body[0]
    while True:
        t = node.test
        if not (isinstance(t, ast.Compare) and len(t.ops) == 1 and isinstance(t.ops[0], ast.Eq)):
            raise Unsupported("clone: unsupported test")
        a, b = t.left, t.comparators[0]
        if isinstance(b, ast.Name):
            a, b = b, a
        if not (isinstance(a, ast.Name) and a.id == var and isinstance(b, ast.Constant) and isinstance(b.value, int) and not isinstance(b.value, bool) and b.value >= 0):
            raise Unsupported("clone: unsupported test operands")
        if len(node.body) != 1 or not isinstance(node.body[0], ast.Return) or not isinstance(node.body[0].value, ast.Call):
            raise Unsupported("clone: branch is not a single return of a call")
        call = node.body[0].value
        f = call.func
        if isinstance(f, ast.Attribute) and isinstance(f.value, ast.Name) and f.value.id == "copy" and f.attr in ("copy", "deepcopy") \
                and len(call.args) == 1 and isinstance(call.args[0], ast.Name) and call.args[0].id == "self":
            what = "shallow" if f.attr == "copy" else "deep"
        elif isinstance(f, ast.Attribute) and isinstance(f.value, ast.Name) and f.value.id == "self" and f.attr == "taxon_namespace_scoped_copy":
            what = "scoped"
        else:
            raise Unsupported("clone: unsupported branch %s" % ast.dump(call)[:100])
        if b.value in table:
            raise Unsupported("clone: depth %d tested twice" % b.value)
        table[b.value] = what
        if len(node.orelse) == 1 and isinstance(node.orelse[0], ast.If):
            node = node.orelse[0]
            continue
        if len(node.orelse) == 1 and isinstance(node.orelse[0], ast.Raise):
            exc = node.orelse[0].exc
            name = exc.func.id if isinstance(exc, ast.Call) and isinstance(exc.func, ast.Name) else (exc.id if isinstance(exc, ast.Name) else None)
            if name != "TypeError":
                raise Unsupported("clone: the fall-through raises %s" % name)
            break
        raise Unsupported("clone: the chain does not end with `else: raise TypeError`")
    return sorted(table.items())


def _retarget(fn):
    """deep_copy_annotations_from: inside `for a1 in other._annotations`: `a2 = copy.deepcopy(a1, memo..)`;
    `if a2.is_attribute and a1._value[0] is other: a2._value = (self, a1._value[1])`; after the loop `memo[id(other._annotations)] = self._annotations`.
    returns (which annotation's is_attribute is tested: 'copy'|'source', whose owner is compared: 'source', owner compared with: 'other',
    new owner: 'self', attribute name taken from: 'source')"""
    args = [a.arg for a in fn.args.args]
    if len(args) < 2:
        raise Unsupported("deep_copy_annotations_from: unexpected signature")
    me, other = args[0], args[1]
    loop = None
    for n in ast.walk(fn):
        if isinstance(n, ast.For) and isinstance(n.iter, ast.Attribute) and n.iter.attr == "_annotations" and isinstance(n.iter.value, ast.Name) \
                and n.iter.value.id == other and isinstance(n.target, ast.Name):
            if loop is not None:
                raise Unsupported("deep_copy_annotations_from: two loops over the annotations")
            loop = n
    if loop is None:
        raise Unsupported("deep_copy_annotations_from: no loop over other._annotations")
    a1 = loop.target.id
    a2 = None
    cond = None
    added = False
    for s in loop.body:
        if isinstance(s, ast.Assign) and len(s.targets) == 1 and isinstance(s.targets[0], ast.Name) and isinstance(s.value, ast.Call) \
                and isinstance(s.value.func, ast.Attribute) and s.value.func.attr == "deepcopy" and s.value.args \
                and isinstance(s.value.args[0], ast.Name) and s.value.args[0].id == a1:
            a2 = s.targets[0].id
        elif isinstance(s, ast.If) and not s.orelse:
            cond = s
        elif isinstance(s, ast.Expr) and isinstance(s.value, ast.Call) and isinstance(s.value.func, ast.Attribute) and s.value.func.attr == "add":
            added = True
    if a2 is None or cond is None or not added:
        raise Unsupported("deep_copy_annotations_from: loop body not of the shape copy / re-target / add")
    t = cond.test
    if not (isinstance(t, ast.BoolOp) and isinstance(t.op, ast.And) and len(t.values) == 2):
        raise Unsupported("deep_copy_annotations_from: re-target test is not a conjunction of two")
    bound = owner = None
    for v in t.values:
        if isinstance(v, ast.Attribute) and v.attr == "is_attribute" and isinstance(v.value, ast.Name) and v.value.id in (a1, a2):
            bound = "copy" if v.value.id == a2 else "source"
        elif isinstance(v, ast.Compare) and len(v.ops) == 1 and isinstance(v.ops[0], ast.Is):
            l, r = v.left, v.comparators[0]
            if isinstance(l, ast.Name):
                l, r = r, l
            if isinstance(l, ast.Subscript) and isinstance(l.value, ast.Attribute) and l.value.attr == "_value" and isinstance(l.value.value, ast.Name) \
                    and l.value.value.id in (a1, a2) and isinstance(l.slice, ast.Constant) and l.slice.value == 0 \
                    and isinstance(r, ast.Name) and r.id == other:
                owner = "source" if l.value.value.id == a1 else "copy"
    if bound is None or owner is None:
        raise Unsupported("deep_copy_annotations_from: unsupported re-target test %s" % ast.dump(t)[:160])
    if len(cond.body) != 1 or not isinstance(cond.body[0], ast.Assign):
        raise Unsupported("deep_copy_annotations_from: re-target body is not one assignment")
    asg = cond.body[0]
    tg = asg.targets[0]
    if not (isinstance(tg, ast.Attribute) and tg.attr == "_value" and isinstance(tg.value, ast.Name) and tg.value.id == a2):
        raise Unsupported("deep_copy_annotations_from: re-target does not assign the copy's _value")
    v = asg.value
    if not (isinstance(v, ast.Tuple) and len(v.elts) == 2 and isinstance(v.elts[0], ast.Name) and v.elts[0].id == me):
        raise Unsupported("deep_copy_annotations_from: new _value is not (self, name)")
    n1 = v.elts[1]
    if not (isinstance(n1, ast.Subscript) and isinstance(n1.value, ast.Attribute) and n1.value.attr == "_value" and isinstance(n1.value.value, ast.Name)
            and n1.value.value.id in (a1, a2) and isinstance(n1.slice, ast.Constant) and n1.slice.value == 1):
        raise Unsupported("deep_copy_annotations_from: attribute name is not <annotation>._value[1]")
    # final registration memo[id(other._annotations)] = self._annotations
    reg = False
    for n in ast.walk(fn):
        if isinstance(n, ast.Assign) and len(n.targets) == 1 and isinstance(n.targets[0], ast.Subscript) and isinstance(n.targets[0].value, ast.Name) \
                and n.targets[0].value.id == "memo" and isinstance(n.value, ast.Attribute) and n.value.attr == "_annotations" \
                and isinstance(n.value.value, ast.Name) and n.value.value.id == me:
            reg = True
    return bound, owner, reg


def _populate(fn):
    """populate_memo_for_taxon_namespace_scoped_copy: memo[id(self)] = self; for taxon in self._taxa: memo[id(taxon)] = taxon"""
    seeds_self = seeds_taxa = False
    for n in ast.walk(fn):
        if isinstance(n, ast.Assign) and len(n.targets) == 1 and isinstance(n.targets[0], ast.Subscript) and isinstance(n.targets[0].value, ast.Name) \
                and n.targets[0].value.id == "memo" and isinstance(n.value, ast.Name):
            key = n.targets[0].slice
            if isinstance(key, ast.Call) and isinstance(key.func, ast.Name) and key.func.id == "id" and len(key.args) == 1 \
                    and isinstance(key.args[0], ast.Name) and key.args[0].id == n.value.id:
                if n.value.id == "self":
                    seeds_self = True
                else:
                    seeds_taxa = True
            else:
                raise Unsupported("populate_memo: an entry that does not map an object to itself")
    return seeds_self, seeds_taxa


def _lst(names):
    return "[" + ", ".join(lean_string(n) for n in names) + "]"


def generate(repo):
    bm = _src(repo, "src/dendropy/datamodel/basemodel.py")
    tm = _src(repo, "src/dendropy/datamodel/taxonmodel.py")
    out = ["namespace DendroModel.C12Copy", ""]
    for mod, qual, lean in ((bm, "Annotable.__deepcopy__", "skipAnnotable"), (tm, "Taxon.__deepcopy__", "skipTaxon"),
                            (tm, "TaxonNamespace.__deepcopy__", "skipNamespace")):
        fn = find_function(mod, qual)
        skipped, idx = _attr_loop(fn, qual)
        _annotations_last(fn, idx, qual)
        out.append("/-- attributes the attribute loop of %s skips (annotations are copied after the loop) -/" % qual)
        out.append("def %s : List String := %s" % (lean, _lst(skipped)))
        if lean == "skipNamespace":
            out.append("/-- attributes %s builds (members deep-copied) before the loop -/" % qual)
            out.append("def firstNamespace : List String := %s" % _lst(_namespace_first(fn, idx)))
    table = _clone_table(find_function(bm, "DataObject.clone"))
    out.append("/-- DataObject.clone(depth): which copy a depth selects; any other depth raises TypeError -/")
    out.append("def cloneTable : List (Nat × String) := [" + ", ".join('(%d, "%s")' % kv for kv in table) + "]")
    bound, owner, reg = _retarget(find_function(bm, "Annotable.deep_copy_annotations_from"))
    out.append("/-- re-targeting in deep_copy_annotations_from: whose `is_attribute` is tested, whose `_value[0]` is compared with the source owner -/")
    out.append("def retargetBoundTestOn : String := %s" % lean_string(bound))
    out.append("def retargetOwnerTestOn : String := %s" % lean_string(owner))
    out.append("/-- `memo[id(other._annotations)] = self._annotations` at the end -/")
    out.append("def registersAnnotationSet : Bool := %s" % ("true" if reg else "false"))
    s1, s2 = _populate(find_function(tm, "TaxonNamespace.populate_memo_for_taxon_namespace_scoped_copy"))
    out.append("/-- populate_memo_for_taxon_namespace_scoped_copy seeds the namespace / every taxon to itself -/")
    out.append("def seedsNamespace : Bool := %s" % ("true" if s1 else "false"))
    out.append("def seedsTaxa : Bool := %s" % ("true" if s2 else "false"))
    out += ["", "end DendroModel.C12Copy"]
    return "\n".join(out) + "\n"
