"""Gen/C12Copy.lean: the closed-form kernels of the copy machinery, read off the current source.

* which attributes the three attribute-wise `__deepcopy__` loops skip (`Annotable.__deepcopy__`, `Taxon.__deepcopy__`,
  `TaxonNamespace.__deepcopy__`) and which attribute `TaxonNamespace.__deepcopy__` copies before the loop;
* that each of them ends with `deep_copy_annotations_from(self, memo)` (annotations last);
* the depth dispatch of `DataObject.clone` (0 -> copy.copy, 1 -> taxon_namespace_scoped_copy, 2 -> copy.deepcopy, else TypeError);
* the re-targeting test of `Annotable.deep_copy_annotations_from`
  (`if a2.is_attribute and a1._value[0] is other: a2._value = (self, a1._value[1])`) and its final memo registration;
* what `TaxonNamespace.populate_memo_for_taxon_namespace_scoped_copy` seeds (the namespace and every taxon, to themselves).

Anything outside the supported shapes raises Unsupported (never a guess, never a default): every definition emitted is the
reading of statements that were ALL recognised; a `false` / an absent name is emitted only when the whole function was understood
and positively lacks the effect.  Tolerated rewrites: `k == "x": continue` vs `k != "x": <body>`, `or`-chains vs `k in (..)`,
operands of `==`/`and`/`or` commuted, the depth tests in any order, single-assignment local aliases of pure expressions
(`attrs = self.__dict__`, `key = id(self)`, `cls = self.__class__`) and straight-line temporaries, early returns vs wrapping ifs,
nested ifs vs `and`, `memo.update(<generator | list/dict comprehension | dict literal>)` vs item assignments in a loop, and helper
functions / methods called as a statement (inlined one level)."""
import ast
import os

from extract import Unsupported, find_function, lean_string

NAME = "C12Copy"


def _src(repo, rel):
    with open(os.path.join(repo, rel)) as f:
        return ast.parse(f.read())


import copy as _copy


def _pure(e):
    """expressions an alias may stand for: names, attribute chains, subscripts by names/constants, id(<pure>)"""
    if isinstance(e, (ast.Name, ast.Constant)):
        return True
    if isinstance(e, ast.Attribute):
        return _pure(e.value)
    if isinstance(e, ast.Subscript):
        return _pure(e.value) and _pure(e.slice)
    if isinstance(e, ast.Call) and isinstance(e.func, ast.Name) and e.func.id == "id" and len(e.args) == 1 and not e.keywords:
        return _pure(e.args[0])
    return False


class _Subst(ast.NodeTransformer):
    def __init__(self, mapping):
        self.mapping = mapping

    def visit_Name(self, node):
        if isinstance(node.ctx, ast.Load) and node.id in self.mapping:
            return _copy.deepcopy(self.mapping[node.id])
        return node


def _subst(node, mapping):
    if not mapping:
        return node
    return ast.fix_missing_locations(_Subst(mapping).visit(_copy.deepcopy(node)))


def _stores(fn, name):
    n = sum(1 for a in fn.args.args if a.arg == name)
    for x in ast.walk(fn):
        if isinstance(x, ast.Name) and x.id == name and isinstance(x.ctx, (ast.Store, ast.Del)):
            n += 1
    return n


def _dealias(fn):
    """a copy of fn in which every top-level single-assignment local alias of a pure expression is substituted"""
    fn = _copy.deepcopy(fn)
    mapping = {}
    body = []
    for s in fn.body:
        s = _subst(s, mapping)
        if isinstance(s, ast.Assign) and len(s.targets) == 1 and isinstance(s.targets[0], ast.Name) and _pure(s.value) \
                and _stores(fn, s.targets[0].id) == 1:
            mapping[s.targets[0].id] = s.value
            continue
        body.append(s)
    fn.body = body
    return fn


def _is_docstring(s):
    return isinstance(s, ast.Expr) and isinstance(s.value, ast.Constant)


def _inline_calls(fn, module, cls=None):
    """statements `helper(args)` / `self.helper(args)` / `<module alias>.helper(args)` (value unused, or `return helper(..)` as the last
    statement) whose target is a module-level function / a method of the same class with a straight-line-returning body are replaced
    by the helper's body with the parameters substituted (one level)"""
    funcs = {n.name: n for n in module.body if isinstance(n, ast.FunctionDef)}
    meths = {n.name: n for n in (cls.body if cls is not None else []) if isinstance(n, ast.FunctionDef)}

    def expand(stmts):
        out = []
        for s in stmts:
            call = None
            if isinstance(s, ast.Expr) and isinstance(s.value, ast.Call):
                call = s.value
            elif isinstance(s, ast.Return) and isinstance(s.value, ast.Call):
                call = s.value
            target = None
            selfarg = None
            if call is not None:
                f = call.func
                if isinstance(f, ast.Name) and f.id in funcs:
                    target = funcs[f.id]
                elif isinstance(f, ast.Attribute) and isinstance(f.value, ast.Name) and f.value.id == "self" and f.attr in meths \
                        and f.attr != fn.name:
                    target, selfarg = meths[f.attr], f.value
            if target is None:
                if isinstance(s, ast.If):
                    s = _copy.deepcopy(s)
                    s.body, s.orelse = expand(s.body), expand(s.orelse)
                out.append(s)
                continue
            params = [a.arg for a in target.args.args]
            if target.args.vararg or target.args.kwarg or target.args.kwonlyargs:
                raise Unsupported("cannot inline %s: unsupported signature" % target.name)
            args = ([selfarg] if selfarg is not None else []) + list(call.args)
            mapping = dict(zip(params, args))
            for kw in call.keywords:
                if kw.arg is None or kw.arg not in params:
                    raise Unsupported("cannot inline %s: unsupported keyword" % target.name)
                mapping[kw.arg] = kw.value
            defaults = dict(zip(params[len(params) - len(target.args.defaults):], target.args.defaults))
            for pn in params:
                if pn not in mapping:
                    if pn not in defaults:
                        raise Unsupported("cannot inline %s: missing argument %s" % (target.name, pn))
                    mapping[pn] = defaults[pn]
            if not all(_pure(v) for v in mapping.values()):
                raise Unsupported("cannot inline %s: impure argument" % target.name)
            for pn in params:
                if _stores(target, pn) != 1:
                    raise Unsupported("cannot inline %s: parameter %s is re-assigned" % (target.name, pn))
            body = [b for b in _dealias(target).body if not _is_docstring(b)]
            if body and isinstance(body[-1], ast.Return):
                body = body[:-1]
            for b in body:
                for n in ast.walk(b):
                    if isinstance(n, ast.Return):
                        raise Unsupported("cannot inline %s: it returns early" % target.name)
            out += [_subst(b, mapping) for b in body]
        return out
    fn = _copy.deepcopy(fn)
    fn.body = expand(fn.body)
    return fn


def _flatten(test, op):
    if isinstance(test, ast.BoolOp) and isinstance(test.op, op):
        out = []
        for v in test.values:
            out += _flatten(v, op)
        return out
    return [test]


def _names_tested(test, var):
    """`var == "a"`, `"a" == var`, `var == "a" or var == "b"`, `var in ("a", "b")` -> ["a", "b"]; else None"""
    if isinstance(test, ast.BoolOp) and isinstance(test.op, ast.Or):
        out = []
        for v in test.values:
            r = _names_tested(v, var)
            if r is None:
                return None
            out += r
        return out
    if isinstance(test, ast.Compare) and len(test.ops) == 1 and len(test.comparators) == 1:
        a, b = test.left, test.comparators[0]
        if isinstance(test.ops[0], ast.Eq):
            for x, y in ((a, b), (b, a)):
                if isinstance(x, ast.Name) and x.id == var and isinstance(y, ast.Constant) and isinstance(y.value, str):
                    return [y.value]
        if isinstance(test.ops[0], ast.In) and isinstance(a, ast.Name) and a.id == var and isinstance(b, (ast.Tuple, ast.List, ast.Set)):
            if all(isinstance(e, ast.Constant) and isinstance(e.value, str) for e in b.elts):
                return [e.value for e in b.elts]
    return None


def _names_excluded(test, var):
    """`var != "a"`, `var != "a" and var != "b"`, `var not in (..)` -> names; else None"""
    if isinstance(test, ast.BoolOp) and isinstance(test.op, ast.And):
        out = []
        for v in test.values:
            r = _names_excluded(v, var)
            if r is None:
                return None
            out += r
        return out
    if isinstance(test, ast.Compare) and len(test.ops) == 1 and len(test.comparators) == 1:
        a, b = test.left, test.comparators[0]
        if isinstance(test.ops[0], ast.NotEq):
            for x, y in ((a, b), (b, a)):
                if isinstance(x, ast.Name) and x.id == var and isinstance(y, ast.Constant) and isinstance(y.value, str):
                    return [y.value]
        if isinstance(test.ops[0], ast.NotIn) and isinstance(a, ast.Name) and a.id == var and isinstance(b, (ast.Tuple, ast.List, ast.Set)):
            if all(isinstance(e, ast.Constant) and isinstance(e.value, str) for e in b.elts):
                return [e.value for e in b.elts]
    if isinstance(test, ast.UnaryOp) and isinstance(test.op, ast.Not):
        return _names_tested(test.operand, var)
    return None


def _is_self_dict(e):
    return isinstance(e, ast.Attribute) and e.attr == "__dict__" and isinstance(e.value, ast.Name) and e.value.id == "self"


def _is_deepcopy_of_attr(stmt, var):
    """`X.__dict__[var] = copy.deepcopy(self.__dict__[var], memo...)`"""
    if not (isinstance(stmt, ast.Assign) and len(stmt.targets) == 1 and isinstance(stmt.targets[0], ast.Subscript)):
        return False
    t = stmt.targets[0]
    if not (isinstance(t.value, ast.Attribute) and t.value.attr == "__dict__"):
        return False
    v = stmt.value
    if not (isinstance(v, ast.Call) and isinstance(v.func, ast.Attribute) and v.func.attr == "deepcopy" and v.args):
        return False
    a0 = v.args[0]
    return isinstance(a0, ast.Subscript) and _is_self_dict(a0.value)


def _attr_loop(fn, what):
    """the `for k in self.__dict__:` loop of an attribute-wise __deepcopy__: returns (skipped names, index of the loop in fn.body)"""
    fn = _dealias(fn)
    loops = [(i, s) for i, s in enumerate(fn.body) if isinstance(s, ast.For) and _is_self_dict(s.iter) and isinstance(s.target, ast.Name)]
    if len(loops) != 1:
        raise Unsupported("%s: expected exactly one `for k in self.__dict__` loop, found %d" % (what, len(loops)))
    idx, loop = loops[0]
    var = loop.target.id
    if loop.orelse:
        raise Unsupported("%s: attribute loop has an else clause" % what)
    skipped = []
    copies = False
    temps = {}

    def in_clone_dict(t):
        # `k in other.__dict__` (attributes a derived class set already): never true for a fresh copy
        return isinstance(t, ast.Compare) and len(t.ops) == 1 and isinstance(t.ops[0], ast.In) and isinstance(t.left, ast.Name) \
            and t.left.id == var and isinstance(t.comparators[0], ast.Attribute) and t.comparators[0].attr == "__dict__" \
            and not _is_self_dict(t.comparators[0])
    for s in loop.body:
        # straight-line temporaries: `v = copy.deepcopy(self.__dict__[k], memo)` / pure expressions
        if isinstance(s, ast.Assign) and len(s.targets) == 1 and isinstance(s.targets[0], ast.Name):
            val = _subst(s.value, temps)
            is_dc = isinstance(val, ast.Call) and isinstance(val.func, ast.Attribute) and val.func.attr == "deepcopy" and val.args \
                and isinstance(val.args[0], ast.Subscript) and _is_self_dict(val.args[0].value)
            if not (is_dc or _pure(val)):
                raise Unsupported("%s: unsupported temporary in the attribute loop: %s" % (what, ast.dump(s)[:120]))
            temps[s.targets[0].id] = val
            continue
        s = _subst(s, temps)
        if isinstance(s, ast.If) and not s.orelse and len(s.body) == 1 and isinstance(s.body[0], ast.Continue):
            for d in _flatten(s.test, ast.Or):
                names = _names_tested(d, var)
                if names is not None:
                    skipped += names
                elif not in_clone_dict(d):
                    raise Unsupported("%s: unsupported skip test %s" % (what, ast.dump(d)[:120]))
            continue
        if isinstance(s, ast.If) and not s.orelse:
            names = _names_excluded(s.test, var)
            if names is None or not any(_is_deepcopy_of_attr(b, var) for b in s.body):
                raise Unsupported("%s: unsupported guarded body %s" % (what, ast.dump(s.test)[:120]))
            skipped += names
            copies = True
            continue
        if _is_deepcopy_of_attr(s, var):
            copies = True
            continue
        if isinstance(s, ast.Assign) and len(s.targets) == 1 and isinstance(s.targets[0], ast.Subscript) \
                and isinstance(s.targets[0].value, ast.Name) and s.targets[0].value.id == "memo":
            continue       # memo[id(self.__dict__[k])] = other.__dict__[k]
        if isinstance(s, ast.Expr) and isinstance(s.value, ast.Constant):
            continue
        raise Unsupported("%s: unsupported statement in the attribute loop: %s" % (what, ast.dump(s)[:120]))
    if not copies:
        raise Unsupported("%s: the attribute loop does not deep-copy the attributes" % what)
    return sorted(set(skipped)), idx


def _annotations_last(fn, idx, what):
    """after the attribute loop: `<copy>.deep_copy_annotations_from(self, memo...)` and a return"""
    fn = _dealias(fn)
    rest = [s for s in fn.body[idx + 1:] if not (isinstance(s, ast.Expr) and isinstance(s.value, ast.Constant))]
    calls = [s for s in rest if isinstance(s, ast.Expr) and isinstance(s.value, ast.Call) and isinstance(s.value.func, ast.Attribute)
             and s.value.func.attr == "deep_copy_annotations_from"]
    if len(calls) != 1 or not (calls[0].value.args and isinstance(calls[0].value.args[0], ast.Name) and calls[0].value.args[0].id == "self"):
        raise Unsupported("%s: does not end with <copy>.deep_copy_annotations_from(self, memo)" % what)
    for s in fn.body[:idx]:
        for n in ast.walk(s):
            if isinstance(n, ast.Attribute) and n.attr == "deep_copy_annotations_from":
                raise Unsupported("%s: annotations are copied before the attributes" % what)


def _namespace_first(fn, idx, skipped):
    """attributes TaxonNamespace.__deepcopy__ builds before the loop: `o._taxa = []` ... append(copy.deepcopy(t, memo)).
    Every skipped attribute other than `_annotations` is either recognised as built here, or not mentioned before the loop at all
    (positively not built); mentioned but not recognised -> Unsupported"""
    fn = _dealias(fn)
    first = []
    for s in fn.body[:idx]:
        if isinstance(s, ast.Assign) and len(s.targets) == 1 and isinstance(s.targets[0], ast.Attribute) \
                and isinstance(s.targets[0].value, ast.Name) and s.targets[0].value.id != "self" \
                and isinstance(s.value, ast.List) and not s.value.elts:
            first.append(s.targets[0].attr)
    for name in first:
        ok = False
        for s in fn.body[:idx]:
            if isinstance(s, ast.For) and isinstance(s.iter, ast.Attribute) and s.iter.attr == name and isinstance(s.iter.value, ast.Name) \
                    and s.iter.value.id == "self":
                for n in ast.walk(s):
                    if isinstance(n, ast.Call) and isinstance(n.func, ast.Attribute) and n.func.attr == "deepcopy":
                        ok = True
        if not ok:
            raise Unsupported("TaxonNamespace.__deepcopy__: %s is created but its members are not deep-copied before the loop" % name)
    for name in skipped:
        if name == "_annotations" or name in first:
            continue
        for s in fn.body[:idx]:
            for n in ast.walk(s):
                if (isinstance(n, ast.Attribute) and n.attr == name) or (isinstance(n, ast.Constant) and n.value == name):
                    raise Unsupported("TaxonNamespace.__deepcopy__: %s is skipped by the loop and handled before it in a way "
                                      "that is not recognised" % name)
    for name in first:
        if name not in skipped:
            raise Unsupported("TaxonNamespace.__deepcopy__: %s is built before the loop and copied again by it" % name)
    return first


def _clone_table(fn):
    """DataObject.clone: if depth == 0: return copy.copy(self) / == 1: self.taxon_namespace_scoped_copy(..) / == 2: copy.deepcopy(self) / else raise TypeError"""
    args = [a.arg for a in fn.args.args]
    if len(args) != 2:
        raise Unsupported("clone: unexpected signature")
    var = args[1]
    body = [s for s in fn.body if not (isinstance(s, ast.Expr) and isinstance(s.value, ast.Constant))]
    if len(body) != 1 or not isinstance(body[0], ast.If):
        raise Unsupported("clone: body is not a single if/elif chain")
    table = {}
    node = body[0]
    while True:
        t = node.test
        if not (isinstance(t, ast.Compare) and len(t.ops) == 1 and isinstance(t.ops[0], ast.Eq)):
            raise Unsupported("clone: unsupported test")
        a, b = t.left, t.comparators[0]
        if isinstance(b, ast.Name):
            a, b = b, a
        if not (isinstance(a, ast.Name) and a.id == var and isinstance(b, ast.Constant) and isinstance(b.value, int) and not isinstance(b.value, bool) and b.value >= 0):
            raise Unsupported("clone: unsupported test operands")
        if len(node.body) != 1 or not isinstance(node.body[0], ast.Return) or not isinstance(node.body[0].value, ast.Call):
            raise Unsupported("clone: branch is not a single return of a call")
        call = node.body[0].value
        f = call.func
        if isinstance(f, ast.Attribute) and isinstance(f.value, ast.Name) and f.value.id == "copy" and f.attr in ("copy", "deepcopy") \
                and len(call.args) == 1 and isinstance(call.args[0], ast.Name) and call.args[0].id == "self":
            what = "shallow" if f.attr == "copy" else "deep"
        elif isinstance(f, ast.Attribute) and isinstance(f.value, ast.Name) and f.value.id == "self" and f.attr == "taxon_namespace_scoped_copy":
            what = "scoped"
        else:
            raise Unsupported("clone: unsupported branch %s" % ast.dump(call)[:100])
        if b.value in table:
            raise Unsupported("clone: depth %d tested twice" % b.value)
        table[b.value] = what
        if len(node.orelse) == 1 and isinstance(node.orelse[0], ast.If):
            node = node.orelse[0]
            continue
        if len(node.orelse) == 1 and isinstance(node.orelse[0], ast.Raise):
            exc = node.orelse[0].exc
            name = exc.func.id if isinstance(exc, ast.Call) and isinstance(exc.func, ast.Name) else (exc.id if isinstance(exc, ast.Name) else None)
            if name != "TypeError":
                raise Unsupported("clone: the fall-through raises %s" % name)
            break
        raise Unsupported("clone: the chain does not end with `else: raise TypeError`")
    return sorted(table.items())


def _retarget(fn):
    """deep_copy_annotations_from: inside `for a1 in other._annotations`: `a2 = copy.deepcopy(a1, memo..)`;
    `if a2.is_attribute and a1._value[0] is other: a2._value = (self, a1._value[1])` (the two tests may be nested ifs, `_value` may go
    through a temporary); after the loop `memo[id(other._annotations)] = self._annotations`.
    returns (whose is_attribute is tested: 'copy'|'source', whose owner is compared with `other`: 'copy'|'source'); raises Unsupported
    when any of the three parts is not found in a recognised shape"""
    fn = _dealias(fn)
    args = [a.arg for a in fn.args.args]
    if len(args) < 2:
        raise Unsupported("deep_copy_annotations_from: unexpected signature")
    me, other = args[0], args[1]
    loop = None
    for n in ast.walk(fn):
        if isinstance(n, ast.For) and isinstance(n.iter, ast.Attribute) and n.iter.attr == "_annotations" and isinstance(n.iter.value, ast.Name) \
                and n.iter.value.id == other and isinstance(n.target, ast.Name):
            if loop is not None:
                raise Unsupported("deep_copy_annotations_from: two loops over the annotations")
            loop = n
    if loop is None:
        raise Unsupported("deep_copy_annotations_from: no loop over other._annotations")
    a1 = loop.target.id
    a2 = None
    cond = None
    added = False
    for s in loop.body:
        if isinstance(s, ast.Assign) and len(s.targets) == 1 and isinstance(s.targets[0], ast.Name) and isinstance(s.value, ast.Call) \
                and isinstance(s.value.func, ast.Attribute) and s.value.func.attr == "deepcopy" and s.value.args \
                and isinstance(s.value.args[0], ast.Name) and s.value.args[0].id == a1:
            if a2 is not None:
                raise Unsupported("deep_copy_annotations_from: the annotation is copied twice")
            a2 = s.targets[0].id
        elif isinstance(s, ast.If) and not s.orelse:
            if cond is not None:
                raise Unsupported("deep_copy_annotations_from: two conditionals in the loop")
            cond = s
        elif isinstance(s, ast.Expr) and isinstance(s.value, ast.Call) and isinstance(s.value.func, ast.Attribute) and s.value.func.attr == "add" \
                and len(s.value.args) == 1 and isinstance(s.value.args[0], ast.Name) and s.value.args[0].id == a2:
            added = True
        elif isinstance(s, ast.Assign) and len(s.targets) == 1 and isinstance(s.targets[0], ast.Subscript) \
                and isinstance(s.targets[0].value, ast.Name) and s.targets[0].value.id == "memo":
            continue      # memo[id(a1)] = a2
        elif _is_docstring(s):
            continue
        else:
            raise Unsupported("deep_copy_annotations_from: unsupported statement in the loop: %s" % ast.dump(s)[:120])
    if a2 is None or cond is None or not added:
        raise Unsupported("deep_copy_annotations_from: loop body not of the shape copy / re-target / add")
    # flatten `if A and B:` / `if A: [tmp = pure;] if B:` into the list of tests and the innermost body
    tests = _flatten(cond.test, ast.And)
    body = list(cond.body)
    temps = {}
    while True:
        while body and isinstance(body[0], ast.Assign) and len(body[0].targets) == 1 and isinstance(body[0].targets[0], ast.Name) \
                and _pure(_subst(body[0].value, temps)):
            temps[body[0].targets[0].id] = _subst(body[0].value, temps)
            body = body[1:]
        if len(body) == 1 and isinstance(body[0], ast.If) and not body[0].orelse:
            tests += _flatten(_subst(body[0].test, temps), ast.And)
            body = list(body[0].body)
            continue
        break
    if len(tests) != 2:
        raise Unsupported("deep_copy_annotations_from: the re-target condition is not a conjunction of two tests")
    bound = owner = None
    for v in tests:
        if isinstance(v, ast.Attribute) and v.attr == "is_attribute" and isinstance(v.value, ast.Name) and v.value.id in (a1, a2):
            bound = "copy" if v.value.id == a2 else "source"
        elif isinstance(v, ast.Compare) and len(v.ops) == 1 and isinstance(v.ops[0], ast.Is):
            l, r = v.left, v.comparators[0]
            if isinstance(l, ast.Name):
                l, r = r, l
            if isinstance(l, ast.Subscript) and isinstance(l.value, ast.Attribute) and l.value.attr == "_value" and isinstance(l.value.value, ast.Name) \
                    and l.value.value.id in (a1, a2) and isinstance(l.slice, ast.Constant) and l.slice.value == 0 \
                    and isinstance(r, ast.Name) and r.id == other:
                owner = "source" if l.value.value.id == a1 else "copy"
    if bound is None or owner is None:
        raise Unsupported("deep_copy_annotations_from: unsupported re-target test %s" % "; ".join(ast.dump(t)[:80] for t in tests))
    if len(body) != 1 or not isinstance(body[0], ast.Assign):
        raise Unsupported("deep_copy_annotations_from: re-target body is not one assignment")
    asg = _subst(body[0], temps)
    tg = asg.targets[0]
    if not (isinstance(tg, ast.Attribute) and tg.attr == "_value" and isinstance(tg.value, ast.Name) and tg.value.id == a2):
        raise Unsupported("deep_copy_annotations_from: re-target does not assign the copy's _value")
    v = asg.value
    if not (isinstance(v, ast.Tuple) and len(v.elts) == 2 and isinstance(v.elts[0], ast.Name) and v.elts[0].id == me):
        raise Unsupported("deep_copy_annotations_from: new _value is not (self, name)")
    n1 = v.elts[1]
    if not (isinstance(n1, ast.Subscript) and isinstance(n1.value, ast.Attribute) and n1.value.attr == "_value" and isinstance(n1.value.value, ast.Name)
            and n1.value.value.id == a1 and isinstance(n1.slice, ast.Constant) and n1.slice.value == 1):
        raise Unsupported("deep_copy_annotations_from: attribute name is not <source annotation>._value[1]")
    # final registration memo[id(other._annotations)] = self._annotations: found positively, or Unsupported
    reg = False
    for n in ast.walk(fn):
        if isinstance(n, ast.Assign) and len(n.targets) == 1 and isinstance(n.targets[0], ast.Subscript) and isinstance(n.targets[0].value, ast.Name) \
                and n.targets[0].value.id == "memo" and isinstance(n.value, ast.Attribute) and n.value.attr == "_annotations" \
                and isinstance(n.value.value, ast.Name) and n.value.value.id == me:
            key = n.targets[0].slice
            if isinstance(key, ast.Call) and isinstance(key.func, ast.Name) and key.func.id == "id" and len(key.args) == 1 \
                    and isinstance(key.args[0], ast.Attribute) and key.args[0].attr == "_annotations" \
                    and isinstance(key.args[0].value, ast.Name) and key.args[0].value.id == other:
                reg = True
    if not reg:
        raise Unsupported("deep_copy_annotations_from: the registration memo[id(other._annotations)] = self._annotations was not "
                          "found in a recognised shape")
    return bound, owner, True


def _populate(fn, module, cls):
    """populate_memo_for_taxon_namespace_scoped_copy: `memo[id(self)] = self` and every taxon to itself
    (`for taxon in self._taxa: memo[id(taxon)] = taxon`, or `memo.update(...)` over a generator / list or dict comprehension / dict
    literal), under `if memo is not None:` or after `if memo is None: return`.  EVERY statement must be recognised; the two results
    are then a reading of the whole function (false = understood completely and the effect is absent)."""
    fn = _dealias(_inline_calls(fn, module, cls))
    args = [a.arg for a in fn.args.args]
    if len(args) != 2:
        raise Unsupported("populate_memo: unexpected signature")
    me, memo = args
    seen = {"self": False, "taxa": False}

    def is_id_of(key, name):
        return isinstance(key, ast.Call) and isinstance(key.func, ast.Name) and key.func.id == "id" and len(key.args) == 1 \
            and not key.keywords and isinstance(key.args[0], ast.Name) and key.args[0].id == name

    def is_members(it):
        return (isinstance(it, ast.Attribute) and it.attr == "_taxa" and isinstance(it.value, ast.Name) and it.value.id == me) \
            or (isinstance(it, ast.Name) and it.id == me)

    def is_none_test(t, positive):
        if not (isinstance(t, ast.Compare) and len(t.ops) == 1 and isinstance(t.left, ast.Name) and t.left.id == memo
                and isinstance(t.comparators[0], ast.Constant) and t.comparators[0].value is None):
            return False
        return isinstance(t.ops[0], ast.Is if positive else ast.IsNot)

    def is_return(s):
        return isinstance(s, ast.Return) and (s.value is None or (isinstance(s.value, ast.Constant) and s.value.value is None)
                                               or (isinstance(s.value, ast.Name) and s.value.id in (memo, me)))

    def seed_pair(k, v, var):
        return is_id_of(k, var) and isinstance(v, ast.Name) and v.id == var

    def comp_over_members(gens, var_of):
        if len(gens) != 1 or gens[0].ifs or gens[0].is_async or not isinstance(gens[0].target, ast.Name) or not is_members(gens[0].iter):
            return None
        return gens[0].target.id

    def process(stmts):
        for s in stmts:
            if _is_docstring(s) or isinstance(s, ast.Pass) or is_return(s):
                continue
            if isinstance(s, ast.If) and is_none_test(s.test, True) and all(is_return(b) for b in s.body):
                process(s.orelse)
                continue
            if isinstance(s, ast.If) and is_none_test(s.test, False) and all(is_return(b) or isinstance(b, ast.Pass) for b in s.orelse):
                process(s.body)
                continue
            if isinstance(s, ast.Assign) and len(s.targets) == 1 and isinstance(s.targets[0], ast.Subscript) \
                    and isinstance(s.targets[0].value, ast.Name) and s.targets[0].value.id == memo:
                if seed_pair(s.targets[0].slice, s.value, me):
                    seen["self"] = True
                    continue
                raise Unsupported("populate_memo: an entry that does not map the namespace to itself: %s" % ast.dump(s)[:120])
            if isinstance(s, ast.For) and isinstance(s.target, ast.Name) and is_members(s.iter) and not s.orelse:
                var = s.target.id
                for b in s.body:
                    if isinstance(b, ast.Pass) or _is_docstring(b):
                        continue
                    if isinstance(b, ast.Assign) and len(b.targets) == 1 and isinstance(b.targets[0], ast.Subscript) \
                            and isinstance(b.targets[0].value, ast.Name) and b.targets[0].value.id == memo \
                            and seed_pair(b.targets[0].slice, b.value, var):
                        seen["taxa"] = True
                        continue
                    raise Unsupported("populate_memo: unsupported statement in the member loop: %s" % ast.dump(b)[:120])
                continue
            if isinstance(s, ast.Expr) and isinstance(s.value, ast.Call) and isinstance(s.value.func, ast.Attribute) \
                    and s.value.func.attr == "update" and isinstance(s.value.func.value, ast.Name) and s.value.func.value.id == memo \
                    and len(s.value.args) == 1 and not s.value.keywords:
                a = s.value.args[0]
                if isinstance(a, (ast.GeneratorExp, ast.ListComp)) and isinstance(a.elt, (ast.Tuple, ast.List)) and len(a.elt.elts) == 2:
                    var = comp_over_members(a.generators, None)
                    if var is not None and seed_pair(a.elt.elts[0], a.elt.elts[1], var):
                        seen["taxa"] = True
                        continue
                if isinstance(a, ast.DictComp):
                    var = comp_over_members(a.generators, None)
                    if var is not None and seed_pair(a.key, a.value, var):
                        seen["taxa"] = True
                        continue
                if isinstance(a, ast.Dict) and a.keys and all(k is not None and seed_pair(k, v, me) for k, v in zip(a.keys, a.values)):
                    seen["self"] = True
                    continue
                raise Unsupported("populate_memo: unsupported memo.update argument: %s" % ast.dump(a)[:120])
            raise Unsupported("populate_memo: unsupported statement: %s" % ast.dump(s)[:120])
    process(fn.body)
    return seen["self"], seen["taxa"]


def _lst(names):
    return "[" + ", ".join(lean_string(n) for n in names) + "]"


def generate(repo):
    bm = _src(repo, "src/dendropy/datamodel/basemodel.py")
    tm = _src(repo, "src/dendropy/datamodel/taxonmodel.py")
    out = ["namespace DendroModel.C12Copy", ""]
    for mod, qual, lean in ((bm, "Annotable.__deepcopy__", "skipAnnotable"), (tm, "Taxon.__deepcopy__", "skipTaxon"),
                            (tm, "TaxonNamespace.__deepcopy__", "skipNamespace")):
        fn = find_function(mod, qual)
        skipped, idx = _attr_loop(fn, qual)
        _annotations_last(fn, idx, qual)
        out.append("/-- attributes the attribute loop of %s skips (annotations are copied after the loop) -/" % qual)
        out.append("def %s : List String := %s" % (lean, _lst(skipped)))
        if lean == "skipNamespace":
            out.append("/-- attributes %s builds (members deep-copied) before the loop -/" % qual)
            out.append("def firstNamespace : List String := %s" % _lst(_namespace_first(fn, idx, skipped)))
    table = _clone_table(find_function(bm, "DataObject.clone"))
    out.append("/-- DataObject.clone(depth): which copy a depth selects; any other depth raises TypeError -/")
    out.append("def cloneTable : List (Nat × String) := [" + ", ".join('(%d, "%s")' % kv for kv in table) + "]")
    bound, owner, reg = _retarget(find_function(bm, "Annotable.deep_copy_annotations_from"))
    out.append("/-- re-targeting in deep_copy_annotations_from: whose `is_attribute` is tested, whose `_value[0]` is compared with the source owner -/")
    out.append("def retargetBoundTestOn : String := %s" % lean_string(bound))
    out.append("def retargetOwnerTestOn : String := %s" % lean_string(owner))
    out.append("/-- `memo[id(other._annotations)] = self._annotations` at the end -/")
    out.append("def registersAnnotationSet : Bool := %s" % ("true" if reg else "false"))
    nscls = [n for n in tm.body if isinstance(n, ast.ClassDef) and n.name == "TaxonNamespace"]
    if len(nscls) != 1:
        raise Unsupported("cannot find class TaxonNamespace")
    s1, s2 = _populate(find_function(tm, "TaxonNamespace.populate_memo_for_taxon_namespace_scoped_copy"), tm, nscls[0])
    out.append("/-- populate_memo_for_taxon_namespace_scoped_copy seeds the namespace / every taxon to itself -/")
    out.append("def seedsNamespace : Bool := %s" % ("true" if s1 else "false"))
    out.append("def seedsTaxa : Bool := %s" % ("true" if s2 else "false"))
    out += ["", "end DendroModel.C12Copy"]
    return "\n".join(out) + "\n"
