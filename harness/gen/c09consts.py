"""Gen/C09Consts.lean: closed-form kernels of the character-matrix readers/writers, read off the current source:

* PHYLIP strict label width: `phylipwriter.STRICT_MODE_MAX_LABEL_LENGTH` as used by `PhylipWriter.get_taxon_label_map`
  (slice width, pad width) and the literal column at which `PhylipReader._parse_taxon_from_line` cuts a strict line
  (label slice `line[:k]`, rest `line[k:]`);
* FASTA: default `wrap`, default `wrap_width` of `FastaWriter.__init__` and the comparison that breaks a line in
  `_write_char_matrix`;
* NEXUS: the DATATYPE keyword chain of `NexusReader._parse_format_statement` (keyword -> data type, the fall-through
  type and the symbol list it installs) and the reader's initial gap / missing / match characters.

Only literals, module-level integer constants and one level of straight-line local names are accepted; anything else
raises Unsupported (never a guess)."""
import ast
import os

from extract import Unsupported, find_function, lean_string

NAME = "C09Consts"


def _module_ints(tree):
    env = {}
    for n in tree.body:
        if isinstance(n, ast.Assign) and len(n.targets) == 1 and isinstance(n.targets[0], ast.Name) \
                and isinstance(n.value, ast.Constant) and isinstance(n.value.value, int) and not isinstance(n.value.value, bool):
            env[n.targets[0].id] = n.value.value
    return env


def _int(node, env, what):
    if isinstance(node, ast.Constant) and isinstance(node.value, int) and not isinstance(node.value, bool):
        return node.value
    if isinstance(node, ast.Name) and node.id in env:
        return env[node.id]
    raise Unsupported("%s is not an integer literal or module constant: %s" % (what, ast.dump(node)[:80]))


def _is_self_attr(node, attr):
    return isinstance(node, ast.Attribute) and node.attr == attr and isinstance(node.value, ast.Name) and node.value.id == "self"


def _strict_branch(fn, what):
    """bodies of every `if self.strict:` in fn (the else branch of `if not self.strict`)"""
    out = []
    for n in ast.walk(fn):
        if isinstance(n, ast.If):
            if _is_self_attr(n.test, "strict"):
                out.append(n.body)
            elif isinstance(n.test, ast.UnaryOp) and isinstance(n.test.op, ast.Not) and _is_self_attr(n.test.operand, "strict"):
                out.append(n.orelse)
    if not out:
        raise Unsupported("%s: no `if self.strict` branch" % what)
    return out


def _phylip_writer(repo):
    tree = ast.parse(open(os.path.join(repo, "src/dendropy/dataio/phylipwriter.py")).read())
    env = dict(_module_ints(tree))
    fn = find_function(tree, "PhylipWriter.get_taxon_label_map")
    slices, pads = set(), set()
    for body in _strict_branch(fn, "get_taxon_label_map"):
        local = dict(env)
        for s in body:                       # straight-line local names first (max_label_len = CONSTANT)
            if isinstance(s, ast.Assign) and len(s.targets) == 1 and isinstance(s.targets[0], ast.Name):
                try:
                    local[s.targets[0].id] = _int(s.value, local, "local")
                except Unsupported:
                    pass
        env.update({k: v for k, v in local.items() if k not in env})
    for body in _strict_branch(fn, "get_taxon_label_map"):
        for s in body:
            for n in ast.walk(s):
                if isinstance(n, ast.Subscript) and isinstance(n.slice, ast.Slice):
                    if n.slice.lower is not None or n.slice.step is not None or n.slice.upper is None:
                        raise Unsupported("get_taxon_label_map: strict label slice is not label[:k]")
                    slices.add(_int(n.slice.upper, env, "strict slice width"))
                if isinstance(n, ast.Call) and isinstance(n.func, ast.Attribute) and n.func.attr == "ljust":
                    if len(n.args) != 1:
                        raise Unsupported("get_taxon_label_map: ljust with a fill character")
                    pads.add(_int(n.args[0], env, "strict pad width"))
    if len(slices) != 1 or len(pads) != 1:
        raise Unsupported("get_taxon_label_map: expected one slice width and one pad width, found %s / %s" % (sorted(slices), sorted(pads)))
    # the spacer between label and sequence: "" when strict, a literal otherwise
    w = find_function(tree, "PhylipWriter._write_char_matrix")
    spacers = {}
    for n in ast.walk(w):
        if isinstance(n, ast.Assign) and len(n.targets) == 1 and isinstance(n.targets[0], ast.Name) and n.targets[0].id == "spacer":
            if not (isinstance(n.value, ast.Constant) and isinstance(n.value.value, str)):
                raise Unsupported("_write_char_matrix: spacer is not a string literal")
            spacers[n.value.value] = True
    if set(spacers) - {"", "  "} or "" not in spacers:
        raise Unsupported("_write_char_matrix: spacers %r" % sorted(spacers))
    relaxed = [s for s in spacers if s]
    if len(relaxed) != 1:
        raise Unsupported("_write_char_matrix: relaxed spacer not unique")
    return slices.pop(), pads.pop(), len(relaxed[0])


def _phylip_reader(repo):
    tree = ast.parse(open(os.path.join(repo, "src/dendropy/dataio/phylipreader.py")).read())
    env = _module_ints(tree)
    fn = find_function(tree, "PhylipReader._parse_taxon_from_line")
    lab, rest = set(), set()
    for body in _strict_branch(fn, "_parse_taxon_from_line"):
        for s in body:
            for n in ast.walk(s):
                if isinstance(n, ast.Subscript) and isinstance(n.slice, ast.Slice) and isinstance(n.value, ast.Name) and n.value.id == "line":
                    sl = n.slice
                    if sl.step is not None:
                        raise Unsupported("_parse_taxon_from_line: stepped slice")
                    if sl.lower is None and sl.upper is not None:
                        lab.add(_int(sl.upper, env, "strict label column"))
                    elif sl.upper is None and sl.lower is not None:
                        rest.add(_int(sl.lower, env, "strict sequence column"))
                    else:
                        raise Unsupported("_parse_taxon_from_line: slice is neither line[:k] nor line[k:]")
    if len(lab) != 1 or len(rest) != 1:
        raise Unsupported("_parse_taxon_from_line: strict columns %s / %s" % (sorted(lab), sorted(rest)))
    return lab.pop(), rest.pop()


def _fasta(repo):
    tree = ast.parse(open(os.path.join(repo, "src/dendropy/dataio/fastawriter.py")).read())
    init = find_function(tree, "FastaWriter.__init__")
    got = {}
    for n in ast.walk(init):
        if isinstance(n, ast.Assign) and len(n.targets) == 1 and _is_self_attr(n.targets[0], "wrap") or \
                isinstance(n, ast.Assign) and len(n.targets) == 1 and _is_self_attr(n.targets[0], "wrap_width"):
            v = n.value
            if not (isinstance(v, ast.Call) and isinstance(v.func, ast.Attribute) and v.func.attr in ("get", "pop") and len(v.args) == 2
                    and isinstance(v.args[0], ast.Constant) and v.args[0].value == n.targets[0].attr and isinstance(v.args[1], ast.Constant)):
                raise Unsupported("FastaWriter.__init__: %s is not kwargs.get(name, literal)" % n.targets[0].attr)
            got[n.targets[0].attr] = v.args[1].value
    if not isinstance(got.get("wrap"), bool) or not isinstance(got.get("wrap_width"), int) or isinstance(got.get("wrap_width"), bool):
        raise Unsupported("FastaWriter.__init__: defaults of wrap / wrap_width not found: %r" % got)
    w = find_function(tree, "FastaWriter._write_char_matrix")
    tests = []
    for n in ast.walk(w):
        if isinstance(n, ast.Compare) and len(n.ops) == 1 and len(n.comparators) == 1:
            a, b = n.left, n.comparators[0]
            if _is_self_attr(a, "wrap_width") or _is_self_attr(b, "wrap_width"):
                other = b if _is_self_attr(a, "wrap_width") else a
                if not isinstance(other, ast.Name):
                    raise Unsupported("_write_char_matrix: wrap_width compared with an expression")
                op = n.ops[0]
                # col == width, or col >= width (the counter grows by one from zero, so both break at the same column)
                ok = isinstance(op, ast.Eq) or (isinstance(op, ast.GtE) and other is a) or (isinstance(op, ast.LtE) and other is b)
                if not ok:
                    raise Unsupported("_write_char_matrix: line break test is not `count == wrap_width`")
                tests.append(other.id)
    if len(tests) != 1:
        raise Unsupported("_write_char_matrix: %d comparisons with wrap_width" % len(tests))
    # the counter must restart at zero after the break and count every symbol
    resets = [n for n in ast.walk(w) if isinstance(n, ast.Assign) and len(n.targets) == 1 and isinstance(n.targets[0], ast.Name)
              and n.targets[0].id == tests[0]]
    if not resets or any(not (isinstance(r.value, ast.Constant) and r.value.value == 0) for r in resets):
        raise Unsupported("_write_char_matrix: the column counter is not reset to 0")
    incs = [n for n in ast.walk(w) if isinstance(n, ast.AugAssign) and isinstance(n.target, ast.Name) and n.target.id == tests[0]]
    if len(incs) != 1 or not (isinstance(incs[0].op, ast.Add) and isinstance(incs[0].value, ast.Constant) and incs[0].value.value == 1):
        raise Unsupported("_write_char_matrix: the column counter is not incremented by 1")
    return got["wrap"], got["wrap_width"]


def _tok_names(test):
    """`token == "A" or token == "B"` / `token in ("A", "B")` -> ["A", "B"]"""
    if isinstance(test, ast.BoolOp) and isinstance(test.op, ast.Or):
        return [x for v in test.values for x in _tok_names(v)]
    if isinstance(test, ast.Compare) and len(test.ops) == 1 and len(test.comparators) == 1:
        a, b = test.left, test.comparators[0]
        if isinstance(test.ops[0], ast.Eq):
            if isinstance(a, ast.Constant):
                a, b = b, a
            if isinstance(a, ast.Name) and a.id == "token" and isinstance(b, ast.Constant) and isinstance(b.value, str):
                return [b.value]
        if isinstance(test.ops[0], ast.In) and isinstance(a, ast.Name) and a.id == "token" and isinstance(b, (ast.Tuple, ast.List, ast.Set)) \
                and all(isinstance(e, ast.Constant) and isinstance(e.value, str) for e in b.elts):
            return [e.value for e in b.elts]
    raise Unsupported("DATATYPE chain: unsupported test %s" % ast.dump(test)[:80])


def _self_assigns(stmts):
    out = {}
    for s in stmts:
        if isinstance(s, ast.Expr) and isinstance(s.value, ast.Constant):
            continue
        if isinstance(s, ast.Assign) and len(s.targets) == 1 and isinstance(s.targets[0], ast.Attribute) \
                and isinstance(s.targets[0].value, ast.Name) and s.targets[0].value.id == "self" \
                and isinstance(s.value, ast.Constant) and isinstance(s.value.value, str):
            out[s.targets[0].attr] = s.value.value
        else:
            raise Unsupported("DATATYPE chain: statement outside the subset: %s" % ast.dump(s)[:80])
    return out


def _nexus_reader(repo):
    tree = ast.parse(open(os.path.join(repo, "src/dendropy/dataio/nexusreader.py")).read())
    fn = find_function(tree, "NexusReader._parse_format_statement")
    chain = None
    for n in ast.walk(fn):
        if isinstance(n, ast.If):
            try:
                names = _tok_names(n.test)
            except Unsupported:
                continue
            if "DNA" in names or "RNA" in names or "PROTEIN" in names:
                chain = n
                break
    if chain is None:
        raise Unsupported("_parse_format_statement: DATATYPE keyword chain not found")
    table, default = [], None
    node = chain
    while True:
        names = _tok_names(node.test)
        a = _self_assigns(node.body)
        if set(a) != {"_data_type"}:
            raise Unsupported("DATATYPE chain: branch for %s sets %s" % (names, sorted(a)))
        for nm in names:
            if nm in [t[0] for t in table]:
                raise Unsupported("DATATYPE chain: keyword %s twice" % nm)
            table.append((nm, a["_data_type"]))
        if len(node.orelse) == 1 and isinstance(node.orelse[0], ast.If):
            node = node.orelse[0]
            continue
        default = _self_assigns(node.orelse)
        break
    if set(default) != {"_data_type", "_symbols"}:
        raise Unsupported("DATATYPE chain: fall-through sets %s" % sorted(default))
    init = find_function(tree, "NexusReader.__init__")
    ini = {}
    for n in ast.walk(init):
        if isinstance(n, ast.Assign) and len(n.targets) == 1 and isinstance(n.targets[0], ast.Attribute) \
                and n.targets[0].attr in ("_gap_char", "_missing_char", "_match_char", "_symbols", "_interleave"):
            v = n.value
            if n.targets[0].attr == "_match_char":
                if not (isinstance(v, ast.Call) and getattr(v.func, "id", None) in ("frozenset", "set") and len(v.args) == 1
                        and isinstance(v.args[0], ast.Constant) and isinstance(v.args[0].value, str)):
                    raise Unsupported("NexusReader.__init__: _match_char is not frozenset(literal)")
                ini["_match_char"] = "".join(sorted(set(v.args[0].value)))
            elif isinstance(v, ast.Constant):
                ini[n.targets[0].attr] = v.value
            else:
                raise Unsupported("NexusReader.__init__: %s is not a literal" % n.targets[0].attr)
    for k in ("_gap_char", "_missing_char", "_match_char", "_symbols", "_interleave"):
        if k not in ini:
            raise Unsupported("NexusReader.__init__ does not set %s" % k)
    if not isinstance(ini["_interleave"], bool):
        raise Unsupported("NexusReader.__init__: _interleave is not a boolean literal")
    return table, default, ini


def facts(repo):
    """the extracted kernels as a plain dict (also used by the search hook of props/c09.py)"""
    sw, pw, spacer = _phylip_writer(repo)
    rl, rr = _phylip_reader(repo)
    wrap, width = _fasta(repo)
    table, default, ini = _nexus_reader(repo)
    return {"phylip_slice": sw, "phylip_pad": pw, "phylip_spacer": spacer, "phylip_read_label": rl, "phylip_read_rest": rr,
            "fasta_wrap": wrap, "fasta_width": width, "datatypes": table, "datatype_default": default, "reader_init": ini}


def generate(repo):
    f = facts(repo)
    ini, d = f["reader_init"], f["datatype_default"]
    out = ["namespace DendroModel.C09Consts", "",
           "/-- PhylipWriter.get_taxon_label_map, strict: labels are cut to this many characters … -/",
           "def phylipStrictSlice : Nat := %d" % f["phylip_slice"],
           "/-- … and padded to this many -/",
           "def phylipStrictPad : Nat := %d" % f["phylip_pad"],
           "/-- blanks between label and sequence in relaxed PHYLIP -/",
           "def phylipRelaxedSpacer : Nat := %d" % f["phylip_spacer"],
           "/-- PhylipReader._parse_taxon_from_line, strict: the label is `line[:k]`, the sequence starts at `line[k:]` -/",
           "def phylipStrictReadLabel : Nat := %d" % f["phylip_read_label"],
           "def phylipStrictReadRest : Nat := %d" % f["phylip_read_rest"],
           "/-- FastaWriter defaults -/",
           "def fastaWrap : Bool := %s" % ("true" if f["fasta_wrap"] else "false"),
           "def fastaWrapWidth : Nat := %d" % f["fasta_width"],
           "/-- NexusReader._parse_format_statement: DATATYPE keyword -> data type, in source order -/",
           "def datatypeKeywords : List (String × String) := [" + ", ".join("(%s, %s)" % (lean_string(a), lean_string(b)) for a, b in f["datatypes"]) + "]",
           "def datatypeDefault : String := " + lean_string(d["_data_type"]),
           "def datatypeDefaultSymbols : String := " + lean_string(d["_symbols"]),
           "/-- NexusReader.__init__ -/",
           "def readerGap : String := " + lean_string(ini["_gap_char"]),
           "def readerMissing : String := " + lean_string(ini["_missing_char"]),
           "def readerMatch : String := " + lean_string(ini["_match_char"]),
           "def readerSymbols : String := " + lean_string(ini["_symbols"]),
           "def readerInterleave : Bool := %s" % ("true" if ini["_interleave"] else "false"),
           "", "end DendroModel.C09Consts"]
    return "\n".join(out) + "\n"
