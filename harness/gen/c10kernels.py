"""Gen/C10Kernels.lean: the closed-form kernels inside the mechanisms anchored by property C10, read off the *current* source:

  TaxonNamespace.taxon_bitmask        the value computed, memoised and returned on a cache miss, as a function of the
                                      accession index (`1 << i`); the memo must be read first and must store what is returned
  TaxonNamespace.all_taxa_bitmask     as a function of `_current_accession_count`
  TaxonNamespace.bitmask_taxa_list    loop condition, bit test, next mask, next index, default start index; the taxon must come
                                      from `_accession_index_taxon_map[index]`
  TaxonNamespace.bitmask_as_bitstring = bitprocessing.int_as_bitstring(b, length=count), partially evaluated at the call's
                                      arguments (symbol0/symbol1/reverse at their defaults), as an expression over bin / slicing / rjust
  nexusprocessing.bitmask_as_newick_string   the test for the two trivial masks, the side test (`split & taxon_bitmask(taxon)` of the
                                      member itself - not of its list position), the separators and the two format strings

Each kernel is located by its shape; straight-line temporaries are inlined (so introducing or removing one is harmless); commuted
operands and equivalent forms (`2 ** i`, `(1 << c) - 1` written in one line, `bitmask >>= 1`, ...) are left to the bridge theorems
`kernel_*` in Props/C10.lean.  Anything outside the subset raises `Unsupported` (= broken obligation), never a guess."""
import ast
import copy
import os

from extract import Unsupported, find_function, lean_string

NAME = "C10Kernels"


def _src(n):
    try:
        return ast.unparse(n)
    except Exception:
        return "?"


def strip_doc(stmts):
    if stmts and isinstance(stmts[0], ast.Expr) and isinstance(stmts[0].value, ast.Constant) and isinstance(stmts[0].value.value, str):
        return stmts[1:]
    return stmts


# ---------------------------------------------------------------- integer expressions
BIN = {ast.BitAnd: "pyAnd", ast.BitOr: "pyOr", ast.BitXor: "pyXor", ast.LShift: "pyShl", ast.RShift: "pyShr"}
ARITH = {ast.Sub: "-", ast.Add: "+", ast.Mult: "*"}
CMP = {ast.Eq: "=", ast.NotEq: "≠", ast.Lt: "<", ast.LtE: "≤", ast.Gt: ">", ast.GtE: "≥"}


def ix(e, names):
    """int-valued expression over the given parameter names"""
    if isinstance(e, ast.Name):
        if e.id not in names:
            raise Unsupported("free name %s in kernel expression" % e.id)
        return e.id
    if isinstance(e, ast.Constant) and isinstance(e.value, int) and not isinstance(e.value, bool):
        return "(%d : Int)" % e.value
    if isinstance(e, ast.BinOp):
        if type(e.op) in BIN:
            return "(%s %s %s)" % (BIN[type(e.op)], ix(e.left, names), ix(e.right, names))
        if type(e.op) in ARITH:
            return "(%s %s %s)" % (ix(e.left, names), ARITH[type(e.op)], ix(e.right, names))
        if isinstance(e.op, ast.Pow):
            return "(%s ^ (%s).toNat)" % (ix(e.left, names), ix(e.right, names))
        raise Unsupported("operator %s" % type(e.op).__name__)
    if isinstance(e, ast.UnaryOp) and isinstance(e.op, ast.Invert):
        return "(pyNot %s)" % ix(e.operand, names)
    if isinstance(e, ast.UnaryOp) and isinstance(e.op, ast.USub):
        return "(- %s)" % ix(e.operand, names)
    if isinstance(e, ast.Call) and isinstance(e.func, ast.Name) and e.func.id == "pow" and len(e.args) == 2 and not e.keywords:
        return "(%s ^ (%s).toNat)" % (ix(e.args[0], names), ix(e.args[1], names))
    raise Unsupported("expression outside the integer subset: %s" % _src(e)[:100])


def bx(e, names):
    """Python truthiness"""
    if isinstance(e, ast.Compare) and len(e.ops) == 1 and type(e.ops[0]) in CMP:
        return "(decide (%s %s %s))" % (ix(e.left, names), CMP[type(e.ops[0])], ix(e.comparators[0], names))
    if isinstance(e, ast.BoolOp):
        return "(" + (" || " if isinstance(e.op, ast.Or) else " && ").join(bx(v, names) for v in e.values) + ")"
    if isinstance(e, ast.UnaryOp) and isinstance(e.op, ast.Not):
        return "(!%s)" % bx(e.operand, names)
    return "(decide (%s ≠ 0))" % ix(e, names)


class _Inline(ast.NodeTransformer):
    """replace names by the expressions bound to them, and given source forms by parameter names"""

    def __init__(self, env, forms):
        self.env, self.forms = env, forms

    def generic_visit(self, node):
        if isinstance(node, ast.expr):
            d = _src(node)
            if d in self.forms:
                return ast.Name(id=self.forms[d], ctx=ast.Load())
        return super().generic_visit(node)

    def visit_Name(self, node):
        if node.id in self.env:
            return copy.deepcopy(self.env[node.id])
        return node


def inline(e, env, forms):
    return ast.fix_missing_locations(_Inline(env, forms).visit(copy.deepcopy(e)))


def straight_line(stmts, forms, what, sinks=()):
    """symbolic run of `name = expr` statements; returns (returned expression, {sink source: stored expression}), temporaries inlined.
    `sinks`: source forms of subscript targets whose stored value is recorded (a memo)"""
    env, stored, ret = {}, {}, None
    for s in stmts:
        if isinstance(s, ast.Assign) and len(s.targets) == 1 and isinstance(s.targets[0], ast.Name):
            env[s.targets[0].id] = inline(s.value, env, forms)
        elif isinstance(s, ast.Assign) and len(s.targets) == 1 and _src(s.targets[0]) in sinks:
            stored[_src(s.targets[0])] = inline(s.value, env, forms)
        elif isinstance(s, ast.Return) and s.value is not None:
            ret = inline(s.value, env, forms)
            break
        else:
            raise Unsupported("%s: statement outside the kernel subset: %s" % (what, _src(s)[:100]))
    if ret is None:
        raise Unsupported("%s: no return" % what)
    return ret, stored


def define(name, params, rettype, body, doc=None):
    sig = " ".join("(%s : %s)" % (" ".join(ns), ty) for ns, ty in params if ns)
    return ("/-- %s -/\n" % doc if doc else "") + "def %s %s: %s :=\n  %s\n" % (name, sig + " " if sig else "", rettype, body)


# ---------------------------------------------------------------- the kernels of taxonmodel.py
def k_taxon_bitmask(tax):
    fn = find_function(tax, "TaxonNamespace.taxon_bitmask")
    body = strip_doc(fn.body)
    if len(body) != 1 or not isinstance(body[0], ast.Try) or len(body[0].handlers) != 1 or body[0].orelse or body[0].finalbody:
        raise Unsupported("taxon_bitmask: not a single try/except around the memo lookup")
    t = body[0]
    if len(t.body) != 1 or _src(t.body[0]) != "return self._taxon_bitmask_map[taxon]":
        raise Unsupported("taxon_bitmask: the memo `_taxon_bitmask_map[taxon]` is not what is tried first: %s" % _src(t.body[0])[:80])
    h = t.handlers[0]
    if h.type is None or _src(h.type) != "KeyError":
        raise Unsupported("taxon_bitmask: cache-miss handler does not catch KeyError")
    forms = {"self._taxon_accession_index_map[taxon]": "i"}
    ret, stored = straight_line(h.body, forms, "taxon_bitmask", sinks=("self._taxon_bitmask_map[taxon]",))
    if "self._taxon_bitmask_map[taxon]" not in stored:
        raise Unsupported("taxon_bitmask: the computed mask is not memoised")
    if ast.dump(stored["self._taxon_bitmask_map[taxon]"]) != ast.dump(ret):
        raise Unsupported("taxon_bitmask: the memoised value %s differs from the returned %s" % (
            _src(stored["self._taxon_bitmask_map[taxon]"]), _src(ret)))
    return define("taxon_bitmask", [(["i"], "Int")], "Int", ix(ret, ["i"]),
                  "`TaxonNamespace.taxon_bitmask` on a cache miss, as a function of the accession index: `%s`" % _src(ret))


def k_all_taxa(tax):
    fn = find_function(tax, "TaxonNamespace.all_taxa_bitmask")
    ret, _ = straight_line(strip_doc(fn.body), {"self._current_accession_count": "accession_count"}, "all_taxa_bitmask")
    return define("all_taxa_bitmask", [(["accession_count"], "Int")], "Int", ix(ret, ["accession_count"]),
                  "`TaxonNamespace.all_taxa_bitmask` as a function of `_current_accession_count`: `%s`" % _src(ret))


def _as_assign(s):
    if isinstance(s, ast.AugAssign) and isinstance(s.target, ast.Name):
        return s.target.id, ast.BinOp(left=ast.Name(id=s.target.id, ctx=ast.Load()), op=s.op, right=s.value)
    if isinstance(s, ast.Assign) and len(s.targets) == 1 and isinstance(s.targets[0], ast.Name):
        return s.targets[0].id, s.value
    return None


def k_bitmask_taxa_list(tax):
    fn = find_function(tax, "TaxonNamespace.bitmask_taxa_list")
    args = [a.arg for a in fn.args.args]
    if args != ["self", "bitmask", "index"] or len(fn.args.defaults) != 1:
        raise Unsupported("bitmask_taxa_list: signature changed: %s" % args)
    body = strip_doc(fn.body)
    if (len(body) != 3 or _src(body[0]) != "taxa = []" or not isinstance(body[1], ast.While) or body[1].orelse
            or _src(body[2]) != "return taxa"):
        raise Unsupported("bitmask_taxa_list: not `taxa = []; while ...; return taxa`")
    w = body[1]
    if len(w.body) != 3 or not isinstance(w.body[0], ast.If) or w.body[0].orelse or len(w.body[0].body) != 1:
        raise Unsupported("bitmask_taxa_list: loop body is not `if <bit>: taxa.append(...)` followed by the two steps")
    take = w.body[0]
    if _src(take.body[0]) != "taxa.append(self._accession_index_taxon_map[index])":
        raise Unsupported("bitmask_taxa_list: the taxon of a set bit is not `_accession_index_taxon_map[index]`: %s" % _src(take.body[0])[:100])
    steps = {}
    for s in w.body[1:]:
        a = _as_assign(s)
        if a is None or a[0] in steps or a[0] not in ("bitmask", "index"):
            raise Unsupported("bitmask_taxa_list: unexpected step %s" % _src(s)[:80])
        steps[a[0]] = a[1]
    if set(steps) != {"bitmask", "index"}:
        raise Unsupported("bitmask_taxa_list: the loop does not step both the mask and the index")
    out = [define("btl_default_index", [], "Int", ix(fn.args.defaults[0], []), "`TaxonNamespace.bitmask_taxa_list`: default of `index`"),
           define("btl_continue", [(["bitmask"], "Int")], "Bool", bx(w.test, ["bitmask"]), "loop condition `while %s`" % _src(w.test)),
           define("btl_take", [(["bitmask"], "Int")], "Bool", bx(take.test, ["bitmask"]), "bit test `if %s`" % _src(take.test)),
           define("btl_next_mask", [(["bitmask"], "Int")], "Int", ix(steps["bitmask"], ["bitmask"]), "`bitmask = %s`" % _src(steps["bitmask"])),
           define("btl_next_index", [(["index"], "Int")], "Int", ix(steps["index"], ["index"]), "`index = %s`" % _src(steps["index"]))]
    return "\n".join(out)


# ---------------------------------------------------------------- bitmask_as_bitstring -> int_as_bitstring, partially evaluated
def _const(e):
    if isinstance(e, ast.Constant) and (e.value is None or isinstance(e.value, (bool, str))):
        return e.value
    raise Unsupported("int_as_bitstring: argument/default %s is not None/bool/str" % _src(e))


class _Given(object):
    """an argument that is supplied at run time (known not to be None)"""


def sx(e, env, ints):
    """string-valued expression -> Lean `List Char` term"""
    if isinstance(e, ast.Name) and e.id in env and isinstance(env[e.id], str):
        return env[e.id]
    if isinstance(e, ast.Call) and isinstance(e.func, ast.Name) and e.func.id == "bin" and len(e.args) == 1 and not e.keywords \
            and isinstance(e.args[0], ast.Name) and e.args[0].id in ints:
        return "(pyBin %s)" % e.args[0].id
    if isinstance(e, ast.Call) and isinstance(e.func, ast.Name) and e.func.id == "format" and len(e.args) == 2 and not e.keywords \
            and isinstance(e.args[0], ast.Name) and e.args[0].id in ints and isinstance(e.args[1], ast.Constant) and e.args[1].value == "b":
        return "(binDigits %s)" % e.args[0].id
    if isinstance(e, ast.Subscript) and isinstance(e.slice, ast.Slice):
        sl = e.slice
        if sl.upper is None and sl.step is None and isinstance(sl.lower, ast.Constant) and isinstance(sl.lower.value, int) \
                and not isinstance(sl.lower.value, bool) and sl.lower.value >= 0:
            return "(List.drop %d %s)" % (sl.lower.value, sx(e.value, env, ints))
        if sl.lower is None and sl.upper is None and isinstance(sl.step, ast.UnaryOp) and _src(sl.step) == "-1":
            return "(List.reverse %s)" % sx(e.value, env, ints)
        raise Unsupported("int_as_bitstring: slice %s" % _src(e))
    if isinstance(e, ast.Call) and isinstance(e.func, ast.Attribute) and e.func.attr in ("rjust", "ljust", "zfill") and not e.keywords:
        fn = e.func.attr
        if fn == "zfill":
            if len(e.args) != 1:
                raise Unsupported("int_as_bitstring: zfill arity")
            width, fill = e.args[0], "0"
        else:
            if len(e.args) == 1:
                width, fill = e.args[0], " "
            elif len(e.args) == 2 and isinstance(e.args[1], ast.Constant) and isinstance(e.args[1].value, str) and len(e.args[1].value) == 1:
                width, fill = e.args[0], e.args[1].value
            else:
                raise Unsupported("int_as_bitstring: fill argument of %s" % fn)
        if not (isinstance(width, ast.Name) and width.id in ints):
            raise Unsupported("int_as_bitstring: width %s" % _src(width))
        return "(%s %s %s (Char.ofNat %d))" % ("pyLjust" if fn == "ljust" else "pyRjust", sx(e.func.value, env, ints), width.id, ord(fill))
    raise Unsupported("int_as_bitstring: expression outside the string subset: %s" % _src(e)[:100])


def _fold_test(t, env):
    """truth value of a test over parameters whose None-ness / value is known, else None"""
    if isinstance(t, ast.Compare) and len(t.ops) == 1 and isinstance(t.left, ast.Name) and t.left.id in env \
            and isinstance(t.comparators[0], ast.Constant) and t.comparators[0].value is None and isinstance(t.ops[0], (ast.Is, ast.IsNot)):
        v = env[t.left.id]
        isnone = v is None
        if isinstance(v, str) and not isinstance(v, _Given):
            isnone = False
        return isnone if isinstance(t.ops[0], ast.Is) else not isnone
    if isinstance(t, ast.Name) and t.id in env and isinstance(env[t.id], bool):
        return env[t.id]
    if isinstance(t, ast.UnaryOp) and isinstance(t.op, ast.Not):
        v = _fold_test(t.operand, env)
        return None if v is None else not v
    return None


def _peval(stmts, env, ints):
    """returns the Lean term of the returned string, or None when the block falls through (env updated)"""
    for k, s in enumerate(stmts):
        if isinstance(s, ast.Return) and s.value is not None:
            return sx(s.value, env, ints)
        if isinstance(s, ast.Assign) and len(s.targets) == 1 and isinstance(s.targets[0], ast.Name) and s.targets[0].id not in ints:
            name = s.targets[0].id
            if name in env and not isinstance(env[name], str):
                raise Unsupported("int_as_bitstring: assignment to the parameter %s" % name)
            env[name] = sx(s.value, env, ints)
            continue
        if isinstance(s, ast.If):
            v = _fold_test(s.test, env)
            if v is None:
                raise Unsupported("int_as_bitstring: branch on %s cannot be decided from the call's arguments" % _src(s.test))
            r = _peval(s.body if v else s.orelse, env, ints)
            if r is not None:
                return r
            continue
        raise Unsupported("int_as_bitstring: statement outside the subset: %s" % _src(s)[:100])
    return None


def k_bitstring(tax, bitp):
    fn = find_function(tax, "TaxonNamespace.bitmask_as_bitstring")
    args = [a.arg for a in fn.args.args]
    body = strip_doc(fn.body)
    if len(args) != 2 or len(body) != 1 or not isinstance(body[0], ast.Return) or not isinstance(body[0].value, ast.Call):
        raise Unsupported("bitmask_as_bitstring: not a single returned call")
    call = body[0].value
    if _src(call.func) not in ("bitprocessing.int_as_bitstring", "int_as_bitstring"):
        raise Unsupported("bitmask_as_bitstring: does not delegate to bitprocessing.int_as_bitstring: %s" % _src(call.func))
    callee = find_function(bitp, "int_as_bitstring")
    if callee.args.vararg or callee.args.kwarg or callee.args.kwonlyargs:
        raise Unsupported("int_as_bitstring: signature")
    names = [a.arg for a in callee.args.args]
    defaults = dict(zip(names[len(names) - len(callee.args.defaults):], callee.args.defaults))
    given = {}
    for k, a in enumerate(call.args):
        given[names[k]] = a
    for kw in call.keywords:
        if kw.arg is None or kw.arg in given or kw.arg not in names:
            raise Unsupported("bitmask_as_bitstring: keyword %s" % kw.arg)
        given[kw.arg] = kw.value
    env, ints = {}, []
    for nm in names:
        if nm in given:
            d = _src(given[nm])
            if d == args[1]:
                env[nm] = _Given()
                ints.append((nm, "n"))
            elif d == "self._current_accession_count":
                env[nm] = _Given()
                ints.append((nm, "length"))
            else:
                env[nm] = _const(given[nm])
        elif nm in defaults:
            env[nm] = _const(defaults[nm])
        else:
            raise Unsupported("bitmask_as_bitstring: int_as_bitstring parameter %s is not supplied" % nm)
    roles = sorted(r for _, r in ints)
    if roles != ["length", "n"]:
        raise Unsupported("bitmask_as_bitstring: the call does not pass the mask and `length=self._current_accession_count`")
    for nm, v in env.items():
        if isinstance(v, str) and not isinstance(v, _Given):
            raise Unsupported("int_as_bitstring is called with the symbol %s=%r (only the default rendering is supported)" % (nm, v))
    # rename the callee's integer parameters to n / length
    ren = dict(ints)

    class R(ast.NodeTransformer):
        def visit_Name(self, node):
            return ast.copy_location(ast.Name(id=ren.get(node.id, node.id), ctx=node.ctx), node)
    stmts = [R().visit(copy.deepcopy(s)) for s in strip_doc(callee.body)]
    env2 = {ren.get(k, k): v for k, v in env.items()}
    term = _peval(stmts, env2, ["n", "length"])
    if term is None:
        raise Unsupported("int_as_bitstring: may fall off its end")
    return define("bitmask_as_bitstring", [(["n", "length"], "Nat")], "List Char", term,
                  "`TaxonNamespace.bitmask_as_bitstring(n)` = `int_as_bitstring(n, length=_current_accession_count)`, other parameters at their defaults")


# ---------------------------------------------------------------- nexusprocessing.bitmask_as_newick_string
def _format_pieces(e, nargs, what):
    """`"lit{}lit{}lit".format(a, b)` -> (literal pieces, argument nodes)"""
    if not (isinstance(e, ast.Call) and isinstance(e.func, ast.Attribute) and e.func.attr == "format" and not e.keywords
            and isinstance(e.func.value, ast.Constant) and isinstance(e.func.value.value, str) and len(e.args) == nargs):
        raise Unsupported("%s: not `<literal>.format(...)` with %d arguments: %s" % (what, nargs, _src(e)[:100]))
    pieces = e.func.value.value.split("{}")
    if len(pieces) != nargs + 1 or any("{" in p or "}" in p for p in pieces):
        raise Unsupported("%s: format string %r" % (what, e.func.value.value))
    return pieces, e.args


def _join(e, listname, what):
    if not (isinstance(e, ast.Call) and isinstance(e.func, ast.Attribute) and e.func.attr == "join" and len(e.args) == 1 and not e.keywords
            and isinstance(e.func.value, ast.Constant) and isinstance(e.func.value.value, str) and _src(e.args[0]) == listname):
        raise Unsupported("%s: not `<separator>.join(%s)`: %s" % (what, listname, _src(e)[:100]))
    return e.func.value.value


def k_newick(nxp):
    fn = find_function(nxp, "bitmask_as_newick_string")
    args = [a.arg for a in fn.args.args]
    if args != ["split", "taxon_set", "preserve_spaces", "quote_underscores"]:
        raise Unsupported("bitmask_as_newick_string: signature changed: %s" % args)
    body = [s for s in strip_doc(fn.body) if not isinstance(s, ast.Assert)]
    want0 = ("taxlabels = [escape_nexus_token(label, preserve_spaces=preserve_spaces, quote_underscores=quote_underscores) "
             "for label in taxon_set.labels()]")
    if not body or _src(body[0]) != want0:
        raise Unsupported("bitmask_as_newick_string: the token list is not escape_nexus_token over taxon_set.labels(): %s" % _src(body[0])[:160])
    rest = body[1:]
    if len(rest) != 5 or not isinstance(rest[0], ast.If) or rest[0].orelse or len(rest[0].body) != 1 or not isinstance(rest[0].body[0], ast.Return):
        raise Unsupported("bitmask_as_newick_string: no `if <trivial mask>: return <flat rendering>`")
    forms = {"taxon_set.all_taxa_bitmask()": "all_taxa_bitmask", "taxon_set.taxon_bitmask(taxon)": "taxon_bitmask"}
    triv = inline(rest[0].test, {}, forms)
    fp, fa = _format_pieces(rest[0].body[0].value, 1, "flat rendering")
    fsep = _join(fa[0], "taxlabels", "flat rendering")
    if sorted(_src(s) for s in rest[1:3]) != ["left = []", "right = []"]:
        raise Unsupported("bitmask_as_newick_string: the two sides are not initialised as empty lists")
    loop = rest[3]
    if not (isinstance(loop, ast.For) and _src(loop.target) == "(taxon, taxlabel)" and _src(loop.iter) == "zip(taxon_set, taxlabels)"
            and not loop.orelse and len(loop.body) == 1 and isinstance(loop.body[0], ast.If)):
        raise Unsupported("bitmask_as_newick_string: the loop is not `for taxon, taxlabel in zip(taxon_set, taxlabels): if ...`")
    side = loop.body[0]
    if [_src(s) for s in side.body] != ["left.append(taxlabel)"] or [_src(s) for s in side.orelse] != ["right.append(taxlabel)"]:
        raise Unsupported("bitmask_as_newick_string: the branches do not append the token to left / right")
    if "taxon_set.taxon_bitmask(taxon)" not in _src(side.test):
        raise Unsupported("bitmask_as_newick_string: the side test does not use the member's own mask taxon_set.taxon_bitmask(taxon): %s" % _src(side.test))
    stest = inline(side.test, {}, forms)
    if not isinstance(rest[4], ast.Return):
        raise Unsupported("bitmask_as_newick_string: no final return")
    sp, sa = _format_pieces(rest[4].value, 2, "two-sided rendering")
    lsep, rsep = _join(sa[0], "left", "two-sided rendering"), _join(sa[1], "right", "two-sided rendering")
    if lsep != rsep:
        raise Unsupported("bitmask_as_newick_string: the two sides use different separators")
    out = [define("nwk_trivial", [(["split", "all_taxa_bitmask"], "Int")], "Bool", bx(triv, ["split", "all_taxa_bitmask"]),
                  "`nexusprocessing.bitmask_as_newick_string`: the masks rendered without grouping: `%s`" % _src(rest[0].test)),
           define("nwk_left", [(["split", "taxon_bitmask"], "Int")], "Bool", bx(stest, ["split", "taxon_bitmask"]),
                  "a member goes to the left group iff `%s`" % _src(side.test)),
           define("nwk_flat_open", [], "String", lean_string(fp[0])), define("nwk_flat_sep", [], "String", lean_string(fsep)),
           define("nwk_flat_close", [], "String", lean_string(fp[1])),
           define("nwk_sides_open", [], "String", lean_string(sp[0])), define("nwk_sides_sep", [], "String", lean_string(lsep)),
           define("nwk_sides_mid", [], "String", lean_string(sp[1])), define("nwk_sides_close", [], "String", lean_string(sp[2]))]
    return "\n".join(out)


def generate(repo):
    base = os.path.join(repo, "src/dendropy")
    tax = ast.parse(open(os.path.join(base, "datamodel/taxonmodel.py")).read())
    bitp = ast.parse(open(os.path.join(base, "utility/bitprocessing.py")).read())
    nxp = ast.parse(open(os.path.join(base, "dataio/nexusprocessing.py")).read())
    parts = ["import DendroModel.Basic.PyInt", "import DendroModel.Model.C10Py", "namespace DendroModel.C10Kernels",
             "open DendroModel DendroModel.C10", "",
             k_taxon_bitmask(tax), k_all_taxa(tax), k_bitmask_taxa_list(tax), k_bitstring(tax, bitp), k_newick(nxp),
             "end DendroModel.C10Kernels"]
    return "\n".join(parts) + "\n"
