"""Gen/C05Kernels.lean: the closed-form kernels of the split-distribution machinery, read off the CURRENT source as functions over
exact rationals (core `Rat`; binary64 is idealised, see MODELLED_NOT_VERIFIED of C05):

  constants.GREATER_THAN_HALF (evaluated with Python's own decimal/float semantics) and the `min_freq` defaults that must name it;
  SplitDistribution.count_splits_on_tree   -> weight_to_use
  SplitDistribution.calc_normalization_weight, calc_freqs (stored value, the stamps written afterwards)
  SplitDistribution._get_split_frequencies / _get_split_edge_length_summaries / _get_split_node_age_summaries (recalculate-iff tests)
  SplitDistribution.consensus_tree (`_almost_one`, the keep test, the sort key, the sort direction, the projected component)
  SplitDistribution.collapse_edges_with_less_than_minimum_support (which nodes are flagged, the two rooting refusals)
  TreeArray.calculate_sum_of_split_supports / calculate_log_product_of_split_supports (which splits are scored, when the maximiser moves)
  SplitDistributionSummarizer (percentage factor, defaults of configure, the label format, the set_edge_lengths modes' sources and no-data values,
                               the minimum_edge_length clamp)
  statistics._mean_and_variance_pop_n / mean_and_sample_variance / median

Straight-line temporaries are inlined, `float(x)` is the identity, operands may be written in any order the bridge proofs absorb; anything
outside the supported subset raises `Unsupported` (never a guess)."""
import ast
import decimal
import os
from fractions import Fraction

from extract import Unsupported, find_function

NAME = "C05Kernels"

CMP = {ast.Eq: "=", ast.NotEq: "≠", ast.Lt: "<", ast.LtE: "≤", ast.Gt: ">", ast.GtE: "≥"}
ARITH = {ast.Add: "+", ast.Sub: "-", ast.Mult: "*", ast.Div: "/"}


def rat_lit(v):
    """a numeric literal as the DECIMAL number written (shortest repr of a float literal: 0.0000001 is 1/10^7), in line with reading
    binary64 arithmetic as exact rational arithmetic"""
    f = v if isinstance(v, Fraction) else (Fraction(repr(v)) if isinstance(v, float) else Fraction(v))
    if f.denominator == 1:
        return "(%d : Rat)" % f.numerator
    return "((%d : Rat) / %d)" % (f.numerator, f.denominator)


def dotted(e):
    if isinstance(e, ast.Name):
        return e.id
    if isinstance(e, ast.Attribute):
        b = dotted(e.value)
        return None if b is None else b + "." + e.attr
    return None


class Tr(object):
    """expressions over rationals and booleans; env: dotted python name -> (lean text, 'rat'|'bool'|'int'|'fn')"""

    def __init__(self, env, subscripts=None):
        self.env = dict(env)
        self.subscripts = subscripts or {}

    def bind(self, name, lean, typ):
        self.env[name] = (lean, typ)

    def expr(self, e):
        d = dotted(e)
        if d is not None:
            if d in self.env:
                return self.env[d]
            raise Unsupported("unknown name %s" % d)
        if isinstance(e, ast.Constant):
            if isinstance(e.value, bool):
                return ("true" if e.value else "false", "bool")
            if isinstance(e.value, (int, float)):
                return (rat_lit(e.value), "rat")
            raise Unsupported("literal %r" % (e.value,))
        if isinstance(e, ast.Subscript):
            key = dotted(e.value)
            if key in self.subscripts:
                return self.subscripts[key]
            raise Unsupported("subscript of %s" % key)
        if isinstance(e, ast.Call):
            fn = dotted(e.func)
            if e.keywords:
                raise Unsupported("keyword call %s" % fn)
            if fn == "float" and len(e.args) == 1:
                return self.num(e.args[0]), "rat"
            if fn == "abs" and len(e.args) == 1:
                return "(ratAbs %s)" % self.num(e.args[0]), "rat"
            if fn in self.env and self.env[fn][1] == "fn" and len(e.args) == 1:
                return "(%s %s)" % (self.env[fn][0], self.num(e.args[0])), "bool"
            raise Unsupported("call of %s" % fn)
        if isinstance(e, ast.BinOp) and type(e.op) in ARITH:
            return "(%s %s %s)" % (self.num(e.left), ARITH[type(e.op)], self.num(e.right)), "rat"
        if isinstance(e, ast.UnaryOp) and isinstance(e.op, ast.USub):
            return "(- %s)" % self.num(e.operand), "rat"
        if isinstance(e, ast.UnaryOp) and isinstance(e.op, ast.Not):
            return "(!%s)" % self.truth(e.operand), "bool"
        if isinstance(e, ast.Compare) and len(e.ops) == 1 and type(e.ops[0]) in CMP:
            l, lt = self.expr(e.left)
            r, rt = self.expr(e.comparators[0])
            if lt == "bool" or rt == "bool":
                raise Unsupported("comparison of booleans")
            return "(decide (%s %s %s))" % (l, CMP[type(e.ops[0])], r), "bool"
        if isinstance(e, ast.BoolOp):
            op = " || " if isinstance(e.op, ast.Or) else " && "
            return "(" + op.join(self.truth(v) for v in e.values) + ")", "bool"
        raise Unsupported(ast.dump(e)[:160])

    def num(self, e):
        s, t = self.expr(e)
        if t not in ("rat", "int"):
            raise Unsupported("number expected: %s" % ast.dump(e)[:100])
        return s

    def truth(self, e):
        s, t = self.expr(e)
        if t == "bool":
            return s
        if t in ("rat", "int"):
            return "(decide (%s ≠ 0))" % s
        raise Unsupported("truth value of %s" % ast.dump(e)[:100])


def strip_doc(stmts):
    out = list(stmts)
    while out and isinstance(out[0], ast.Expr) and isinstance(out[0].value, ast.Constant) and isinstance(out[0].value.value, str):
        out = out[1:]
    return out


def is_none_test(e, name):
    """+1 for `<name> is None`, -1 for `<name> is not None`, else 0"""
    if isinstance(e, ast.Compare) and len(e.ops) == 1 and dotted(e.left) == name and isinstance(e.comparators[0], ast.Constant) \
            and e.comparators[0].value is None:
        if isinstance(e.ops[0], ast.Is):
            return 1
        if isinstance(e.ops[0], ast.IsNot):
            return -1
    return 0


def single_assign(s):
    if isinstance(s, ast.Assign) and len(s.targets) == 1:
        return s.targets[0], s.value
    return None, None


def default_of(fn, arg):
    names = [a.arg for a in fn.args.args]
    defaults = dict(zip(names[len(names) - len(fn.args.defaults):], fn.args.defaults))
    if arg not in defaults:
        raise Unsupported("%s has no default for %s" % (fn.name, arg))
    return defaults[arg]


# ---------------------------------------------------------------------------------------------- the individual kernels
def greater_than_half(ctree):
    """the value of constants.GREATER_THAN_HALF: a numeric literal, or float(decimal.Decimal(<literal>).next_plus()) evaluated with
    Python's own decimal (default context) and float semantics"""
    for node in ctree.body:
        tgt, val = single_assign(node)
        if tgt is not None and dotted(tgt) == "GREATER_THAN_HALF":
            if isinstance(val, ast.Constant) and isinstance(val.value, (int, float)) and not isinstance(val.value, bool):
                return Fraction(val.value)
            if isinstance(val, ast.Call) and dotted(val.func) == "float" and len(val.args) == 1:
                inner = val.args[0]
                if isinstance(inner, ast.Call) and isinstance(inner.func, ast.Attribute) and inner.func.attr == "next_plus" and not inner.args:
                    d = inner.func.value
                    if isinstance(d, ast.Call) and dotted(d.func) in ("decimal.Decimal", "Decimal") and len(d.args) == 1 \
                            and isinstance(d.args[0], ast.Constant) and isinstance(d.args[0].value, (int, float, str)):
                        with decimal.localcontext(decimal.Context()):
                            return Fraction(float(decimal.Decimal(d.args[0].value).next_plus()))
            raise Unsupported("GREATER_THAN_HALF is neither a numeric literal nor float(decimal.Decimal(<literal>).next_plus())")
    raise Unsupported("constants.py does not assign GREATER_THAN_HALF")


def weight_to_use(fn):
    for s in ast.walk(fn):
        if isinstance(s, ast.If) and len(s.body) == 1 and len(s.orelse) == 1:
            t1, v1 = single_assign(s.body[0])
            t2, v2 = single_assign(s.orelse[0])
            if t1 is not None and t2 is not None and dotted(t1) == "weight_to_use" and dotted(t2) == "weight_to_use":
                conj = s.test.values if (isinstance(s.test, ast.BoolOp) and isinstance(s.test.op, ast.And)) else [s.test]
                guards = [c for c in conj if is_none_test(c, "tree.weight") == -1]
                rest = [c for c in conj if is_none_test(c, "tree.weight") != -1]
                if len(guards) != 1:
                    raise Unsupported("weight_to_use: the test does not guard `tree.weight is not None` exactly once")
                tr = Tr({"self.use_tree_weights": ("use_tree_weights", "bool"), "tree.weight": ("w", "rat")})
                other = Tr({"self.use_tree_weights": ("use_tree_weights", "bool")})
                cond = " && ".join(tr.truth(c) for c in rest) or "true"
                return ("def weight_to_use (weight : Option Rat) (use_tree_weights : Bool) : Rat :=\n  match weight with\n"
                        "  | none => %s\n  | some w => if %s then %s else %s\n" % (other.num(v2), cond, tr.num(v1), other.num(v2)))
    raise Unsupported("count_splits_on_tree: no `if …: weight_to_use = … else: weight_to_use = …`")


def returns_chain(stmts, tr):
    """if/else chains ending in `return <number>`"""
    stmts = strip_doc(stmts)
    if len(stmts) == 1 and isinstance(stmts[0], ast.Return) and stmts[0].value is not None:
        return tr.num(stmts[0].value)
    if stmts and isinstance(stmts[0], ast.If):
        s = stmts[0]
        els = s.orelse if s.orelse else stmts[1:]
        if s.orelse and len(stmts) != 1:
            raise Unsupported("statements after if/else")
        return "(if %s then %s else %s)" % (tr.truth(s.test), returns_chain(s.body, tr), returns_chain(els, tr))
    raise Unsupported("not an if/return chain: %s" % (ast.dump(stmts[0])[:100] if stmts else "empty"))


def norm_weight(fn):
    tr = Tr({"self.sum_of_tree_weights": ("sum_of_tree_weights", "rat"), "self.total_trees_counted": ("(total_trees_counted : Rat)", "rat"),
             "self.use_tree_weights": ("use_tree_weights", "bool")})
    return ("def calc_normalization_weight (use_tree_weights : Bool) (sum_of_tree_weights : Rat) (total_trees_counted : Nat) : Rat :=\n  %s\n"
            % returns_chain(fn.body, tr))


def loop_store(stmts, target, tr):
    """the value stored into `<target>[…]` by a `for` loop whose body is straight-line assignments (temporaries inlined)"""
    for s in stmts:
        if isinstance(s, ast.For):
            val = None
            for b in s.body:
                t, v = single_assign(b)
                if t is None:
                    raise Unsupported("loop body is not straight-line assignments")
                if isinstance(t, ast.Subscript) and dotted(t.value) == target:
                    val = tr.num(v)
                elif isinstance(t, ast.Name):
                    tr.bind(t.id, *tr.expr(v))
                else:
                    raise Unsupported("loop assigns to %s" % ast.dump(t)[:60])
            if val is None:
                raise Unsupported("loop does not store into %s" % target)
            return val
    raise Unsupported("no loop storing into %s" % target)


def calc_freqs(fn):
    body = strip_doc(fn.body)
    branch = [s for s in body if isinstance(s, ast.If)]
    if len(branch) != 1 or not branch[0].orelse:
        raise Unsupported("calc_freqs: expected one if/else")
    s = branch[0]
    tr0 = Tr({"self.total_trees_counted": ("(total_trees_counted : Rat)", "rat")})
    test = tr0.truth(s.test)
    sub = {"self.split_counts": ("count", "rat")}
    tr1 = Tr({}, sub)
    tr2 = Tr({}, sub)
    for st in s.orelse:
        t, v = single_assign(st)
        if t is not None and isinstance(t, ast.Name):
            if isinstance(v, ast.Call) and dotted(v.func) == "self.calc_normalization_weight" and not v.args and not v.keywords:
                tr2.bind(t.id, "normalization_weight", "rat")
            else:
                tr2.bind(t.id, *tr2.expr(v))
    then_v = loop_store(s.body, "self._split_freqs", tr1)
    else_v = loop_store(s.orelse, "self._split_freqs", tr2)
    stamps = []
    for st in body[body.index(s) + 1:]:
        t, v = single_assign(st)
        if t is not None and dotted(t) and dotted(t).startswith("self."):
            if isinstance(v, ast.Constant) and v.value is None:
                stamps.append((dotted(t)[5:], "None"))
            elif dotted(v) and dotted(v).startswith("self."):
                stamps.append((dotted(t)[5:], dotted(v)[5:]))
            else:
                raise Unsupported("calc_freqs: stamp %s" % ast.dump(st)[:80])
        elif isinstance(st, ast.Return):
            pass
        else:
            raise Unsupported("calc_freqs: trailing statement %s" % ast.dump(st)[:80])
    out = ("def calc_freqs_value (total_trees_counted : Nat) (count normalization_weight : Rat) : Rat :=\n  if %s then %s else %s\n"
           % (test, then_v, else_v))
    out += "/-- attributes written after the table is rebuilt (sorted) -/\ndef calc_freqs_stamps : List (String × String) := [%s]\n" % ", ".join(
        '("%s", "%s")' % p for p in sorted(stamps))
    return out


def stale_test(fn, table, lean_name):
    body = strip_doc(fn.body)
    if not (len(body) == 2 and isinstance(body[0], ast.If) and not body[0].orelse and isinstance(body[1], ast.Return)
            and dotted(body[1].value) == "self." + table):
        raise Unsupported("%s: expected `if …: recalculate` then `return self.%s`" % (fn.name, table))
    test = body[0].test
    disj = test.values if (isinstance(test, ast.BoolOp) and isinstance(test.op, ast.Or)) else [test]
    nones = [d for d in disj if is_none_test(d, "self." + table) == 1]
    rest = [d for d in disj if is_none_test(d, "self." + table) != 1]
    if len(nones) != 1:
        raise Unsupported("%s: the test does not contain `self.%s is None` exactly once" % (fn.name, table))
    counters = sorted({dotted(n) for d in rest for n in ast.walk(d) if isinstance(n, ast.Attribute) and dotted(n) and dotted(n).startswith("self._trees_counted")})
    if len(counters) != 1:
        raise Unsupported("%s: expected exactly one staleness counter, found %s" % (fn.name, counters))
    tr = Tr({counters[0]: ("(counted : Int)", "int"), "self.total_trees_counted": ("(total : Int)", "int")})
    cond = " || ".join(["!present"] + [tr.truth(d) for d in rest])
    calls = [dotted(c.func) for c in ast.walk(body[0]) if isinstance(c, ast.Call)]
    return ("def %s (present : Bool) (counted total : Nat) : Bool :=\n  %s\n" % (lean_name, cond)
            + 'def %s_counter : String := "%s"\n' % (lean_name, counters[0][5:])
            + 'def %s_recalc : List String := [%s]\n' % (lean_name, ", ".join('"%s"' % c for c in calls)))


def consensus(fn):
    almost = None
    keep = None
    key = None
    reverse = None
    take = None
    for s in ast.walk(fn):
        t, v = single_assign(s) if isinstance(s, ast.Assign) else (None, None)
        if t is not None and dotted(t) == "_almost_one" and isinstance(v, ast.Lambda) and len(v.args.args) == 1:
            tr = Tr({v.args.args[0].arg: ("x", "rat")})
            almost = "def almost_one (x : Rat) : Bool :=\n  %s\n" % tr.truth(v.body)
        if isinstance(s, ast.For) and dotted(s.iter) == "split_frequencies":
            ifs = [b for b in s.body if isinstance(b, ast.If)]
            if len(ifs) != 1 or ifs[0].orelse or len(ifs[0].body) != 1:
                raise Unsupported("consensus_tree: candidate loop is not a single if")
            tr = Tr({"_almost_one": ("almost_one", "fn")}, {"split_frequencies": ("freq", "rat")})
            for b in s.body:
                bt, bv = single_assign(b)
                if bt is not None and isinstance(bt, ast.Name):
                    tr.bind(bt.id, *tr.expr(bv))
            test = ifs[0].test
            disj = test.values if (isinstance(test, ast.BoolOp) and isinstance(test.op, ast.Or)) else [test]
            nones = [d for d in disj if is_none_test(d, "min_freq") == 1]
            rest = [d for d in disj if is_none_test(d, "min_freq") != 1]
            if len(nones) != 1:
                raise Unsupported("consensus_tree: the keep test does not contain `min_freq is None` exactly once as a disjunct")
            tr.bind("min_freq", "m", "rat")
            keep = ("def consensus_keep (min_freq : Option Rat) (freq : Rat) : Bool :=\n  match min_freq with\n  | none => true\n  | some m => %s\n"
                    % (" || ".join(tr.truth(d) for d in rest) or "false"))
            call = ifs[0].body[0]
            if not (isinstance(call, ast.Expr) and isinstance(call.value, ast.Call) and dotted(call.value.func) == "to_try_to_add.append"
                    and len(call.value.args) == 1 and isinstance(call.value.args[0], ast.Tuple) and len(call.value.args[0].elts) == 2):
                raise Unsupported("consensus_tree: candidates are not appended as a pair")
            loopvar = dotted(s.target)
            comps = []
            for el in call.value.args[0].elts:
                if dotted(el) == loopvar:
                    comps.append("s")
                else:
                    x, ty = tr.expr(el)
                    if x != "freq":
                        raise Unsupported("consensus_tree: pair component %s" % ast.dump(el)[:60])
                    comps.append("freq")
            key = comps
        if isinstance(s, ast.Call) and dotted(s.func) == "to_try_to_add.sort":
            if s.args or [k.arg for k in s.keywords] not in ([], ["reverse"]):
                raise Unsupported("consensus_tree: sort with a key")
            reverse = bool(s.keywords and isinstance(s.keywords[0].value, ast.Constant) and s.keywords[0].value.value is True)
            if s.keywords and not isinstance(s.keywords[0].value, ast.Constant):
                raise Unsupported("consensus_tree: non-literal reverse")
        if t is not None and dotted(t) == "splits_for_tree":
            if not (isinstance(v, ast.ListComp) and len(v.generators) == 1 and not v.generators[0].ifs and dotted(v.generators[0].iter) == "to_try_to_add"
                    and isinstance(v.elt, ast.Subscript) and dotted(v.elt.value) == dotted(v.generators[0].target)
                    and isinstance(v.elt.slice, ast.Constant) and v.elt.slice.value in (0, 1)):
                raise Unsupported("consensus_tree: splits_for_tree is not a projection of the sorted pairs")
            take = v.elt.slice.value
    if None in (almost, keep, key, reverse, take):
        raise Unsupported("consensus_tree: missing %s" % [n for n, x in zip(("_almost_one", "keep test", "pair", "sort", "projection"), (almost, keep, key, reverse, take)) if x is None])
    if sorted(key) != ["freq", "s"]:
        raise Unsupported("consensus_tree: pair is not (freq, split) in some order")
    if key[take] != "s":
        raise Unsupported("consensus_tree: the projected component is not the split")
    out = almost + keep
    out += "/-- position of the frequency in the sorted pair (0 = compared first) -/\ndef consensus_key_freq_pos : Nat := %d\n" % key.index("freq")
    out += "def consensus_sort_reverse : Bool := %s\n" % ("true" if reverse else "false")
    return out


def collapse(fn):
    refusals = []
    flagged = None
    for s in strip_doc(fn.body):
        if isinstance(s, ast.If) and s.body and isinstance(s.body[0], ast.Raise):
            chain = s
            while True:
                if not (len(chain.body) == 1 and isinstance(chain.body[0], ast.Raise)):
                    raise Unsupported("collapse: refusal chain")
                refusals.append(chain.test)
                if len(chain.orelse) == 1 and isinstance(chain.orelse[0], ast.If):
                    chain = chain.orelse[0]
                elif not chain.orelse:
                    break
                else:
                    raise Unsupported("collapse: refusal chain has an else")
        if isinstance(s, ast.For) and dotted(s.target) == "nd" and flagged is None:
            ifs = [b for b in s.body if isinstance(b, ast.If)]
            if len(ifs) != 1:
                continue
            tr = Tr({"min_freq": ("min_freq", "rat")}, {"split_frequencies": ("f", "rat")})

            def chain_of(i):
                if not (len(i.body) == 1 and isinstance(i.body[0], ast.Expr) and isinstance(i.body[0].value, ast.Call)
                        and dotted(i.body[0].value.func) == "to_collapse.append"):
                    raise Unsupported("collapse: branch does not flag the node")
                t = i.test
                if isinstance(t, ast.Compare) and len(t.ops) == 1 and isinstance(t.ops[0], ast.NotIn) and dotted(t.comparators[0]) == "split_frequencies":
                    c = "!present"
                elif isinstance(t, ast.Compare) and len(t.ops) == 1 and isinstance(t.ops[0], ast.In) and dotted(t.comparators[0]) == "split_frequencies":
                    c = "present"
                else:
                    c = tr.truth(t)
                if len(i.orelse) == 1 and isinstance(i.orelse[0], ast.If):
                    return "(if %s then true else %s)" % (c, chain_of(i.orelse[0]))
                if not i.orelse:
                    return "(if %s then true else false)" % c
                raise Unsupported("collapse: else branch")
            flagged = chain_of(ifs[0])
    if flagged is None:
        raise Unsupported("collapse: flagging loop not found")
    env = {"tree.is_rooted": ("tree_rooted", "bool")}
    outs = []
    for r in refusals:
        conj = r.values if (isinstance(r, ast.BoolOp) and isinstance(r.op, ast.And)) else [r]
        parts = []
        for c in conj:
            neg = False
            if isinstance(c, ast.UnaryOp) and isinstance(c.op, ast.Not):
                neg, c = True, c.operand
            if dotted(c) == "tree.is_rooted":
                parts.append("!tree_rooted" if neg else "tree_rooted")
            elif isinstance(c, ast.Call) and dotted(c.func) == "self.is_all_counted_trees_rooted" and not neg:
                parts.append("all_rooted")
            elif isinstance(c, ast.Call) and dotted(c.func) == "self.is_all_counted_trees_treated_as_unrooted" and not neg:
                parts.append("none_rooted")
            else:
                raise Unsupported("collapse: refusal test %s" % ast.dump(c)[:80])
        outs.append("(" + " && ".join(parts) + ")")
    return ("/-- a node is flagged for collapsing: `present` = its split is a key of the frequency table, `f` its frequency -/\n"
            "def collapse_flag (present : Bool) (f min_freq : Rat) : Bool :=\n  %s\n" % flagged
            + "/-- the call refuses before doing anything (rooting of the target against the rootings counted) -/\n"
            "def collapse_refuses (tree_rooted all_rooted none_rooted : Bool) : Bool :=\n  %s\n" % (" || ".join(outs) or "false"))


def rooting_preds(tree):
    """is_all_counted_trees_rooted / _treated_as_unrooted / _strictly_unrooted as predicates of (True counted, False counted, size of the set)"""
    out = ""
    for py, lean in (("is_all_counted_trees_rooted", "all_rooted"), ("is_all_counted_trees_treated_as_unrooted", "none_rooted"),
                     ("is_all_counted_trees_strictly_unrooted", "strictly_unrooted")):
        fn = find_function(tree, "SplitDistribution." + py)
        body = strip_doc(fn.body)
        if not (len(body) == 1 and isinstance(body[0], ast.Return)):
            raise Unsupported("%s: not a single return" % py)

        def tr(e):
            if isinstance(e, ast.BoolOp):
                return "(" + (" && " if isinstance(e.op, ast.And) else " || ").join(tr(v) for v in e.values) + ")"
            if isinstance(e, ast.UnaryOp) and isinstance(e.op, ast.Not):
                return "(!%s)" % tr(e.operand)
            if isinstance(e, ast.Compare) and len(e.ops) == 1:
                l, r = e.left, e.comparators[0]
                if isinstance(e.ops[0], (ast.In, ast.NotIn)) and dotted(r) == "self.tree_rooting_types_counted" and isinstance(l, ast.Constant) \
                        and isinstance(l.value, bool):
                    s = "has_true" if l.value else "has_false"
                    return s if isinstance(e.ops[0], ast.In) else "(!%s)" % s
                if isinstance(e.ops[0], ast.Eq) and isinstance(l, ast.Call) and dotted(l.func) == "len" and len(l.args) == 1 \
                        and dotted(l.args[0]) == "self.tree_rooting_types_counted" and isinstance(r, ast.Constant) and isinstance(r.value, int):
                    return "(decide (size = %d))" % r.value
            raise Unsupported("%s: %s" % (py, ast.dump(e)[:100]))
        out += "def %s (has_true has_false : Bool) (size : Nat) : Bool :=\n  %s\n" % (lean, tr(body[0].value))
    return out


def scoring(fn, lean_prefix, acc_name):
    scored = better = None
    nonzero_guard = False
    for s in ast.walk(fn):
        if isinstance(s, ast.For) and dotted(s.target) == "split_bitmask":
            if len(s.body) != 1 or not isinstance(s.body[0], ast.If) or s.body[0].orelse:
                raise Unsupported("%s: inner loop is not a single if" % fn.name)
            test = s.body[0].test
            disj = test.values if (isinstance(test, ast.BoolOp) and isinstance(test.op, ast.Or)) else [test]
            parts = []
            for d in disj:
                neg = False
                if isinstance(d, ast.UnaryOp) and isinstance(d.op, ast.Not):
                    neg, d = True, d.operand
                if dotted(d) == "include_external_splits":
                    parts.append("!include_external_splits" if neg else "include_external_splits")
                elif isinstance(d, ast.Compare) and len(d.ops) == 1 and isinstance(d.ops[0], ast.Eq) and \
                        {dotted(d.left), dotted(d.comparators[0])} == {"split_bitmask", "tree_leafset_bitmask"}:
                    parts.append("(!decide (split_bitmask = tree_leafset_bitmask))" if neg else "(decide (split_bitmask = tree_leafset_bitmask))")
                elif isinstance(d, ast.Call) and (dotted(d.func) or "").endswith("is_trivial_bitmask") and len(d.args) == 2 \
                        and [dotted(a) for a in d.args] == ["split_bitmask", "tree_leafset_bitmask"]:
                    parts.append("!trivial" if neg else "trivial")
                else:
                    raise Unsupported("%s: scored test %s" % (fn.name, ast.dump(d)[:80]))
            scored = " || ".join(parts)
            inner = s.body[0].body
            # split_support = split_frequencies.get(split_bitmask, 0.0); then either `acc += split_support` or `if split_support: acc += log(split_support)`
            t, v = single_assign(inner[0])
            if not (t is not None and dotted(t) == "split_support" and isinstance(v, ast.Call) and dotted(v.func) == "split_frequencies.get"
                    and len(v.args) == 2 and dotted(v.args[0]) == "split_bitmask" and isinstance(v.args[1], ast.Constant) and v.args[1].value == 0):
                raise Unsupported("%s: support is not split_frequencies.get(split_bitmask, 0.0)" % fn.name)
            upd = inner[1] if len(inner) == 2 else None
            if isinstance(upd, ast.If) and not upd.orelse and dotted(upd.test) == "split_support" and len(upd.body) == 1:
                nonzero_guard, upd = True, upd.body[0]
            if not (isinstance(upd, ast.AugAssign) and isinstance(upd.op, ast.Add) and dotted(upd.target) == acc_name):
                raise Unsupported("%s: accumulator update" % fn.name)
            val = upd.value
            if isinstance(val, ast.Call) and dotted(val.func) == "math.log" and len(val.args) == 1 and dotted(val.args[0]) == "split_support":
                mode = "log"
            elif dotted(val) == "split_support":
                mode = "id"
            else:
                raise Unsupported("%s: accumulated value" % fn.name)
        if isinstance(s, ast.If) and isinstance(s.test, ast.BoolOp) and isinstance(s.test.op, ast.Or) and \
                any(is_none_test(d, "max_score") == 1 for d in s.test.values):
            rest = [d for d in s.test.values if is_none_test(d, "max_score") != 1]
            tr = Tr({"max_score": ("best", "rat"), acc_name: ("score", "rat")})
            better = "  match max_score with\n  | none => true\n  | some best => %s\n" % (" || ".join(tr.truth(d) for d in rest) or "false")
            assigned = sorted(dotted(single_assign(b)[0]) or "?" for b in s.body)
            if assigned != ["max_score", "max_score_tree_idx"]:
                raise Unsupported("%s: maximiser update assigns %s" % (fn.name, assigned))
    if scored is None or better is None:
        raise Unsupported("%s: scored test or maximiser update not found" % fn.name)
    return ("def %s_scored (include_external_splits : Bool) (split_bitmask tree_leafset_bitmask : Int) (trivial : Bool) : Bool :=\n  %s\n" % (lean_prefix, scored)
            + "/-- the maximiser moves to the current tree -/\ndef %s_better (max_score : Option Rat) (score : Rat) : Bool :=\n%s" % (lean_prefix, better)
            + 'def %s_accumulates : String := "%s"\n' % (lean_prefix, mode)
            + "def %s_skips_zero : Bool := %s\n" % (lean_prefix, "true" if nonzero_guard else "false"))


def summarizer(cfg, summ):
    defaults = {}
    for s in ast.walk(cfg):
        t, v = single_assign(s) if isinstance(s, ast.Assign) else (None, None)
        if t is not None and dotted(t) and dotted(t).startswith("self.") and isinstance(v, ast.Call) and dotted(v.func) == "kwargs.pop" \
                and len(v.args) == 2 and isinstance(v.args[0], ast.Constant) and isinstance(v.args[1], ast.Constant):
            defaults[v.args[0].value] = v.args[1].value
    need = ("set_edge_lengths", "support_label_decimals", "support_as_percentages", "set_support_as_node_label", "minimum_edge_length",
            "add_support_as_node_attribute")
    for k in need:
        if k not in defaults:
            raise Unsupported("configure: no literal default for %s" % k)
    if not isinstance(defaults["support_label_decimals"], int) or isinstance(defaults["support_label_decimals"], bool):
        raise Unsupported("configure: support_label_decimals default is not an int")
    out = "def default_support_label_decimals : Nat := %d\n" % defaults["support_label_decimals"]
    out += "def default_support_as_percentages : Bool := %s\n" % ("true" if defaults["support_as_percentages"] else "false")
    out += "def default_set_support_as_node_label : Bool := %s\n" % ("true" if defaults["set_support_as_node_label"] else "false")
    out += "def default_add_support_as_node_attribute : Bool := %s\n" % ("true" if defaults["add_support_as_node_attribute"] else "false")
    out += "def default_set_edge_lengths_is_none : Bool := %s\n" % ("true" if defaults["set_edge_lengths"] is None else "false")
    out += "def default_minimum_edge_length_is_none : Bool := %s\n" % ("true" if defaults["minimum_edge_length"] is None else "false")
    # no_data_values: keys that have a non-numeric no-data value; mean/median must fall back to the literal of `.get(<field>, <literal>)`
    pct = None
    fmt = None
    modes = {}
    clamp = None
    for s in ast.walk(summ):
        if isinstance(s, ast.If) and dotted(s.test) == "self.support_as_percentages" and len(s.body) == 1:
            t, v = single_assign(s.body[0])
            if t is not None and dotted(t) == "split_support":
                pct = Tr({"split_support": ("split_support", "rat")}).num(v)
        if isinstance(s, ast.Lambda) and isinstance(s.body, ast.Call) and isinstance(s.body.func, ast.Attribute) and s.body.func.attr == "format" \
                and isinstance(s.body.func.value, ast.Constant) and isinstance(s.body.func.value.value, str):
            kw = {k.arg: dotted(k.value) for k in s.body.keywords}
            if len(s.body.args) == 1 and dotted(s.body.args[0]) == s.args.args[0].arg:
                fmt = (s.body.func.value.value, kw)
        if isinstance(s, ast.Try) and len(s.body) == 1 and len(s.handlers) == 1 and len(s.handlers[0].body) == 1:
            t, v = single_assign(s.body[0])
            t2, v2 = single_assign(s.handlers[0].body[0])
            if t is not None and t2 is not None and dotted(t) == dotted(t2) and dotted(t) in ("node.edge.length", "node.age") \
                    and isinstance(v, ast.Subscript) and isinstance(v.value, ast.Subscript) and isinstance(v.slice, ast.Constant):
                table = dotted(v.value.value)
                field = v.slice.value
                if not (isinstance(v2, ast.Call) and dotted(v2.func) == "self.no_data_values.get" and len(v2.args) == 2
                        and isinstance(v2.args[0], ast.Constant) and v2.args[0].value == field and isinstance(v2.args[1], ast.Constant)
                        and isinstance(v2.args[1].value, (int, float))):
                    raise Unsupported("summarize: fallback of %s" % field)
                exc = dotted(s.handlers[0].type)
                modes[(dotted(t), table, field)] = (Fraction(v2.args[1].value), exc)
        if isinstance(s, ast.If) and isinstance(s.test, ast.BoolOp) and isinstance(s.test.op, ast.And) and len(s.test.values) == 2 \
                and is_none_test(s.test.values[0], "self.minimum_edge_length") == -1 and len(s.body) == 1 and clamp is None:
            t, v = single_assign(s.body[0])
            if t is not None and dotted(t) == "node.edge.length" and dotted(v) == "self.minimum_edge_length":
                clamp = Tr({"node.edge.length": ("length", "rat"), "self.minimum_edge_length": ("m", "rat")}).truth(s.test.values[1])
    if pct is None:
        raise Unsupported("summarize: percentage scaling not found")
    if fmt is None or fmt[0] != "{:.{places}f}" or fmt[1] != {"places": "self.support_label_decimals"}:
        raise Unsupported("summarize: the support label is not '{:.{places}f}'.format(freq, places=self.support_label_decimals): %r" % (fmt,))
    # which no-data keys are overridden by the dict literal (mean/median must not be among them)
    nd_keys = None
    for s in ast.walk(cfg):
        t, v = single_assign(s) if isinstance(s, ast.Assign) else (None, None)
        if t is not None and dotted(t) == "self.no_data_values" and isinstance(v, ast.Dict):
            nd_keys = sorted(k.value for k in v.keys if isinstance(k, ast.Constant))
    if nd_keys is None or "mean" in nd_keys or "median" in nd_keys:
        raise Unsupported("configure: no_data_values overrides mean/median or is not a literal dict")
    want = {("node.edge.length", "edge_length_summaries", "mean"), ("node.edge.length", "edge_length_summaries", "median"),
            ("node.age", "node_age_summaries", "mean"), ("node.age", "node_age_summaries", "median")}
    if set(modes) != want:
        raise Unsupported("summarize: set_edge_lengths sources are %s" % sorted(modes))
    if any(exc != "KeyError" for _v, exc in modes.values()):
        raise Unsupported("summarize: fallback on something else than KeyError")
    out += "def support_percent (split_support : Rat) : Rat :=\n  %s\n" % pct
    out += "/-- the label is the fixed-point rendering of the support with `support_label_decimals` places -/\ndef label_is_fixed_point : Bool := true\n"
    for (tgt, table, field), (val, _e) in sorted(modes.items()):
        out += "def no_data_%s_%s : Rat := %s\n" % ("length" if tgt == "node.edge.length" else "age", field, rat_lit(val))
    if clamp is None:
        raise Unsupported("summarize: minimum_edge_length clamp not found")
    out += "/-- a summarised length is replaced by `minimum_edge_length` m -/\ndef clamp_applies (length m : Rat) : Bool :=\n  %s\n" % clamp
    return out


def pop_stats(fn_pop, fn_samp, fn_med):
    body = strip_doc(fn_pop.body)
    init = {}
    loop = None
    post = Tr({})
    post_vals = {}
    for s in body:
        t, v = single_assign(s)
        if loop is None and t is not None and isinstance(t, ast.Name) and isinstance(v, ast.Constant) and isinstance(v.value, (int, float)):
            init[t.id] = Fraction(v.value)
        elif isinstance(s, ast.For) and loop is None:
            loop = s
        elif loop is not None and t is not None and isinstance(t, ast.Name):
            post.bind(t.id, *post.expr(v))
            post_vals[t.id] = post.env[t.id][0]
        elif isinstance(s, ast.If) and len(s.body) == 1 and isinstance(s.body[0], ast.Raise):
            pass
        elif isinstance(s, ast.Return):
            ret = [dotted(x) for x in s.value.elts] if isinstance(s.value, ast.Tuple) else None
            if ret != ["mean", "var", "n"]:
                raise Unsupported("_mean_and_variance_pop_n returns %s" % ret)
        else:
            raise Unsupported("_mean_and_variance_pop_n: %s" % ast.dump(s)[:80])
        if loop is None and t is not None and isinstance(t, ast.Name):
            post.bind(t.id, t.id, "rat")
    if loop is None or sorted(init) != ["n", "s", "ss"] or any(v != 0 for v in init.values()):
        raise Unsupported("_mean_and_variance_pop_n: accumulators are not n, s, ss = 0")
    lv = dotted(loop.target)
    tr = Tr({"n": ("n", "rat"), "s": ("s", "rat"), "ss": ("ss", "rat"), lv: ("v", "rat")})
    step = {}
    for b in loop.body:
        if not (isinstance(b, ast.AugAssign) and isinstance(b.op, ast.Add) and isinstance(b.target, ast.Name)):
            raise Unsupported("_mean_and_variance_pop_n: loop body")
        step[b.target.id] = "(%s + %s)" % (b.target.id, tr.num(b.value))
    if sorted(step) != ["n", "s", "ss"]:
        raise Unsupported("_mean_and_variance_pop_n: loop updates %s" % sorted(step))
    if "mean" not in post_vals or "var" not in post_vals:
        raise Unsupported("_mean_and_variance_pop_n: mean/var not assigned")
    out = "def pop_step (n s ss v : Rat) : Rat × Rat × Rat :=\n  (%s, %s, %s)\n" % (step["n"], step["s"], step["ss"])
    out += "def pop_mean (n s ss : Rat) : Rat :=\n  %s\n" % post_vals["mean"]
    out += "def pop_var (n s ss : Rat) : Rat :=\n  %s\n" % post_vals["var"]
    # mean_and_sample_variance
    body = strip_doc(fn_samp.body)
    tr = Tr({})
    inf_test = None
    val = None
    for s in body:
        t, v = single_assign(s)
        if t is not None and isinstance(t, ast.Tuple) and [dotted(x) for x in t.elts] == ["mean", "pop_var", "n"] and isinstance(v, ast.Call) \
                and dotted(v.func) == "_mean_and_variance_pop_n":
            tr.bind("n", "n", "rat")
            tr.bind("pop_var", "pop_var", "rat")
            tr.bind("mean", "mean", "rat")
        elif isinstance(s, ast.If) and not s.orelse and len(s.body) == 1 and isinstance(s.body[0], ast.Return) \
                and isinstance(s.body[0].value, ast.Tuple) and len(s.body[0].value.elts) == 2:
            second = s.body[0].value.elts[1]
            if not (isinstance(second, ast.Call) and dotted(second.func) == "float" and isinstance(second.args[0], ast.Constant)
                    and second.args[0].value == "inf" and dotted(s.body[0].value.elts[0]) == "mean"):
                raise Unsupported("mean_and_sample_variance: early return")
            inf_test = tr.truth(s.test)
        elif t is not None and isinstance(t, ast.Name):
            tr.bind(t.id, *tr.expr(v))
        elif isinstance(s, ast.Return) and isinstance(s.value, ast.Tuple) and len(s.value.elts) == 2 and dotted(s.value.elts[0]) == "mean":
            val = tr.num(s.value.elts[1])
        else:
            raise Unsupported("mean_and_sample_variance: %s" % ast.dump(s)[:80])
    if inf_test is None or val is None:
        raise Unsupported("mean_and_sample_variance: shape")
    out += "/-- `none` = float('inf') -/\ndef samp_var (n pop_var : Rat) : Option Rat :=\n  if %s then none else some %s\n" % (inf_test, val)
    # median
    body = strip_doc(fn_med.body)
    env = {}
    itr = None

    def itx(e):
        """integer expressions of `size`; int(a / b) truncates"""
        if dotted(e) in env:
            return env[dotted(e)]
        if isinstance(e, ast.Constant) and isinstance(e.value, int) and not isinstance(e.value, bool):
            return "(%d : Int)" % e.value
        if isinstance(e, ast.BinOp) and type(e.op) in (ast.Add, ast.Sub, ast.Mult):
            return "(%s %s %s)" % (itx(e.left), ARITH[type(e.op)], itx(e.right))
        if isinstance(e, ast.BinOp) and isinstance(e.op, ast.FloorDiv):
            return "(Int.fdiv %s %s)" % (itx(e.left), itx(e.right))
        if isinstance(e, ast.BinOp) and isinstance(e.op, ast.Mod):
            return "(Int.fmod %s %s)" % (itx(e.left), itx(e.right))
        if isinstance(e, ast.Call) and dotted(e.func) == "int" and len(e.args) == 1 and isinstance(e.args[0], ast.BinOp) \
                and isinstance(e.args[0].op, ast.Div):
            return "(Int.tdiv %s %s)" % (itx(e.args[0].left), itx(e.args[0].right))
        raise Unsupported("median: index expression %s" % ast.dump(e)[:80])
    if len(body) != 3:
        raise Unsupported("median: expected copy/size/if")
    t, v = single_assign(body[0])
    if not (t is not None and isinstance(v, ast.Call) and dotted(v.func) == "sorted" and len(v.args) == 1 and not v.keywords
            and dotted(v.args[0]) == fn_med.args.args[0].arg):
        raise Unsupported("median: the pool is not sorted() first")
    copy = dotted(t)
    t, v = single_assign(body[1])
    if not (t is not None and isinstance(v, ast.Call) and dotted(v.func) == "len" and dotted(v.args[0]) == copy):
        raise Unsupported("median: size")
    env[dotted(t)] = "size"
    s = body[2]
    if not (isinstance(s, ast.If) and s.orelse and isinstance(s.test, ast.Compare) and len(s.test.ops) == 1 and isinstance(s.test.ops[0], ast.Eq)):
        raise Unsupported("median: parity test")
    test = "(decide (%s = %s))" % (itx(s.test.left), itx(s.test.comparators[0]))

    def branch(stmts):
        local = {}
        for b in stmts:
            t, v = single_assign(b)
            if t is not None and isinstance(t, ast.Name):
                env[t.id] = itx(v)
                local[t.id] = env[t.id]
            elif isinstance(b, ast.Return):
                return b.value
            else:
                raise Unsupported("median: %s" % ast.dump(b)[:80])
        raise Unsupported("median: branch without return")

    def elem(e):
        if isinstance(e, ast.Subscript) and dotted(e.value) == copy:
            return itx(e.slice)
        return None
    r1 = branch(s.body)
    i_odd = elem(r1)
    if i_odd is None:
        raise Unsupported("median: odd branch does not return an element")
    r2 = branch(s.orelse)
    idxs = []

    def comb(e):
        i = elem(e)
        if i is not None:
            idxs.append(i)
            return "ab"[len(idxs) - 1]
        if isinstance(e, ast.BinOp) and type(e.op) in ARITH:
            return "(%s %s %s)" % (comb(e.left), ARITH[type(e.op)], comb(e.right))
        if isinstance(e, ast.Constant) and isinstance(e.value, (int, float)):
            return rat_lit(e.value)
        raise Unsupported("median: even branch %s" % ast.dump(e)[:80])
    c = comb(r2)
    if len(idxs) != 2:
        raise Unsupported("median: even branch does not combine two elements")
    out += "def median_is_odd (size : Int) : Bool :=\n  %s\n" % test
    out += "def median_idx (size : Int) : Int :=\n  %s\n" % i_odd
    out += "def median_idx1 (size : Int) : Int :=\n  %s\n" % idxs[0]
    out += "def median_idx2 (size : Int) : Int :=\n  %s\n" % idxs[1]
    out += "def median_combine (a b : Rat) : Rat :=\n  %s\n" % c
    return out


def generate(repo):
    src = os.path.join(repo, "src/dendropy")
    tcm = ast.parse(open(os.path.join(src, "datamodel/treecollectionmodel.py")).read())
    stat = ast.parse(open(os.path.join(src, "calculate/statistics.py")).read())
    const = ast.parse(open(os.path.join(src, "utility/constants.py")).read())
    g = greater_than_half(const)
    for q in ("TreeList.consensus", "SplitDistribution.consensus_tree", "SplitDistribution.collapse_edges_with_less_than_minimum_support",
              "TreeArray.consensus_tree", "TreeArray.collapse_edges_with_less_than_minimum_support"):
        d = default_of(find_function(tcm, q), "min_freq")
        if not (isinstance(d, ast.Attribute) and d.attr == "GREATER_THAN_HALF"):
            raise Unsupported("%s: default min_freq is not constants.GREATER_THAN_HALF" % q)
    d = default_of(find_function(tcm, "SplitDistribution.__init__"), "use_tree_weights")
    if not (isinstance(d, ast.Constant) and isinstance(d.value, bool)):
        raise Unsupported("SplitDistribution.__init__: default use_tree_weights is not a boolean literal")
    out = ["set_option linter.unusedVariables false", "namespace DendroModel.C05Kernels", "",
           "def ratAbs (x : Rat) : Rat := if x < 0 then -x else x", "",
           "/-- constants.GREATER_THAN_HALF, the default `min_freq` of every consensus / collapse entry point, as an exact rational -/",
           "def greater_than_half : Rat := %s" % rat_lit(g),
           "def default_use_tree_weights : Bool := %s" % ("true" if d.value else "false"), ""]
    out.append(weight_to_use(find_function(tcm, "SplitDistribution.count_splits_on_tree")))
    out.append(norm_weight(find_function(tcm, "SplitDistribution.calc_normalization_weight")))
    out.append(calc_freqs(find_function(tcm, "SplitDistribution.calc_freqs")))
    out.append(stale_test(find_function(tcm, "SplitDistribution._get_split_frequencies"), "_split_freqs", "freqs_stale"))
    out.append(stale_test(find_function(tcm, "SplitDistribution._get_split_edge_length_summaries"), "_split_edge_length_summaries", "length_summaries_stale"))
    out.append(stale_test(find_function(tcm, "SplitDistribution._get_split_node_age_summaries"), "_split_node_age_summaries", "age_summaries_stale"))
    out.append(consensus(find_function(tcm, "SplitDistribution.consensus_tree")))
    out.append(rooting_preds(tcm))
    out.append(collapse(find_function(tcm, "SplitDistribution.collapse_edges_with_less_than_minimum_support")))
    out.append(scoring(find_function(tcm, "TreeArray.calculate_sum_of_split_supports"), "sum", "sum_of_support"))
    out.append(scoring(find_function(tcm, "TreeArray.calculate_log_product_of_split_supports"), "prod", "log_product_of_split_support"))
    out.append(summarizer(find_function(tcm, "SplitDistributionSummarizer.configure"),
                          find_function(tcm, "SplitDistributionSummarizer.summarize_splits_on_tree")))
    out.append(pop_stats(find_function(stat, "_mean_and_variance_pop_n"), find_function(stat, "mean_and_sample_variance"),
                         find_function(stat, "median")))
    out.append("end DendroModel.C05Kernels")
    return "\n".join(out) + "\n"
