"""Grammar-based generator of Newick / NEXUS tree documents for C13 (all randomness from the rng handed in).

A document is a dict {"schema", "text", "opts"} where opts are reader keyword arguments accepted by every route.
The generator aims at the block-level front ends: several TREES blocks, TITLE/LINK, TRANSLATE, TAXA blocks,
character blocks and unknown blocks in between, comments at every position the tokenizer captures them,
[&R]/[&U] rooting tokens, [&W] weights, metadata comments, blank nodes, quoted / underscored / case-variant labels."""

KEYWORD_CASE = [str.upper, str.lower, str.capitalize]
POOL = ["a", "b", "c", "d", "e", "f", "g", "h", "sp 1", "X2", "it's", "n-1", "Homo sapiens", "t.9", "k"]
INTERNAL = ["n1", "n2", "n3", "n4", "n5", "n6", "anc", "root x"]
LENGTHS = ["0.5", "1", "2.0", "0.25", "1.75", "3", "0.125", "5e-1", "0", "1.5E0", "12", "0.375"]
PLAIN_COMMENTS = ["note", "a comment", " spaced ", "x=1", "100%", "R", "nested [inner] text", ""]
META_COMMENTS = ["&k=1", "&support=0.5,pp=1", "&range={1,2}", '&name="q"', "&&NHX:S=human:E=1.1", "&flag=true", "&odd", "& R", "&!color=#ff0000"]
WEIGHTS = ["&W 0.5", "&W 1/4", "&w 2", "&W 3/2", "&W 1", "&W 0", "&W 0/5", "&W 0.0", "&w 0", "&W 0", "&W 1.0"]     # an explicit ZERO weight is a weight


def kw(rng, word):
    return rng.choice(KEYWORD_CASE)(word)


def ws(rng, must=False):
    r = rng.random()
    if r < 0.55:
        return " " if must or rng.random() < 0.5 else ""
    if r < 0.8:
        return "\n"
    if r < 0.9:
        return "  "
    return "\n\t"


def comment(rng, p_meta=0.5):
    body = rng.choice(META_COMMENTS) if rng.random() < p_meta else rng.choice(PLAIN_COMMENTS)
    return "[" + body + "]"


def maybe_comments(rng, p):
    out = ""
    while rng.random() < p:
        out += comment(rng)
        p *= 0.4
        if rng.random() < 0.3:
            out += " "
    return out


UNDERSCORES_ARE_SPACES = [True]     # set per document from the reader option preserve_underscores


def render_label(rng, label, allow_case=True):
    """one of the spellings the tokenizer maps to `label` (or to a case variant of it)"""
    plain_ok = all(ch.isalnum() or ch in ".-" for ch in label) and label != ""
    r = rng.random()
    if (UNDERSCORES_ARE_SPACES[0] and " " in label and "'" not in label and r < 0.5
            and all(ch.isalnum() or ch in " ." for ch in label)):
        return label.replace(" ", "_")
    if plain_ok and r < 0.8:
        if allow_case and rng.random() < 0.15:
            return label.upper() if rng.random() < 0.5 else label.capitalize()
        return label
    return "'" + label.replace("'", "''") + "'"


class TreeText(object):
    def __init__(self, rng, cfg):
        self.rng = rng
        self.cfg = cfg

    def shape(self, n):
        rng = self.rng
        if n == 1:
            return [[]] if rng.random() < 0.06 else []
        if rng.random() < 0.05:
            return [self.shape(n)]
        parts = 2
        while parts < n and rng.random() < 0.3:
            parts += 1
        cuts = sorted(rng.sample(range(1, n), parts - 1))
        sizes = [b - a for a, b in zip([0] + cuts, cuts + [n])]
        return [self.shape(s) for s in sizes]

    def node(self, sh, refs, internals, is_root):
        rng, cfg = self.rng, self.cfg
        pc = cfg["p_comment"]
        out = ""
        if sh:
            out += "(" + maybe_comments(rng, pc * 0.5)
            kids = [self.node(c, refs, internals, False) for c in sh]
            if rng.random() < cfg["p_blank"]:
                kids.insert(rng.randrange(len(kids) + 1), maybe_comments(rng, pc * 0.5))
            out += ("," + ws(rng)).join(kids) + ")"
            if internals and rng.random() < cfg["p_internal_label"]:
                out += internals.pop()
        else:
            if rng.random() < cfg["p_blank"] * 0.5 and not is_root:
                pass  # a leaf without a label
            else:
                out += refs.pop()
        out += maybe_comments(rng, pc)
        if rng.random() < cfg["p_length"] and not (is_root and rng.random() < 0.7):
            out += ":" + maybe_comments(rng, pc * 0.3) + rng.choice(LENGTHS) + maybe_comments(rng, pc)
        return out

    def statement(self, leaf_refs, internals, rooting_token, weight):
        """one Newick tree statement without the terminating semicolon"""
        rng, cfg = self.rng, self.cfg
        pre = []
        if rooting_token:
            pre.append("[" + rooting_token + "]")
        if weight:
            pre.append("[" + weight + "]")
        while rng.random() < cfg["p_comment"]:
            pre.append(comment(rng))
        rng.shuffle(pre)
        n = len(leaf_refs)
        sh = self.shape(n)
        refs = list(reversed(leaf_refs))
        body = self.node(sh, refs, internals, True)
        # leaves that were left blank consume no reference: fine
        return (" ".join(pre) + (ws(rng, True) if pre else "")) + body + maybe_comments(rng, cfg["p_comment"] * 0.4)


def base_cfg(rng):
    return {"p_comment": rng.choice([0.0, 0.15, 0.4]), "p_blank": rng.choice([0.0, 0.0, 0.08]),
            "p_internal_label": rng.choice([0.0, 0.3, 0.8]), "p_length": rng.choice([0.0, 0.7, 1.0])}


def rooting_plan(rng, ntrees):
    """per-tree rooting token; mixed on purpose in a third of the documents"""
    r = rng.random()
    if r < 0.3:
        return [None] * ntrees
    if r < 0.5:
        tok = rng.choice(["&R", "&U", "&r", "&u"])
        return [tok] * ntrees
    return [rng.choice([None, "&R", "&U", "&r", "&u"]) for _ in range(ntrees)]


def gen_opts(rng, schema):
    o = {}
    if rng.random() < 0.5:
        o["rooting"] = rng.choice(["default-unrooted", "default-rooted", "force-unrooted", "force-rooted"])
    if rng.random() < 0.6:
        o["store_tree_weights"] = rng.random() < 0.8
    if rng.random() < 0.3:
        o["extract_comment_metadata"] = rng.random() < 0.5
    if rng.random() < 0.2:
        o["preserve_underscores"] = True
    if rng.random() < 0.2:
        o["suppress_internal_node_taxa"] = False
    if rng.random() < 0.08:
        o["suppress_leaf_node_taxa"] = True
    if rng.random() < 0.1:
        o["suppress_edge_lengths"] = True
    return o


def pick_taxa(rng, pool_idx, maxn):
    n = rng.randint(1, min(maxn, len(pool_idx)))
    return rng.sample(pool_idx, n)


def gen_newick(rng, size, like=None):
    cfg = base_cfg(rng)
    tt = TreeText(rng, cfg)
    opts = gen_opts(rng, "newick") if like is None else dict(like["opts"])
    UNDERSCORES_ARE_SPACES[0] = not opts.get("preserve_underscores")
    ntrees = (0 if rng.random() < 0.03 else rng.choice([1, 1, 2, 2, 3, 4])) if size == "small" else rng.randint(1, 8)
    # plain Newick never resolves taxon *numbers*: labels that look like numbers must stay labels on every route
    pool = list(like["pool"]) if like is not None else rng.sample(POOL + ["1", "2", "3", "2"], rng.randint(2, min(len(POOL), 7 if size == "small" else 12)))
    pool = list(dict.fromkeys(pool))
    plan = rooting_plan(rng, ntrees)
    text = maybe_comments(rng, cfg["p_comment"]) + ws(rng)
    for i in range(ntrees):
        taxa = pick_taxa(rng, list(range(len(pool))), 6 if size == "small" else 10)
        refs = [render_label(rng, pool[j]) for j in taxa]
        internals = [render_label(rng, x, False) for x in rng.sample(INTERNAL, len(INTERNAL))]
        weight = rng.choice(WEIGHTS) if rng.random() < 0.3 else None
        text += tt.statement(refs, internals, plan[i], weight) + ";"
        if rng.random() < 0.1:
            text += ws(rng) + ";"        # empty statement
        text += ws(rng) + maybe_comments(rng, cfg["p_comment"] * 0.5) + (ws(rng) if rng.random() < 0.7 else "")
    return {"schema": "newick", "text": text, "opts": opts, "info": {"pool": pool, "taxa_block": False, "taxa_title": None, "chars": None, "opts": opts}}


DNA = "ACGT"


def chars_block(rng, labels, as_data, with_title):
    nchar = rng.randint(1, 6)
    dtype = rng.choice(["DNA", "STANDARD"])
    syms = DNA if dtype == "DNA" else "01"
    lines = ["%s %s;" % (kw(rng, "begin"), kw(rng, "data" if as_data else "characters"))]
    if with_title:
        lines.append("  %s %s;" % (kw(rng, "title"), with_title))
    dims = "  %s " % kw(rng, "dimensions")
    if as_data:
        dims += "NTAX=%d " % len(labels)
    dims += "NCHAR=%d;" % nchar
    lines.append(dims)
    lines.append("  %s DATATYPE=%s MISSING=? GAP=-;" % (kw(rng, "format"), dtype))
    lines.append("  %s" % kw(rng, "matrix"))
    for lab in labels:
        seq = "".join(rng.choice(syms + ("?-" if rng.random() < 0.1 else "")) for _ in range(nchar))
        lines.append("    %s  %s" % (render_label(rng, lab, False), seq))
    lines.append("  ;")
    lines.append("%s;" % kw(rng, "end"))
    return "\n".join(lines) + "\n", dtype


def unknown_block(rng):
    name = rng.choice(["PAUP", "MRBAYES", "NOTES", "mesquite", "SETS", "ASSUMPTIONS"])
    body = rng.choice(["set autoclose=yes;", "log file=x.log; lset nst=6;", "text taxon=1 text='hello; world';",
                       "taxset first = 1-2;", "[only a comment]", ""])
    return "%s %s;\n  %s\n%s;\n" % (kw(rng, "begin"), name, body, kw(rng, rng.choice(["end", "endblock"])))


def gen_nexus(rng, size, with_chars=None, like=None):
    """like: the `info` of an earlier document whose taxon pool / TAXA block layout is to be reused (a second source
    for the same namespace)"""
    cfg = base_cfg(rng)
    tt = TreeText(rng, cfg)
    opts = gen_opts(rng, "nexus") if like is None else dict(like["opts"])
    UNDERSCORES_ARE_SPACES[0] = not opts.get("preserve_underscores")
    if like is not None and like.get("fresh_layout"):
        # a second source with a layout of its OWN (same reader options only): no TAXA block - a TAXA block read into a
        # populated namespace is a listed known finding - and a taxon pool that overlaps the first source's, so that the
        # file introduces new taxa (in tree statements and, with TRANSLATE, in the table) next to known ones
        old = list(like["pool"])
        keep = rng.sample(old, rng.randint(0, min(len(old), 3)))
        new_labels = [l for l in POOL if l not in old and l.lower() not in [o.lower() for o in old]]
        pool = keep + rng.sample(new_labels, rng.randint(1, min(len(new_labels), 4))) if new_labels else keep or old[:2]
        rng.shuffle(pool)
        if len(pool) < 2:
            pool = (pool + old)[:2]
        have_taxa, taxa_title = False, None
    elif like is not None:
        pool, have_taxa, taxa_title = list(like["pool"]), like["taxa_block"], like["taxa_title"]
        # same TAXLABELS order: taxon *numbers* in tree statements are resolved against the position in the namespace
    else:
        pool = rng.sample(POOL, rng.randint(2, min(len(POOL), 7 if size == "small" else 12)))
        have_taxa = rng.random() < 0.6
        taxa_title = rng.choice([None, None, "Taxa1", "my taxa"]) if have_taxa else None
    text = "#NEXUS" if rng.random() < 0.8 else "#nexus"
    text += "\n" + maybe_comments(rng, cfg["p_comment"]) + "\n"
    info = {"taxa_block": have_taxa, "chars": None, "pool": list(pool), "taxa_title": taxa_title, "opts": opts}
    if have_taxa:
        text += "%s %s;\n" % (kw(rng, "begin"), kw(rng, "taxa"))
        if taxa_title:
            text += "  %s %s;\n" % (kw(rng, "title"), render_label(rng, taxa_title, False))
        text += "  %s NTAX=%d;\n" % (kw(rng, "dimensions"), len(pool))
        text += "  %s %s;\n" % (kw(rng, "taxlabels"),
                                " ".join(render_label(rng, l, False) + maybe_comments(rng, cfg["p_comment"] * 0.3) for l in pool))
        text += "%s;\n" % kw(rng, rng.choice(["end", "endblock"]))
    nblocks = rng.choice([0, 1, 1, 1, 2, 2, 3]) if size == "small" else rng.randint(1, 4)
    want_chars = (rng.random() < 0.35) if with_chars is None else with_chars
    pieces = []
    for b in range(nblocks):
        pieces.append(("trees", b))
    if want_chars:
        pieces.insert(rng.randrange(len(pieces) + 1) if have_taxa else 0, ("chars", 0))
    for _ in range(rng.choice([0, 0, 1, 2])):
        pieces.insert(rng.randrange(len(pieces) + 1), ("unknown", 0))
    for kind, b in pieces:
        if kind == "unknown":
            text += unknown_block(rng)
            continue
        if kind == "chars":
            labels = pool
            blk, dtype = chars_block(rng, labels, as_data=not have_taxa, with_title=rng.choice([None, None, "chars1"]))
            info["chars"] = dtype
            text += blk
            continue
        ntrees = rng.choice([0, 1, 1, 2, 3]) if size == "small" else rng.randint(1, 6)
        plan = rooting_plan(rng, ntrees)
        text += "%s %s;\n" % (kw(rng, "begin"), kw(rng, "trees"))
        if rng.random() < 0.25:
            text += "  %s %s;\n" % (kw(rng, "title"), rng.choice(["Trees%d" % b, "'tree block'", "posterior"]))
        if taxa_title and rng.random() < 0.5:
            text += "  %s %s = %s;\n" % (kw(rng, "link"), kw(rng, "taxa"), render_label(rng, taxa_title, False))
        translate = None
        if rng.random() < 0.4:
            idx = list(range(len(pool)))
            if not have_taxa or rng.random() < 0.3:
                idx = rng.sample(idx, rng.randint(1, len(idx)))
            toks = [str(i + 1) for i in range(len(idx))] if rng.random() < 0.7 else \
                   ["T%d" % (i + 1) for i in range(len(idx))]
            if rng.random() < 0.3:
                rng.shuffle(toks)
            translate = dict(zip(idx, toks))
            # the table may come in several TRANSLATE statements, the later ones possibly after a TREE statement
            # (the block's symbol mapper is reused: each statement adds to the tokens already known)
            stages = [idx]
            if len(idx) >= 2 and rng.random() < 0.45:
                cut = rng.randint(1, len(idx) - 1)
                stages = [idx[:cut], idx[cut:]]
                if len(stages[1]) >= 2 and rng.random() < 0.3:
                    c2 = rng.randint(1, len(stages[1]) - 1)
                    stages = [stages[0], stages[1][:c2], stages[1][c2:]]

            def translate_stmt(part):
                t = "  " + maybe_comments(rng, cfg["p_comment"] * 0.5) + kw(rng, "translate") + "\n"
                t += ",\n".join("    %s %s" % (translate[j], render_label(rng, pool[j], False)) for j in part)
                t += "\n  ;\n" if rng.random() < 0.9 else ";\n"
                return t
            text += translate_stmt(stages[0])
            defined = set(stages[0])
            # where the later statements go: before tree number `at` (0 = directly after the first statement)
            pending = [(rng.randint(0, ntrees), part) for part in stages[1:]]
            pending.sort(key=lambda p: p[0])
        if translate is None:
            pending, defined = [], set()
        for i in range(ntrees + 1):
            while pending and pending[0][0] <= i:
                part = pending.pop(0)[1]
                text += translate_stmt(part)
                if i == 0:
                    defined |= set(part)
                # else: the block loop (reader and yielder alike) re-reads a token after a run of TREE statements, so the
                # statement keyword directly behind a TREE statement is swallowed and this TRANSLATE defines nothing:
                # its tokens are never used below; every route must still agree on the document
            if i == ntrees:
                break
            taxa = pick_taxa(rng, list(range(len(pool))), 6 if size == "small" else 10)
            refs = []
            for j in taxa:
                if translate is not None and j in defined and rng.random() < 0.8:
                    refs.append(translate[j])
                elif have_taxa and translate is None and rng.random() < 0.15:
                    refs.append(str(j + 1))
                elif translate is not None and (not have_taxa) and j not in defined:
                    # a label never mentioned in TRANSLATE of a file without TAXA block: fine, it becomes a new taxon
                    refs.append(render_label(rng, pool[j], have_taxa))
                elif translate is not None and not have_taxa:
                    refs.append(translate[j])      # avoid the stale-label-map duplicate of the mapper
                else:
                    # case variants only when a TAXA block fixes the spelling first on every route (a route that skips
                    # the character matrix would otherwise name the taxon after its first mention in a tree)
                    refs.append(render_label(rng, pool[j], have_taxa or not want_chars))
            internals = [render_label(rng, x, False) for x in rng.sample(INTERNAL, len(INTERNAL))]
            weight = rng.choice(WEIGHTS) if rng.random() < 0.3 else None
            if i > 0 and rng.random() < 0.2:
                # a statement that is not TREE between two TREE statements (an unrecognised command): the block loop, not the
                # tree-after-tree loop, meets the next TREE token; comments in front of it belong to no tree on any route
                text += "  %s%s;\n  %s" % (maybe_comments(rng, 0.3), rng.choice(["FOO x", "PROPERTIES fuzzy=no", "UTREE"]),
                                            rng.choice(["", "", comment(rng), comment(rng) + " " + comment(rng)]))
            text += "  " + maybe_comments(rng, cfg["p_comment"] * 0.6)
            name = rng.choice(["t%d" % i, "tree_%d" % i, "'my tree %d'" % i, "STATE_%d" % (i * 100), "con 50 majrule".replace(" ", "_")])
            star = "* " if rng.random() < 0.1 else ""
            text += "%s %s%s%s=%s" % (kw(rng, "tree"), star, name, rng.choice([" ", "", " " + maybe_comments(rng, cfg["p_comment"] * 0.4)]),
                                       rng.choice([" ", ""]))
            text += tt.statement(refs, internals, plan[i], weight) + ";\n"
        text += maybe_comments(rng, cfg["p_comment"] * 0.3)
        text += "%s;\n" % kw(rng, rng.choice(["end", "endblock"]))
    if rng.random() < 0.3:
        text += maybe_comments(rng, 0.5) + rng.choice(["", "\n", " "])
    if rng.random() < 0.15:
        text = text.rstrip("\n")
    return {"schema": "nexus", "text": text, "opts": opts, "info": info}


HYPHEN_POOL = ["Pan-troglodytes", "n-1", "a", "b", "c", "Homo-sapiens", "x-", "d", "e", "t-2-3"]
# every value is a dyadic rational (exact in binary64, sums included: the array route adds the lengths of edges that induce one
# split), written with a hyphen wherever a number can carry one
HYPHEN_LENGTHS = ["-0.125", "5e-1", "2.5E-1", "-1", "0.5", "-2.5e-1", "3", "1.25e-1", "-7.5E-1", "0.25", "-3", "6.25e-2"]
HYPHEN_COMMENTS = ["[&lnP=-12.5]", "[a-b]", "[-]", "[&rate=1e-3]", "[&range={-1,2}]", "[pre - post]"]


def charset_positions(rng, nchar):
    """one position list of a CHARSET statement: single positions, ranges, ranges with a step, `.` for the last position"""
    parts = []
    for _ in range(rng.randint(1, 3)):
        a = rng.randint(1, nchar)
        r = rng.random()
        if r < 0.3:
            parts.append(str(a))
        elif r < 0.6:
            parts.append("%d-%d" % (a, rng.randint(a, nchar)))
        elif r < 0.8:
            parts.append("%d-%d\\%d" % (a, rng.randint(a, nchar), rng.choice([2, 3])))
        elif r < 0.9:
            parts.append("%d - %d" % (a, rng.randint(a, nchar)))
        else:
            parts.append("%d-." % a)
    return " ".join(parts)


def gen_charset_doc(rng):
    """a character block and a SETS block with CHARSET statements (ranges, steps, single positions, `ALL` first / last / in the
    middle / absent) in front of one or more TREES blocks whose trees carry '-' everywhere an unquoted hyphen can stand:
    negative lengths, exponents, labels, comments.  The routes that parse the SETS block share ONE tokenizer with the trees that
    follow; the routes that skip it never enter the position-list parser."""
    opts = {}
    if rng.random() < 0.45:
        opts["suppress_edge_lengths"] = True
    if rng.random() < 0.3:
        opts["rooting"] = rng.choice(["default-unrooted", "default-rooted", "force-rooted"])
    if rng.random() < 0.2:
        opts["suppress_internal_node_taxa"] = False
    if rng.random() < 0.2:
        opts["extract_comment_metadata"] = False
    UNDERSCORES_ARE_SPACES[0] = True
    pool = rng.sample(HYPHEN_POOL, rng.randint(3, 7))
    nchar = rng.randint(3, 12)
    dtype = rng.choice(["DNA", "STANDARD"])
    syms = DNA if dtype == "DNA" else "01"
    text = "#NEXUS\n"
    text += "BEGIN TAXA;\n  DIMENSIONS NTAX=%d;\n  TAXLABELS %s;\nEND;\n" % (len(pool), " ".join(pool))
    text += "BEGIN CHARACTERS;\n  DIMENSIONS NCHAR=%d;\n  FORMAT DATATYPE=%s MISSING=? GAP=-;\n  MATRIX\n" % (nchar, dtype)
    for lab in pool:
        text += "    %s  %s\n" % (lab, "".join(rng.choice(syms + ("-?" if rng.random() < 0.15 else "")) for _ in range(nchar)))
    text += "  ;\nEND;\n"
    nsets = rng.randint(1, 4)
    where_all = rng.choice(["last", "last", "first", "middle", "none", "only"])
    stmts = ["  CHARSET cs%d = %s;" % (i, charset_positions(rng, nchar)) for i in range(nsets)]
    allstmt = "  %s whole = %s;" % (kw(rng, "charset"), rng.choice(["ALL", "all", "All"]))
    if where_all == "last":
        stmts.append(allstmt)
    elif where_all == "first":
        stmts.insert(0, allstmt)
    elif where_all == "middle":
        stmts.insert(rng.randint(1, len(stmts)), allstmt)
    elif where_all == "only":
        stmts = [allstmt]
    block = rng.choice(["SETS", "SETS", "sets", "ASSUMPTIONS"])
    text += "BEGIN %s;\n%s\n%s;\n" % (block, "\n".join(stmts), rng.choice(["END", "ENDBLOCK"]))
    if rng.random() < 0.3:
        text += unknown_block(rng)

    counter = [0]

    def node(labels, depth):
        if len(labels) == 1:
            out = labels[0]
        else:
            k = rng.randint(1, len(labels) - 1)
            parts = [labels[:k], labels[k:]]
            if len(parts[1]) > 1 and rng.random() < 0.3:
                j = rng.randint(1, len(parts[1]) - 1)
                parts = [parts[0], parts[1][:j], parts[1][j:]]
            out = "(" + ",".join(node(p, depth + 1) for p in parts) + ")"
            if rng.random() < 0.3:
                counter[0] += 1          # internal labels are unique per tree: they become taxa when those are not suppressed
                out += rng.choice(["i-%d", "anc%d", "9%d"]) % counter[0]
        if rng.random() < 0.25:
            out += rng.choice(HYPHEN_COMMENTS)
        if depth > 0 and rng.random() < 0.85:
            out += ":" + rng.choice(HYPHEN_LENGTHS)
        return out
    for b in range(rng.choice([1, 1, 2])):
        text += "BEGIN TREES;\n"
        for i in range(rng.randint(1, 3)):
            labels = rng.sample(pool, rng.randint(2, len(pool)))
            counter[0] = 0
            pre = rng.choice(["", "", "[&U] ", "[&R] ", rng.choice(HYPHEN_COMMENTS) + " "])
            text += "  TREE t%d-%d = %s%s;\n" % (b, i, pre, node(labels, 0)) if rng.random() < 0.3 else \
                    "  TREE t%d_%d = %s%s;\n" % (b, i, pre, node(labels, 0))
        text += "END;\n"
    info = {"taxa_block": True, "chars": dtype, "pool": list(pool), "taxa_title": None, "opts": opts,
            "charset_all": where_all}
    return {"schema": "nexus", "text": text, "opts": opts, "info": info}


def damage(rng, doc):
    """a damaged variant of a document: every route must still agree (all refuse it, or all read the same trees)"""
    text = doc["text"]
    kind = rng.choice(["truncate", "truncate", "dup-leaf", "no-equals", "unbalanced", "drop-semicolon", "empty", "bad-length"])
    if kind == "truncate" and len(text) > 2:
        text = text[:rng.randint(1, len(text) - 1)]
    elif kind == "dup-leaf":
        text = text.replace(",", ",a,a,", 1)
    elif kind == "no-equals":
        text = text.replace("=", " ", 1)
    elif kind == "unbalanced":
        i = text.find("(")
        text = text[:i] + "(" + text[i:] if i >= 0 else text + "("
    elif kind == "drop-semicolon":
        i = text.rfind(";")
        text = text[:i] + text[i + 1:] if i >= 0 else text
    elif kind == "bad-length":
        i = text.find(":")
        text = text[:i + 1] + "x" + text[i + 1:] if i >= 0 else text + ":"
    else:
        text = rng.choice(["", " ", "\n", "[only a comment]", "[c]\n"])
    return {"schema": doc["schema"], "text": text, "opts": doc["opts"], "info": dict(doc.get("info") or {}, damaged=kind)}


def gen_doc(rng, size="small"):
    if rng.random() < 0.35:
        return gen_newick(rng, size)
    return gen_nexus(rng, size)


# ---------------------------------------------------------------- exhaustive small scope
def small_scope_docs():
    """every NEXUS document over a tiny grammar: 0-2 TREES blocks x 0-2 trees each x {TAXA block or not} x
    {TRANSLATE or not} x rooting token pattern x comment placement; and every Newick document with 0-3 statements
    over 3 statement forms x separators"""
    stmts = ["(a,b)", "[&R] ((a:1,b:2)x:1,c)", "[&U][&W 1/2](b[&k=1],(c,a):0.5)[post]", "a:1", "(,a)"]
    seps = [";", ";\n", "; [c] ", ";;\n"]
    for n in range(0, 4):
        def rec(k, acc):
            if k == 0:
                yield acc
                return
            for s in range(len(stmts)):
                for sep in range(len(seps)):
                    for r in rec(k - 1, acc + [(s, sep)]):
                        yield r
        if n == 3:
            # three statements: statements only, one separator pattern each
            for a in range(len(stmts)):
                for b in range(len(stmts)):
                    for c in range(len(stmts)):
                        for sep in range(len(seps)):
                            text = "".join(stmts[x] + seps[sep] for x in (a, b, c))
                            yield {"schema": "newick", "text": text, "opts": {"store_tree_weights": True}}
            continue
        for combo in rec(n, []):
            text = "".join(stmts[s] + seps[p] for s, p in combo)
            for opts in ({}, {"store_tree_weights": True, "rooting": "default-rooted"}):
                yield {"schema": "newick", "text": text, "opts": opts}
    nstmts = ["({1},{2})", "[&R] (({1}:1,{2}:2)x:1,{3})", "[&U] [&W 1/2] ({1},({2},{3}):0.5)[post]"]
    for taxa in (False, True):
        for translate in (False, True):
            for layout in ([0], [1], [2], [0, 1], [1, 1], [1, 2], [2, 1], [2, 0, 1], [2, 2]):
                for pick in range(3):
                    for pre_comment in (False, True):
                        for tail in ("", "\n", "[end]"):
                            text = "#NEXUS\n"
                            if taxa:
                                text += "BEGIN TAXA; DIMENSIONS NTAX=3; TAXLABELS a b c; END;\n"
                            ti = 0
                            for nb, nt in enumerate(layout):
                                text += "BEGIN TREES;\n"
                                if translate:
                                    text += " TRANSLATE 1 c, 2 b;\n TRANSLATE 3 a;\n" if nb else " TRANSLATE 1 c, 2 b, 3 a;\n"
                                if pre_comment:
                                    text += " [block comment]\n"
                                for i in range(nt):
                                    names = ("1", "2", "3") if (taxa or translate) and (pick + ti) % 2 == 0 else ("a", "b", "c")
                                    s = nstmts[(pick + ti) % 3].replace("{1}", names[0]).replace("{2}", names[1]).replace("{3}", names[2])
                                    text += " %sTREE t%d = %s;\n" % ("[pre] " if pre_comment and i else "", ti, s)
                                    ti += 1
                                text += "END;\n"
                                if nb == 0 and len(layout) > 1:
                                    text += "BEGIN PAUP; set x=1; END;\n"
                            text = text.rstrip("\n") + tail
                            yield {"schema": "nexus", "text": text, "opts": {"store_tree_weights": True}}
