"""Gen/C20Consts.lean: the closed-form kernels of the NEXUS / PHYLIP readers that the C20 model would otherwise copy by
hand, read off the current source on every run:

* the block names `_parse_nexus_stream` dispatches on, as canonical groups (the names that share a branch, and whether
  the branch raises) - the order of the branches, `a == x or a == y` versus `a in [x, y]`, and commuted operands do not matter;
* the DATATYPE keywords of `_parse_format_statement` with the data type each selects, the data type of any other
  keyword and the symbols it installs;
* the keywords that end a block (`_consume_to_end_of_block`);
* the reader's initial gap / missing / match characters and symbols (`NexusReader.__init__`);
* the width of the label field of strict PHYLIP (`_parse_taxon_from_line`): `line[:w]` / `line[w:]` with one and the same `w`.

Anything outside these shapes raises `Unsupported` (never a guess)."""
import ast
import os

from extract import Unsupported, find_function, lean_string

NAME = "C20Consts"


def _is_name(node, name):
    return isinstance(node, ast.Name) and node.id == name


def _str(node):
    if isinstance(node, ast.Constant) and isinstance(node.value, str):
        return node.value
    return None


def keywords_of(test, var):
    """the string literals `var` is compared with in a test of the forms `var == 's'`, `'s' == var`, `var in [..]`,
    and `or` of these; None when the test has another shape"""
    if isinstance(test, ast.BoolOp) and isinstance(test.op, ast.Or):
        out = []
        for v in test.values:
            k = keywords_of(v, var)
            if k is None:
                return None
            out += k
        return out
    if isinstance(test, ast.Compare) and len(test.ops) == 1 and len(test.comparators) == 1:
        a, op, b = test.left, test.ops[0], test.comparators[0]
        if isinstance(op, ast.Eq):
            if _is_name(a, var) and _str(b) is not None:
                return [_str(b)]
            if _is_name(b, var) and _str(a) is not None:
                return [_str(a)]
        if isinstance(op, ast.In) and _is_name(a, var) and isinstance(b, (ast.List, ast.Tuple, ast.Set)):
            ks = [_str(e) for e in b.elts]
            if all(k is not None for k in ks):
                return ks
    return None


def if_chain(node):
    """[(test, body)] of an if / elif chain, and the final else body"""
    out = []
    while True:
        out.append((node.test, node.body))
        if len(node.orelse) == 1 and isinstance(node.orelse[0], ast.If):
            node = node.orelse[0]
        else:
            return out, node.orelse


def _raises(body):
    return any(isinstance(s, ast.Raise) for s in body)


def block_groups(fn):
    """the dispatch on the block name in `_parse_nexus_stream`: the longest if-chain all of whose tests compare `token`
    with string literals and that mentions 'TAXA'"""
    best = None
    for n in ast.walk(fn):
        if isinstance(n, ast.If):
            chain, _ = if_chain(n)
            ks = [keywords_of(t, "token") for t, _ in chain]
            if ks and ks[-1] is None:        # `else: if <something else>:` is the same syntax tree as `elif`: the chain ends there
                chain, ks = chain[:-1], ks[:-1]
            if ks and all(k is not None for k in ks) and any("TAXA" in k for k in ks):
                if best is None or len(chain) > len(best[0]):
                    best = (chain, ks)
    if best is None:
        raise Unsupported("_parse_nexus_stream: no dispatch on the block name found")
    chain, ks = best
    groups = []
    seen = set()
    for (test, body), k in zip(chain, ks):
        if any(x in seen for x in k):
            raise Unsupported("block name tested twice")
        seen |= set(k)
        groups.append((sorted(set(k)), _raises(body)))
    return sorted(groups)


def assigned_const(body, attr):
    """the string literal assigned to `self.<attr>` in a statement list (top level), or None"""
    for s in body:
        if isinstance(s, ast.Assign) and len(s.targets) == 1 and isinstance(s.targets[0], ast.Attribute) \
                and s.targets[0].attr == attr and _is_name(s.targets[0].value, "self"):
            return s.value
    return None


def datatype_table(fn):
    """DATATYPE = <keyword> -> data type: the if-chain on `token` whose bodies assign `self._data_type`"""
    for n in ast.walk(fn):
        if isinstance(n, ast.If):
            chain, orelse = if_chain(n)
            ks = [keywords_of(t, "token") for t, _ in chain]
            vals = [assigned_const(b, "_data_type") for _, b in chain]
            if all(k is not None for k in ks) and all(v is not None and _str(v) is not None for v in vals) and len(chain) >= 3:
                table = []
                for k, v, (_, b) in zip(ks, vals, chain):
                    if assigned_const(b, "_symbols") is not None:
                        raise Unsupported("a DATATYPE keyword branch installs symbols")
                    for x in k:
                        table.append((x, _str(v)))
                if len(set(x for x, _ in table)) != len(table):
                    raise Unsupported("DATATYPE keyword tested twice")
                dv = assigned_const(orelse, "_data_type")
                ds = assigned_const(orelse, "_symbols")
                if dv is None or _str(dv) is None or ds is None or _str(ds) is None:
                    raise Unsupported("default DATATYPE branch does not assign literal _data_type and _symbols")
                return sorted(table), _str(dv), _str(ds)
    raise Unsupported("_parse_format_statement: no DATATYPE table found")


def end_keywords(fn):
    """`while not (token == 'END' or token == 'ENDBLOCK') and ...` in `_consume_to_end_of_block`"""
    for n in ast.walk(fn):
        if isinstance(n, ast.While):
            for m in ast.walk(n.test):
                if isinstance(m, ast.UnaryOp) and isinstance(m.op, ast.Not):
                    k = keywords_of(m.operand, "token")
                    if k:
                        return sorted(set(k))
    raise Unsupported("_consume_to_end_of_block: no end-of-block test found")


def init_defaults(fn):
    out = {}
    for attr in ("_symbols", "_gap_char", "_missing_char"):
        v = assigned_const(fn.body, attr)
        if v is None or _str(v) is None:
            raise Unsupported("NexusReader.__init__ does not assign a literal %s" % attr)
        out[attr] = _str(v)
    v = assigned_const(fn.body, "_match_char")
    if not (isinstance(v, ast.Call) and getattr(v.func, "id", None) in ("frozenset", "set") and len(v.args) == 1):
        raise Unsupported("NexusReader.__init__: _match_char is not frozenset(<literal>)")
    a = v.args[0]
    if _str(a) is not None:
        out["_match_char"] = sorted(set(_str(a)))
    elif isinstance(a, (ast.List, ast.Tuple, ast.Set)) and all(_str(e) is not None for e in a.elts):
        out["_match_char"] = sorted(set(_str(e) for e in a.elts))
    else:
        raise Unsupported("NexusReader.__init__: _match_char members are not literals")
    v = assigned_const(fn.body, "_interleave")
    if not (isinstance(v, ast.Constant) and isinstance(v.value, bool)):
        raise Unsupported("NexusReader.__init__: _interleave is not a literal")
    out["_interleave"] = v.value
    return out


def strict_width(fn):
    """`seq_label = line[:w]...` and `line = line[w:]` in the `if self.strict:` branch"""
    for n in ast.walk(fn):
        if isinstance(n, ast.If) and isinstance(n.test, ast.Attribute) and n.test.attr == "strict":
            uppers, lowers = [], []
            for m in n.body:
                for sub in ast.walk(m):
                    if isinstance(sub, ast.Subscript) and _is_name(sub.value, "line") and isinstance(sub.slice, ast.Slice):
                        sl = sub.slice
                        if sl.step is not None:
                            raise Unsupported("strict label slice with a step")
                        if sl.lower is None and isinstance(sl.upper, ast.Constant) and isinstance(sl.upper.value, int):
                            uppers.append(sl.upper.value)
                        elif sl.upper is None and isinstance(sl.lower, ast.Constant) and isinstance(sl.lower.value, int):
                            lowers.append(sl.lower.value)
                        else:
                            raise Unsupported("strict label slice is not line[:w] / line[w:]")
            if len(uppers) == 1 and len(lowers) == 1:
                return uppers[0], lowers[0]
            raise Unsupported("strict branch does not slice the line exactly once each way")
    raise Unsupported("_parse_taxon_from_line: no `if self.strict` branch")


def lean_list(items):
    return "[" + ", ".join(items) + "]"


def generate(repo):
    nx = ast.parse(open(os.path.join(repo, "src/dendropy/dataio/nexusreader.py")).read())
    ph = ast.parse(open(os.path.join(repo, "src/dendropy/dataio/phylipreader.py")).read())
    groups = block_groups(find_function(nx, "NexusReader._parse_nexus_stream"))
    table, dflt, dsyms = datatype_table(find_function(nx, "NexusReader._parse_format_statement"))
    ends = end_keywords(find_function(nx, "NexusReader._consume_to_end_of_block"))
    init = init_defaults(find_function(nx, "NexusReader.__init__"))
    label_end, seq_start = strict_width(find_function(ph, "PhylipReader._parse_taxon_from_line"))
    out = ["namespace DendroModel.C20Consts", "",
           "/-- block names `_parse_nexus_stream` dispatches on: the names sharing a branch, and whether that branch raises -/",
           "def blockGroups : List (List String × Bool) := " + lean_list(
               "(%s, %s)" % (lean_list(lean_string(k) for k in ks), "true" if r else "false") for ks, r in groups),
           "/-- FORMAT DATATYPE = keyword -> data type -/",
           "def datatypeTable : List (String × String) := " + lean_list("(%s, %s)" % (lean_string(k), lean_string(v)) for k, v in table),
           "def datatypeDefault : String := " + lean_string(dflt),
           "def datatypeDefaultSymbols : String := " + lean_string(dsyms),
           "/-- the tokens that end a block -/",
           "def endKeywords : List String := " + lean_list(lean_string(k) for k in ends),
           "def initSymbols : String := " + lean_string(init["_symbols"]),
           "def initGap : String := " + lean_string(init["_gap_char"]),
           "def initMissing : String := " + lean_string(init["_missing_char"]),
           "def initMatch : List String := " + lean_list(lean_string(k) for k in init["_match_char"]),
           "def initInterleave : Bool := " + ("true" if init["_interleave"] else "false"),
           "/-- strict PHYLIP: the label is `line[:phylipLabelEnd]`, the sequence starts at `line[phylipSeqStart:]` -/",
           "def phylipLabelEnd : Nat := %d" % label_end,
           "def phylipSeqStart : Nat := %d" % seq_start,
           "", "end DendroModel.C20Consts"]
    return "\n".join(out) + "\n"
