"""Gen/C13Keys.lean: the keyword tables of the reading front ends, read off the current source.

* `basemodel._extract_serialization_target_keyword`: the accepted source keywords (`file`, `path`, ...),
  `Deserializable._get_from` / `MultiReadable._read_from`: which `get_from_*` / `read_from_*` method each one reaches;
* `NexusReader._parse_nexus_stream` and its copy `NexusTreeDataYielder._yield_items_from_stream`: the word the scan for the
  next block stops at, and the block names the `if`-chain dispatches on with the kind of action taken;
* `NexusReader._parse_trees_block` and its copy `NexusTreeDataYielder._yield_from_trees_block`: the tokens that end the block
  loop, the statement keywords of the `if`-chain (with whether the branch clears the loop variable), the keyword that
  continues a run of TREE statements.

Every table is emitted in a canonical order (sorted), because the order of the tests is immaterial once the tested words are
pairwise different (checked here).  Anything outside these shapes raises Unsupported."""
import ast
import os

from extract import Unsupported, find_function, lean_string

NAME = "C13Keys"


def _const_str(node, what):
    if isinstance(node, ast.Constant) and isinstance(node.value, str):
        return node.value
    raise Unsupported("%s: expected a string literal, got %s" % (what, ast.dump(node)[:80]))


def _name_is(node, name):
    return isinstance(node, ast.Name) and node.id == name


def _tested_words(test, var, what):
    """words w such that the test is `var == w`, `var == w1 or var == w2 ...`, or `var in [w1, ...]`"""
    if isinstance(test, ast.BoolOp) and isinstance(test.op, ast.Or):
        out = []
        for v in test.values:
            out += _tested_words(v, var, what)
        return out
    if isinstance(test, ast.Compare) and len(test.ops) == 1:
        left, op, right = test.left, test.ops[0], test.comparators[0]
        if isinstance(op, ast.Eq):
            if _name_is(left, var):
                return [_const_str(right, what)]
            if _name_is(right, var):          # commuted operands
                return [_const_str(left, what)]
        if isinstance(op, ast.In) and _name_is(left, var) and isinstance(right, (ast.List, ast.Tuple, ast.Set)):
            return [_const_str(e, what) for e in right.elts]
    raise Unsupported("%s: test on `%s` outside the supported shapes: %s" % (what, var, ast.dump(test)[:120]))


def _is_word_test(test, var):
    try:
        _tested_words(test, var, "")
        return True
    except Unsupported:
        return False


def _if_chain(stmt, var):
    """[(test, body), ...], orelse-body of an if / elif / ... / else statement whose tests compare `var` with words; an `else:`
    holding a single `if` on something else is the default branch, not a link of the chain"""
    chain = []
    while True:
        chain.append((stmt.test, stmt.body))
        if len(stmt.orelse) == 1 and isinstance(stmt.orelse[0], ast.If) and _is_word_test(stmt.orelse[0].test, var):
            stmt = stmt.orelse[0]
            continue
        return chain, stmt.orelse


def _calls(stmts):
    """names of the methods called (attribute calls) anywhere in the statements"""
    out = []
    for s in stmts:
        for n in ast.walk(s):
            if isinstance(n, ast.Call) and isinstance(n.func, ast.Attribute):
                out.append(n.func.attr)
    return out


def _strip_doc(body):
    if body and isinstance(body[0], ast.Expr) and isinstance(body[0].value, ast.Constant) and isinstance(body[0].value.value, str):
        return body[1:]
    return body


# ---------------------------------------------------------------- source keywords
def _target_keywords(tree):
    fn = find_function(tree, "_extract_serialization_target_keyword")
    for s in fn.body:
        if isinstance(s, ast.Assign) and len(s.targets) == 1 and _name_is(s.targets[0], "target_type_keywords"):
            if not isinstance(s.value, (ast.List, ast.Tuple)):
                raise Unsupported("target_type_keywords is not a literal list")
            kws = [_const_str(e, "target_type_keywords") for e in s.value.elts]
            if len(set(kws)) != len(kws):
                raise Unsupported("target_type_keywords repeats a keyword")
            return sorted(kws)
    raise Unsupported("_extract_serialization_target_keyword does not assign target_type_keywords")


def _dispatch(tree, qualname, prefix):
    fn = find_function(tree, qualname)
    chains = [s for s in fn.body if isinstance(s, ast.If)]
    if len(chains) != 1:
        raise Unsupported("%s: expected exactly one if-chain on src_type" % qualname)
    chain, orelse = _if_chain(chains[0], "src_type")
    if not (len(orelse) == 1 and isinstance(orelse[0], ast.Raise)):
        raise Unsupported("%s: the chain does not end in `else: raise`" % qualname)
    table = {}
    for test, body in chain:
        words = _tested_words(test, "src_type", qualname)
        if not (len(body) == 1 and isinstance(body[0], ast.Return) and isinstance(body[0].value, ast.Call)
                and isinstance(body[0].value.func, ast.Attribute) and body[0].value.func.attr.startswith(prefix)):
            raise Unsupported("%s: branch for %s is not `return ….%s*(…)`" % (qualname, words, prefix))
        call = body[0].value
        kw = {k.arg: k.value for k in call.keywords}
        if not (_name_is(kw.get("src"), "src") and _name_is(kw.get("schema"), "schema")):
            raise Unsupported("%s: branch for %s does not hand on src= and schema=" % (qualname, words))
        for w in words:
            if w in table:
                raise Unsupported("%s: %s tested twice" % (qualname, w))
            table[w] = call.func.attr[len(prefix):]
    return sorted(table.items())


# ---------------------------------------------------------------- NEXUS block loop
def _is_not_eof(test):
    return (isinstance(test, ast.UnaryOp) and isinstance(test.op, ast.Not) and isinstance(test.operand, ast.Call)
            and isinstance(test.operand.func, ast.Attribute) and test.operand.func.attr == "is_eof")


def _block_loop(fn, what):
    loops = [s for s in fn.body if isinstance(s, ast.While) and _is_not_eof(s.test)]
    if len(loops) != 1:
        raise Unsupported("%s: expected exactly one `while not ….is_eof()` loop" % what)
    loop = loops[0]
    scans = [s for s in loop.body if isinstance(s, ast.While)]
    if len(scans) != 1 or not (isinstance(scans[0].test, ast.BoolOp) and isinstance(scans[0].test.op, ast.And)):
        raise Unsupported("%s: expected one inner scanning loop `while token != … and …`" % what)
    stop = []
    for v in scans[0].test.values:
        if isinstance(v, ast.Compare) and len(v.ops) == 1 and isinstance(v.ops[0], ast.NotEq) and _name_is(v.left, "token"):
            c = v.comparators[0]
            if isinstance(c, ast.Constant) and c.value is None:
                continue
            stop.append(_const_str(c, what + " scan"))
        elif _is_not_eof(v):
            continue
        else:
            raise Unsupported("%s: scanning condition outside the supported shape: %s" % (what, ast.dump(v)[:100]))
    chains = [s for s in loop.body if isinstance(s, ast.If)]
    if len(chains) != 1:
        raise Unsupported("%s: expected exactly one if-chain on the block name" % what)
    chain, orelse = _if_chain(chains[0], "token")
    table = {}
    for test, body in chain:
        words = _tested_words(test, "token", what)
        calls = _calls(body)
        if isinstance(body[0], ast.Raise):
            kind = "error"
        elif "_parse_taxa_block" in calls:
            kind = "taxa"
        elif "_parse_characters_data_block" in calls:
            kind = "chars"
        elif "_parse_trees_block" in calls or "_yield_from_trees_block" in calls:
            kind = "trees"
        elif (len(body) == 1 and isinstance(body[0], ast.If) and isinstance(body[0].test, ast.UnaryOp)
              and isinstance(body[0].test.op, ast.Not) and isinstance(body[0].test.operand, ast.Attribute)
              and body[0].test.operand.attr == "exclude_chars" and not body[0].orelse):
            kind = "sets"          # parsed only when character data are wanted; otherwise NOTHING is consumed
        else:
            raise Unsupported("%s: action for block %s not recognised" % (what, words))
        for w in words:
            if w in table:
                raise Unsupported("%s: block name %s tested twice" % (what, w))
            table[w] = kind
    if "_consume_to_end_of_block" not in _calls(orelse):
        raise Unsupported("%s: the default branch does not consume the unknown block" % what)
    return sorted(stop), sorted(table.items())


# ---------------------------------------------------------------- TREES block loop
def _trees_loop(fn, what):
    loops = [s for s in _strip_doc(fn.body) if isinstance(s, ast.While)]
    if len(loops) != 1 or not (isinstance(loops[0].test, ast.BoolOp) and isinstance(loops[0].test.op, ast.And)):
        raise Unsupported("%s: expected one `while … and token != 'END' …` loop" % what)
    loop = loops[0]
    ends = []
    for v in loop.test.values:
        if _is_not_eof(v):
            continue
        if isinstance(v, ast.Compare) and len(v.ops) == 1 and _name_is(v.left, "token"):
            c = v.comparators[0]
            if isinstance(v.ops[0], ast.IsNot) and isinstance(c, ast.Constant) and c.value is None:
                continue
            if isinstance(v.ops[0], ast.NotEq):
                if isinstance(c, ast.Constant) and c.value is None:
                    continue
                ends.append(_const_str(c, what + " loop"))
                continue
        raise Unsupported("%s: loop condition outside the supported shape: %s" % (what, ast.dump(v)[:100]))
    chains = [s for s in loop.body if isinstance(s, ast.If)]
    if len(chains) != 1:
        raise Unsupported("%s: expected exactly one if-chain on the statement keyword" % what)
    chain, orelse = _if_chain(chains[0], "token")
    if orelse:
        raise Unsupported("%s: the statement chain has a default branch" % what)
    table, cont = {}, []
    for test, body in chain:
        words = _tested_words(test, "token", what)
        clears = False
        for s in body:
            if isinstance(s, ast.Assign) and len(s.targets) == 1 and _name_is(s.targets[0], "token") \
                    and isinstance(s.value, ast.Constant) and s.value.value == "":
                clears = True
        for w in words:
            if w in table:
                raise Unsupported("%s: statement keyword %s tested twice" % (what, w))
            table[w] = clears
        # the keyword that continues a run of TREE statements: `if ….cast_current_token_to_ucase() != "TREE"`
        for n in ast.walk(ast.Module(body=body, type_ignores=[])):
            if isinstance(n, ast.Compare) and len(n.ops) == 1 and isinstance(n.ops[0], ast.NotEq) and isinstance(n.left, ast.Call) \
                    and isinstance(n.left.func, ast.Attribute) and n.left.func.attr == "cast_current_token_to_ucase":
                cont.append(_const_str(n.comparators[0], what + " run"))
    return sorted(ends), sorted(table.items()), sorted(cont)


def _lean_list(items):
    return "[" + ", ".join(items) + "]"


def _strs(l):
    return _lean_list(lean_string(x) for x in l)


def _pairs(l):
    return _lean_list("(%s, %s)" % (lean_string(a), lean_string(b)) for a, b in l)


def _bpairs(l):
    return _lean_list("(%s, %s)" % (lean_string(a), "true" if b else "false") for a, b in l)


def tables(repo):
    base = ast.parse(open(os.path.join(repo, "src/dendropy/datamodel/basemodel.py")).read())
    rd = ast.parse(open(os.path.join(repo, "src/dendropy/dataio/nexusreader.py")).read())
    yl = ast.parse(open(os.path.join(repo, "src/dendropy/dataio/nexusyielder.py")).read())
    t = {}
    t["targetKeywords"] = _target_keywords(base)
    t["getDispatch"] = _dispatch(base, "Deserializable._get_from", "get_from_")
    t["readDispatch"] = _dispatch(base, "MultiReadable._read_from", "read_from_")
    t["readerScanStop"], t["readerBlocks"] = _block_loop(find_function(rd, "NexusReader._parse_nexus_stream"), "NexusReader._parse_nexus_stream")
    t["yielderScanStop"], t["yielderBlocks"] = _block_loop(find_function(yl, "NexusTreeDataYielder._yield_items_from_stream"),
                                                           "NexusTreeDataYielder._yield_items_from_stream")
    t["readerTreesEnd"], t["readerTreesStmts"], t["readerTreeRun"] = _trees_loop(
        find_function(rd, "NexusReader._parse_trees_block"), "NexusReader._parse_trees_block")
    t["yielderTreesEnd"], t["yielderTreesStmts"], t["yielderTreeRun"] = _trees_loop(
        find_function(yl, "NexusTreeDataYielder._yield_from_trees_block"), "NexusTreeDataYielder._yield_from_trees_block")
    return t


def generate(repo):
    t = tables(repo)
    out = ["namespace DendroModel.C13Keys", ""]
    out.append("/-- `target_type_keywords` of `_extract_serialization_target_keyword` (sorted) -/")
    out.append("def targetKeywords : List String := " + _strs(t["targetKeywords"]))
    out.append("/-- source keyword -> the `get_from_*` method `Deserializable._get_from` dispatches to -/")
    out.append("def getDispatch : List (String × String) := " + _pairs(t["getDispatch"]))
    out.append("/-- source keyword -> the `read_from_*` method `MultiReadable._read_from` dispatches to -/")
    out.append("def readDispatch : List (String × String) := " + _pairs(t["readDispatch"]))
    out.append("/-- the word the scan for the next block stops at (besides end of input) -/")
    out.append("def readerScanStop : List String := " + _strs(t["readerScanStop"]))
    out.append("def yielderScanStop : List String := " + _strs(t["yielderScanStop"]))
    out.append("/-- block name -> kind of action of the block loop (`taxa`, `chars`, `trees`, `sets`, `error`); any other name is skipped -/")
    out.append("def readerBlocks : List (String × String) := " + _pairs(t["readerBlocks"]))
    out.append("def yielderBlocks : List (String × String) := " + _pairs(t["yielderBlocks"]))
    out.append("/-- tokens ending the loop of a TREES block -/")
    out.append("def readerTreesEnd : List String := " + _strs(t["readerTreesEnd"]))
    out.append("def yielderTreesEnd : List String := " + _strs(t["yielderTreesEnd"]))
    out.append("/-- statement keyword of a TREES block -> does the branch clear the loop variable -/")
    out.append("def readerTreesStmts : List (String × Bool) := " + _bpairs(t["readerTreesStmts"]))
    out.append("def yielderTreesStmts : List (String × Bool) := " + _bpairs(t["yielderTreesStmts"]))
    out.append("/-- the keyword that continues a run of TREE statements -/")
    out.append("def readerTreeRun : List String := " + _strs(t["readerTreeRun"]))
    out.append("def yielderTreeRun : List String := " + _strs(t["yielderTreeRun"]))
    out += ["", "end DendroModel.C13Keys"]
    return "\n".join(out) + "\n"
