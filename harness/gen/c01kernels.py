"""Gen/C01Kernels.lean: the closed-form kernels that sit INSIDE the methods anchored by property C01 (not free-standing
functions, so `extract.translate_function` cannot take them whole): the tests and formulas of

  Bipartition.is_leafset_nested_within / is_nested_within / normalize / compile_split_bitmask / compile_tree_leafset_bitmask,
  Tree.encode_bipartitions (collapse / suppress conditions, the OR accumulation), Tree.from_split_bitmasks (head filter, the four
  mask tests of the greedy insertion), Tree.is_compatible_with_bipartition (re-encode condition),
  TaxonNamespace.all_taxa_bitmask / taxon_bitmask, bitprocessing.set_bit_index_iter (loop condition, yield test, step).

Each kernel is located by its *shape* in the current source (which statement of which method), attributes of `self` and of
neighbouring objects are renamed to parameters, and the remaining pure int/bool expression is translated with the operator
mapping of extract.py.  Straight-line temporaries are kept as `let`s, so inlining or introducing one is harmless; commuted
operands and equivalent boolean forms are absorbed by the bridge theorems in Props/C01.lean (`kernel_*`).  Anything else
raises `Unsupported` (= broken obligation), never a guess."""
import ast
import copy
import os

from extract import Unsupported, find_function, expr as iexpr

NAME = "C01Kernels"


# ---------------------------------------------------------------- helpers
def _src(n):
    try:
        return ast.unparse(n)
    except Exception:
        return "?"


class _Subst(ast.NodeTransformer):
    def __init__(self, mapping):
        self.mapping = mapping

    def visit_Attribute(self, node):
        d = _src(node)
        if d in self.mapping:
            return ast.copy_location(ast.Name(id=self.mapping[d], ctx=ast.Load()), node)
        return self.generic_visit(node)

    def visit_Call(self, node):
        d = _src(node)
        if d in self.mapping:
            return ast.copy_location(ast.Name(id=self.mapping[d], ctx=ast.Load()), node)
        return self.generic_visit(node)


def subst(node, mapping):
    return ast.fix_missing_locations(_Subst(mapping).visit(copy.deepcopy(node)))


def _names(e):
    return {n.id for n in ast.walk(e) if isinstance(n, ast.Name)}


def ix(e, bools):
    """int-valued expression; must not mention a bool-typed name"""
    bad = _names(e) & set(bools)
    if bad:
        raise Unsupported("bool-typed name %s used as an integer in %s" % (sorted(bad), _src(e)))
    return iexpr(e)


def bx(e, bools):
    """Python truthiness of an expression over int-typed and bool-typed names"""
    if isinstance(e, ast.Name) and e.id in bools:
        return e.id
    if isinstance(e, ast.Constant) and isinstance(e.value, bool):
        return "true" if e.value else "false"
    if isinstance(e, ast.UnaryOp) and isinstance(e.op, ast.Not):
        return "(!%s)" % bx(e.operand, bools)
    if isinstance(e, ast.BoolOp):
        op = " || " if isinstance(e.op, ast.Or) else " && "
        return "(" + op.join(bx(v, bools) for v in e.values) + ")"
    if isinstance(e, ast.Compare):
        return ix(e, bools)
    return "(decide (%s ≠ 0))" % ix(e, bools)


def strip_doc(stmts):
    if stmts and isinstance(stmts[0], ast.Expr) and isinstance(stmts[0].value, ast.Constant) and isinstance(stmts[0].value.value, str):
        return stmts[1:]
    return stmts


def _returns(stmts):
    if not stmts:
        return False
    last = stmts[-1]
    if isinstance(last, ast.Return):
        return True
    if isinstance(last, ast.If):
        return _returns(last.body) and bool(last.orelse) and _returns(last.orelse)
    return False


def _plain_assigns(stmts):
    return all(isinstance(b, ast.Assign) and len(b.targets) == 1 and isinstance(b.targets[0], ast.Name) for b in stmts)


def tblock(stmts, ind, boolret, bools, ret=None):
    """straight-line code with if/else over int- and bool-typed names -> a Lean term.  `ret(e)` renders a returned value."""
    pad = "  " * ind
    if not stmts:
        raise Unsupported("kernel may fall off its end")
    s, rest = stmts[0], stmts[1:]
    if isinstance(s, ast.Return):
        if s.value is None:
            raise Unsupported("bare return")
        if ret is not None:
            return pad + ret(s.value)
        return pad + (bx(s.value, bools) if boolret else ix(s.value, bools))
    if isinstance(s, ast.Assign) and len(s.targets) == 1 and isinstance(s.targets[0], ast.Name):
        if s.targets[0].id in bools:
            raise Unsupported("assignment to a bool-typed name")
        return "%slet %s := %s\n" % (pad, s.targets[0].id, ix(s.value, bools)) + tblock(rest, ind, boolret, bools, ret)
    if isinstance(s, ast.If):
        c = bx(s.test, bools)
        if s.orelse:
            return ("%sif %s then\n" % (pad, c) + tblock(s.body + ([] if _returns(s.body) else rest), ind + 1, boolret, bools, ret)
                    + "\n%selse\n" % pad + tblock(s.orelse + ([] if _returns(s.orelse) else rest), ind + 1, boolret, bools, ret))
        if _returns(s.body):
            return ("%sif %s then\n" % (pad, c) + tblock(s.body, ind + 1, boolret, bools, ret)
                    + "\n%selse\n" % pad + tblock(rest, ind + 1, boolret, bools, ret))
        if _plain_assigns(s.body):
            assigned = [b.targets[0].id for b in s.body]
            for k, b in enumerate(s.body):
                if _names(b.value) & set(assigned[:k]):
                    raise Unsupported("conditional block reads a name it assigned")
            out = ""
            if _names(s.test) & set(assigned):
                out += "%slet c_ := %s\n" % (pad, c)
                c = "c_"
            for b in s.body:
                n = b.targets[0].id
                out += "%slet %s := if %s then %s else %s\n" % (pad, n, c, ix(b.value, bools), n)
            return out + tblock(rest, ind, boolret, bools, ret)
    raise Unsupported("statement outside the kernel subset: %s" % _src(s)[:120])


def define(name, params, rettype, body):
    sig = " ".join("(%s : %s)" % (" ".join(ns), ty) for ns, ty in params if ns)
    return "def %s %s : %s :=\n%s\n" % (name, sig, rettype, body)


def _find_if(stmts, test_src, what):
    for s in stmts:
        if isinstance(s, ast.If) and _src(s.test) == test_src:
            return s
    raise Unsupported("%s: no `if %s:` at the expected place" % (what, test_src))


def _call_args(call, fn, what):
    """arguments of a call, ordered by the callee's signature (positional + keywords, defaults not used)"""
    names = [a.arg for a in fn.args.args if a.arg not in ("self", "cls")]
    got = {}
    for k, a in enumerate(call.args):
        if k >= len(names):
            raise Unsupported("%s: too many positional arguments" % what)
        got[names[k]] = a
    for kw in call.keywords:
        if kw.arg is None or kw.arg in got or kw.arg not in names:
            raise Unsupported("%s: unexpected keyword %s" % (what, kw.arg))
        got[kw.arg] = kw.value
    if set(got) != set(names):
        raise Unsupported("%s: call leaves %s to defaults" % (what, sorted(set(names) - set(got))))
    return [got[n] for n in names]


# ---------------------------------------------------------------- the kernels
SELF = {"self._leafset_bitmask": "leafset_bitmask", "self._split_bitmask": "split_bitmask",
        "self._tree_leafset_bitmask": "tree_leafset_bitmask", "self._lowest_relevant_bit": "lowest_relevant_bit",
        "self._is_rooted": "is_rooted"}


def k_leafset_nested(bip):
    fn = find_function(bip, "Bipartition.is_leafset_nested_within")
    body = strip_doc(fn.body)
    if not body:
        raise Unsupported("is_leafset_nested_within: empty body")
    s0 = body[0]
    # the other operand: an int as is, else the other bipartition's LEAFSET mask
    if not (isinstance(s0, ast.If) and _src(s0.test) == "isinstance(other, int)" and len(s0.body) == 1 and len(s0.orelse) == 1
            and _plain_assigns(s0.body + s0.orelse) and s0.body[0].targets[0].id == s0.orelse[0].targets[0].id
            and _src(s0.body[0].value) == "other" and _src(s0.orelse[0].value) == "other._leafset_bitmask"):
        raise Unsupported("is_leafset_nested_within: operand selection is not `other` / `other._leafset_bitmask`: %s" % _src(s0)[:160])
    v = s0.body[0].targets[0].id
    rest = [subst(s, SELF) for s in body[1:]]
    return define("leafset_nested", [(["leafset_bitmask", "tree_leafset_bitmask", v], "Int")], "Bool", tblock(rest, 1, True, []))


def k_nested_within(bip):
    fn = find_function(bip, "Bipartition.is_nested_within")
    body = strip_doc(fn.body)
    mp = dict(SELF)
    mp.update({"other._leafset_bitmask": "other_leafset_bitmask", "other._split_bitmask": "other_split_bitmask"})
    flag = [a.arg for a in fn.args.args if a.arg not in ("self", "other")]
    if len(flag) != 1:
        raise Unsupported("is_nested_within: signature changed: %s" % flag)
    stmts = [subst(s, mp) for s in body]
    bools = ["is_rooted", flag[0]]
    return define("nested_within", [(["is_rooted", flag[0]], "Bool"),
                                    (["leafset_bitmask", "split_bitmask", "other_leafset_bitmask", "other_split_bitmask",
                                      "tree_leafset_bitmask"], "Int")], "Bool", tblock(stmts, 1, True, bools))


def k_normalize(bip):
    """Bipartition.normalize: one kernel per convention string"""
    fn = find_function(bip, "Bipartition.normalize")
    body = strip_doc(fn.body)
    out, seen = [], []
    node = body[0] if body else None
    while isinstance(node, ast.If):
        t = node.test
        if not (isinstance(t, ast.Compare) and len(t.ops) == 1 and isinstance(t.ops[0], ast.Eq) and _src(t.left) == "convention"
                and isinstance(t.comparators[0], ast.Constant) and isinstance(t.comparators[0].value, str)):
            raise Unsupported("normalize: convention dispatch changed: %s" % _src(t))
        conv = t.comparators[0].value
        seen.append(conv)
        stmts = [subst(s, SELF) for s in node.body]
        out.append(define("normalize_" + conv, [(["bitmask", "tree_leafset_bitmask", "lowest_relevant_bit"], "Int")], "Int",
                          tblock(stmts, 1, False, [])))
        node = node.orelse[0] if len(node.orelse) == 1 else None
    if sorted(seen) != ["lsb0", "lsb1"]:
        raise Unsupported("normalize: conventions are %s, expected lsb0 and lsb1" % seen)
    return "\n".join(out)


def k_compile_split(bip):
    fn = find_function(bip, "Bipartition.compile_split_bitmask")
    s = _find_if(strip_doc(fn.body), "self._is_rooted", "compile_split_bitmask")
    if not (len(s.body) == 1 and len(s.orelse) == 1 and all(isinstance(x, ast.Assign) and len(x.targets) == 1
            and _src(x.targets[0]) == "self._split_bitmask" for x in (s.body[0], s.orelse[0]))):
        raise Unsupported("compile_split_bitmask: the rooted/unrooted branches do not each assign self._split_bitmask")
    rooted = ix(subst(s.body[0].value, SELF), [])
    call = s.orelse[0].value
    if not (isinstance(call, ast.Call) and _src(call.func) in ("Bipartition.normalize_bitmask", "self.normalize_bitmask")):
        raise Unsupported("compile_split_bitmask: unrooted branch is not a call of normalize_bitmask: %s" % _src(call)[:120])
    args = [ix(subst(a, SELF), []) for a in _call_args(call, find_function(bip, "Bipartition.normalize_bitmask"), "normalize_bitmask call")]
    body = "  if is_rooted then %s else PyBits.normalize_bitmask %s" % (rooted, " ".join(args))
    return define("compile_split", [(["is_rooted"], "Bool"), (["leafset_bitmask", "tree_leafset_bitmask", "lowest_relevant_bit"], "Int")],
                  "Int", body)


def k_lowest_relevant_bit(bip):
    fn = find_function(bip, "Bipartition.compile_tree_leafset_bitmask")
    s = _find_if(strip_doc(fn.body), "lowest_relevant_bit is not None", "compile_tree_leafset_bitmask")
    if not (len(s.orelse) == 1 and isinstance(s.orelse[0], ast.If)):
        raise Unsupported("compile_tree_leafset_bitmask: no elif after the explicit-argument branch")
    e = s.orelse[0]
    test = bx(subst(e.test, SELF), [])
    if not (len(e.body) == 1 and isinstance(e.body[0], ast.Assign) and _src(e.body[0].targets[0]) == "self._lowest_relevant_bit"
            and len(e.orelse) == 1 and isinstance(e.orelse[0], ast.Assign) and _src(e.orelse[0].targets[0]) == "self._lowest_relevant_bit"
            and _src(e.orelse[0].value) == "None"):
        raise Unsupported("compile_tree_leafset_bitmask: branches do not assign self._lowest_relevant_bit / None")
    call = e.body[0].value
    if not (isinstance(call, ast.Call) and _src(call.func) in ("bitprocessing.least_significant_set_bit", "least_significant_set_bit")
            and len(call.args) == 1 and not call.keywords):
        raise Unsupported("compile_tree_leafset_bitmask: lowest relevant bit is not least_significant_set_bit(...): %s" % _src(call)[:120])
    arg = ix(subst(call.args[0], SELF), [])
    return define("lowest_relevant_bit", [(["tree_leafset_bitmask"], "Int")], "Option Int",
                  "  if %s then some (PyBits.least_significant_set_bit %s) else none" % (test, arg))


def k_encode(tree):
    fn = find_function(tree, "Tree.encode_bipartitions")
    out = []
    mp = {"self._is_rooted": "is_rooted", "len(seed_node._child_nodes)": "num_children", "len(self.seed_node._child_nodes)": "num_children"}
    col = None
    for s in fn.body:
        if isinstance(s, ast.If) and "collapse_basal_bifurcation" in _src(s):
            col = s
            break
    if col is None:
        raise Unsupported("encode_bipartitions: no conditional call of collapse_basal_bifurcation")
    out.append(define("collapse_cond", [(["collapse_unrooted_basal_bifurcation", "is_rooted"], "Bool"), (["num_children"], "Int")], "Bool",
                      "  " + bx(subst(col.test, mp), ["collapse_unrooted_basal_bifurcation", "is_rooted"])))
    loop = [s for s in fn.body if isinstance(s, ast.For) and "postorder_edge_iter" in _src(s.iter)]
    if len(loop) != 1:
        raise Unsupported("encode_bipartitions: post-order edge loop not found")
    sup = [s for s in loop[0].body if isinstance(s, ast.If) and "suppress_unifurcations" in _src(s.test)]
    if len(sup) != 1 or not sup[0].orelse:
        raise Unsupported("encode_bipartitions: suppress-unifurcation branch not found")
    out.append(define("suppress_cond", [(["suppress_unifurcations"], "Bool"), (["num_children"], "Int")], "Bool",
                      "  " + bx(sup[0].test, ["suppress_unifurcations"])))
    # the accumulation over the children in the else-branch
    acc = [n for n in ast.walk(ast.Module(body=sup[0].orelse, type_ignores=[])) if isinstance(n, ast.AugAssign)
           and _src(n.target) == "leafset_bitmask"]
    if len(acc) != 1:
        raise Unsupported("encode_bipartitions: expected one `leafset_bitmask <op>= child mask` accumulation, found %d" % len(acc))
    if _src(acc[0].value) not in ("child.edge.bipartition._leafset_bitmask", "child.edge.bipartition.leafset_bitmask",
                                  "child._edge.bipartition._leafset_bitmask"):
        raise Unsupported("encode_bipartitions: accumulated value is %s" % _src(acc[0].value))
    binop = ast.BinOp(left=ast.Name(id="leafset_bitmask", ctx=ast.Load()), op=acc[0].op, right=ast.Name(id="child_leafset_bitmask", ctx=ast.Load()))
    out.append(define("accumulate", [(["leafset_bitmask", "child_leafset_bitmask"], "Int")], "Int", "  " + iexpr(binop)))
    # a leaf's mask comes from the namespace, and only when the leaf has a taxon
    leaf = [n for n in ast.walk(ast.Module(body=sup[0].orelse, type_ignores=[])) if isinstance(n, ast.Assign)
            and _src(n.targets[0]) == "leafset_bitmask" and "taxon_bitmask" in _src(n.value)]
    if len(leaf) != 1 or _src(leaf[0].value) not in ("taxon_namespace.taxon_bitmask(taxon)", "self._taxon_namespace.taxon_bitmask(taxon)",
                                                      "self.taxon_namespace.taxon_bitmask(taxon)"):
        raise Unsupported("encode_bipartitions: leaf mask is not taxon_namespace.taxon_bitmask(taxon)")
    return "\n".join(out)


def k_from_splits(tree):
    fn = find_function(tree, "Tree.from_split_bitmasks")
    loops = [s for s in fn.body if isinstance(s, ast.For)]
    head = [s for s in loops if _src(s.iter) == "split_bitmasks" and isinstance(s.target, ast.Name)]
    if len(head) != 1:
        raise Unsupported("from_split_bitmasks: head loop over split_bitmasks not found")
    head = head[0]
    var = head.target.id
    # `split_bitmasks_to_add.append(e)` is the loop's only effect: turn it into `some e`, falling through into `none`
    sink = "split_bitmasks_to_add.append"

    def conv(stmts):
        res = []
        for s in stmts:
            if isinstance(s, ast.Expr) and isinstance(s.value, ast.Call) and _src(s.value.func) == sink and len(s.value.args) == 1:
                res.append(ast.Return(value=s.value.args[0]))
            elif isinstance(s, ast.If):
                res.append(ast.If(test=s.test, body=conv(s.body), orelse=conv(s.orelse) if s.orelse else []))
            elif isinstance(s, ast.Assign):
                res.append(s)
            else:
                raise Unsupported("from_split_bitmasks: head loop statement %s" % _src(s)[:100])
        return res
    stmts = conv(head.body)

    def opt(stmts, ind):
        pad = "  " * ind
        if not stmts:
            return pad + "none"
        s, rest = stmts[0], stmts[1:]
        if isinstance(s, ast.Return):
            return pad + "some " + ix(s.value, ["is_rooted"])
        if isinstance(s, ast.Assign) and len(s.targets) == 1 and isinstance(s.targets[0], ast.Name):
            return "%slet %s := %s\n" % (pad, s.targets[0].id, ix(s.value, ["is_rooted"])) + opt(rest, ind)
        if isinstance(s, ast.If):
            if rest and not (_returns(s.body) and s.orelse and _returns(s.orelse)):
                # a branch that appends and then continues with more statements would append twice: not in the subset
                if any(isinstance(n, ast.Return) for n in ast.walk(ast.Module(body=rest, type_ignores=[]))):
                    raise Unsupported("from_split_bitmasks: head loop may append more than once per split")
            return ("%sif %s then\n" % (pad, bx(s.test, ["is_rooted"])) + opt(s.body, ind + 1)
                    + "\n%selse\n" % pad + opt(s.orelse, ind + 1))
        raise Unsupported("from_split_bitmasks: head loop statement %s" % _src(s)[:100])
    out = [define("head_filter", [(["is_rooted"], "Bool"), ([var, "all_taxa_bitmask"], "Int")], "Option Int", opt(stmts, 1))]
    # the greedy insertion: four mask tests
    ins = [s for s in loops if _src(s.iter) == "split_bitmasks_to_add" and isinstance(s.target, ast.Name)]
    if len(ins) != 1:
        raise Unsupported("from_split_bitmasks: insertion loop not found")
    ins = ins[0]
    sv = ins.target.id
    mp = {"root_edge.bipartition.leafset_bitmask": "node_leafset_bitmask", "parent_node.edge.bipartition.leafset_bitmask": "node_leafset_bitmask",
          "child.edge.bipartition.leafset_bitmask": "node_leafset_bitmask"}
    first = ins.body[0]
    if not (isinstance(first, ast.If) and isinstance(first.body[0], ast.Continue)):
        raise Unsupported("from_split_bitmasks: insertion loop does not start with the root-containment skip")
    out.append(define("skip_not_in_root", [([sv, "node_leafset_bitmask"], "Int")], "Bool", "  " + bx(subst(first.test, mp), [])))
    whiles = [n for n in ast.walk(ins) if isinstance(n, ast.While)]
    if len(whiles) != 1 or _src(whiles[0].body[0]) != "parent_node = parent_node.parent_node":
        raise Unsupported("from_split_bitmasks: leaf-to-root climb not found")
    out.append(define("climb_further", [([sv, "node_leafset_bitmask"], "Int")], "Bool", "  " + bx(subst(whiles[0].test, mp), [])))
    present = [s for s in ins.body if isinstance(s, ast.If) and "parent_node is None" in _src(s.test) and isinstance(s.body[0], ast.Continue)]
    if len(present) != 1 or not (isinstance(present[0].test, ast.BoolOp) and isinstance(present[0].test.op, ast.Or) and len(present[0].test.values) == 2):
        raise Unsupported("from_split_bitmasks: already-present test not found")
    out.append(define("already_present", [([sv, "node_leafset_bitmask"], "Int")], "Bool",
                      "  " + bx(subst(present[0].test.values[1], mp), [])))
    inner = [n for n in ast.walk(ins) if isinstance(n, ast.For) and "child_nodes" in _src(n.iter)]
    if len(inner) != 1:
        raise Unsupported("from_split_bitmasks: loop over the children not found")
    tmp = {s.targets[0].id: s.value for s in inner[0].body if isinstance(s, ast.Assign) and isinstance(s.targets[0], ast.Name)}
    tests = [s for s in inner[0].body if isinstance(s, ast.If)]
    if len(tests) != 1:
        raise Unsupported("from_split_bitmasks: child membership test not found")
    t = tests[0].test

    class Inl(ast.NodeTransformer):
        def visit_Name(self, node):
            return copy.deepcopy(tmp[node.id]) if node.id in tmp else node
    t = Inl().visit(copy.deepcopy(t))
    out.append(define("child_meets", [([sv, "node_leafset_bitmask"], "Int")], "Bool", "  " + bx(subst(t, mp), [])))
    moved = [n for n in ast.walk(tests[0]) if isinstance(n, ast.AugAssign) and _src(n.target) == "new_mask"]
    if len(moved) != 1 or not isinstance(moved[0].op, ast.BitOr):
        raise Unsupported("from_split_bitmasks: the new node's mask is not the OR of the moved children")
    return "\n".join(out)


def k_compat_tree(tree):
    fn = find_function(tree, "Tree.is_compatible_with_bipartition")
    body = strip_doc(fn.body)
    s0 = body[0]
    if not (isinstance(s0, ast.If) and len(s0.body) == 1 and _src(s0.body[0]) == "self.encode_bipartitions()" and not s0.orelse):
        raise Unsupported("is_compatible_with_bipartition: does not start with the conditional default re-encoding")
    flag = [a.arg for a in fn.args.args if a.arg not in ("self", "bipartition")]
    if len(flag) != 1:
        raise Unsupported("is_compatible_with_bipartition: signature changed")
    t = subst(s0.test, {"self.bipartition_encoding": "has_encoding"})
    return define("reencode_first", [([flag[0], "has_encoding"], "Bool")], "Bool", "  " + bx(t, [flag[0], "has_encoding"]))


def k_namespace(tax):
    fn = find_function(tax, "TaxonNamespace.all_taxa_bitmask")
    stmts = [subst(s, {"self._current_accession_count": "accession_count"}) for s in strip_doc(fn.body)]
    out = [define("all_taxa_bitmask", [(["accession_count"], "Int")], "Int", tblock(stmts, 1, False, []))]
    fn = find_function(tax, "TaxonNamespace.taxon_bitmask")
    tries = [s for s in strip_doc(fn.body) if isinstance(s, ast.Try)]
    if len(tries) != 1 or len(tries[0].handlers) != 1:
        raise Unsupported("taxon_bitmask: cache-miss handler not found")
    h = tries[0].handlers[0].body
    idx = [s for s in h if isinstance(s, ast.Assign) and _src(s.value) == "self._taxon_accession_index_map[taxon]"]
    if len(idx) != 1 or not isinstance(idx[0].targets[0], ast.Name):
        raise Unsupported("taxon_bitmask: the bit index is not the accession index")
    iv = idx[0].targets[0].id
    rets = [s for s in h if isinstance(s, ast.Return)]
    if len(rets) != 1:
        raise Unsupported("taxon_bitmask: handler does not return")
    keep = [s for s in h if isinstance(s, ast.Assign) and isinstance(s.targets[0], ast.Name) and s is not idx[0]] + rets
    out.append(define("taxon_bitmask", [([iv], "Int")], "Int", tblock(keep, 1, False, [])))
    return "\n".join(out)


def k_set_bits(bitp):
    """set_bit_index_iter: initial index, the masked value, loop condition, yield test, index step, bit step"""
    fn = find_function(bitp, "set_bit_index_iter")
    body = strip_doc(fn.body)
    pre = [s for s in body if not isinstance(s, ast.While)]
    loops = [s for s in body if isinstance(s, ast.While)]
    if len(loops) != 1 or body[-1] is not loops[0] or not _plain_assigns(pre):
        raise Unsupported("set_bit_index_iter: not `assignments; while ...`")
    w = loops[0]
    args = [a.arg for a in fn.args.args]
    if args != ["s", "fill_bitmask", "one_based", "ordination_in_mask"]:
        raise Unsupported("set_bit_index_iter: signature changed: %s" % args)
    init = {s.targets[0].id: s.value for s in pre}
    need = {"currBitIndex", "test_bit", "maskedSplitRep", "standard_ordination"}
    if set(init) != need:
        raise Unsupported("set_bit_index_iter: loop state is %s" % sorted(init))
    out = []
    e = init["currBitIndex"]
    # `one_based and 1 or 0`  /  `1 if one_based else 0`
    if _src(e) in ("one_based and 1 or 0", "1 if one_based else 0"):
        out.append(define("sbi_first_index", [(["one_based"], "Bool")], "Int", "  if one_based then (1 : Int) else (0 : Int)"))
    else:
        raise Unsupported("set_bit_index_iter: initial index %s" % _src(e))
    out.append(define("sbi_first_bit", [], "Int", "  " + ix(init["test_bit"], [])).replace("def sbi_first_bit  :", "def sbi_first_bit :"))
    out.append(define("sbi_masked", [(["s", "fill_bitmask"], "Int")], "Int", "  " + ix(init["maskedSplitRep"], [])))
    out.append(define("sbi_standard", [(["ordination_in_mask"], "Bool")], "Bool", "  " + bx(init["standard_ordination"], ["ordination_in_mask"])))
    out.append(define("sbi_continue", [(["test_bit", "maskedSplitRep"], "Int")], "Bool", "  " + bx(w.test, [])))
    if len(w.body) != 3:
        raise Unsupported("set_bit_index_iter: loop body has %d statements" % len(w.body))
    y, inc, sh = w.body
    if not (isinstance(y, ast.If) and not y.orelse and len(y.body) == 1 and _src(y.body[0]) == "yield currBitIndex"):
        raise Unsupported("set_bit_index_iter: first loop statement is not the conditional yield of the index")
    out.append(define("sbi_yield", [(["maskedSplitRep", "test_bit"], "Int")], "Bool", "  " + bx(y.test, [])))
    if not (isinstance(inc, ast.If) and not inc.orelse and len(inc.body) == 1 and _src(inc.body[0]) == "currBitIndex += 1"):
        raise Unsupported("set_bit_index_iter: second loop statement is not the conditional increment of the index")
    out.append(define("sbi_advance", [(["standard_ordination"], "Bool"), (["fill_bitmask", "test_bit"], "Int")], "Bool",
                      "  " + bx(inc.test, ["standard_ordination"])))
    if isinstance(sh, ast.AugAssign) and _src(sh.target) == "test_bit":
        val = ast.BinOp(left=ast.Name(id="test_bit", ctx=ast.Load()), op=sh.op, right=sh.value)
    elif isinstance(sh, ast.Assign) and _src(sh.targets[0]) == "test_bit":
        val = sh.value
    else:
        raise Unsupported("set_bit_index_iter: third loop statement does not step test_bit")
    out.append(define("sbi_next_bit", [(["test_bit"], "Int")], "Int", "  " + ix(val, [])))
    return "\n".join(out)


def generate(repo):
    def parse(rel):
        with open(os.path.join(repo, rel)) as f:
            return ast.parse(f.read())
    bip = parse("src/dendropy/datamodel/treemodel/_bipartition.py")
    tree = parse("src/dendropy/datamodel/treemodel/_tree.py")
    tax = parse("src/dendropy/datamodel/taxonmodel.py")
    bitp = parse("src/dendropy/utility/bitprocessing.py")
    out = ["import DendroModel.Basic.PyInt", "import DendroModel.Gen.PyBits", "namespace DendroModel.C01Kernels", "open DendroModel", ""]
    for part in (k_leafset_nested(bip), k_nested_within(bip), k_normalize(bip), k_compile_split(bip), k_lowest_relevant_bit(bip),
                 k_encode(tree), k_from_splits(tree), k_compat_tree(tree), k_namespace(tax), k_set_bits(bitp)):
        out.append(part)
    out.append("end DendroModel.C01Kernels")
    return "\n".join(out) + "\n"
