"""Gen/C10Lower.lean: the case folding `TaxonNamespace._lookup_label` / `Taxon.lower_cased_label` apply - `str(label).lower()` - as
tables read off the *running interpreter* (the kernel is CPython's, not the repository's: the source only has to keep calling
`.lower()`, which is checked here; a switch to `.casefold()` / `.upper()` is `Unsupported`):

  lowerRanges   (first, last, step, delta): every code point cp in first..last with (cp - first) % step == 0 lowers to cp + delta
  lowerSpecial  code points whose lower-cased form is not a single character (U+0130)
  cased / caseIgnorable   the two character classes of the Final_Sigma rule (U+03A3 lowers to U+03C2 at the end of a word),
                          found by probing `str.lower` with words around a capital sigma

The tables depend only on the interpreter's Unicode database, so they are cached per (sys.version, unidata_version) in the
temporary directory; every run differential-tests the Lean function built on them against `str.lower` on every generated label."""
import ast
import hashlib
import os
import sys
import tempfile
import unicodedata

from extract import Unsupported, find_function

NAME = "C10Lower"
SIGMA, FINAL, SMALL = 0x3A3, 0x3C2, 0x3C3


def _check_source(repo):
    """the two places that fold case must still do it with str.lower()"""
    path = os.path.join(repo, "src/dendropy/datamodel/taxonmodel.py")
    tree = ast.parse(open(path).read())
    look = find_function(tree, "TaxonNamespace._lookup_label")
    prop = find_function(tree, "Taxon._get_lower_cased_label")
    folds = [ast.unparse(n) for n in ast.walk(look) if isinstance(n, ast.Assign) and ast.unparse(n.targets[0]) == "label"]
    if folds != ["label = str(label).lower()"]:
        raise Unsupported("_lookup_label does not fold the query with `label = str(label).lower()`: %s" % folds)
    cmps = [ast.unparse(n) for n in ast.walk(look) if isinstance(n, ast.Compare)]
    if "label == taxon.lower_cased_label" not in cmps or "label == taxon.label" not in cmps:
        raise Unsupported("_lookup_label does not compare with taxon.label / taxon.lower_cased_label: %s" % cmps)
    sets = [ast.unparse(n) for n in ast.walk(prop) if isinstance(n, ast.Assign)]
    if sets != ["self._lower_cased_label = str(self._label).lower()"]:
        raise Unsupported("Taxon.lower_cased_label is not `str(self._label).lower()`: %s" % sets)


def _ranges(cps):
    """maximal runs of consecutive code points"""
    out = []
    for c in cps:
        if out and out[-1][1] == c - 1:
            out[-1][1] = c
        else:
            out.append([c, c])
    return [(a, b) for a, b in out]


def _tables():
    singles, special, cased, ignorable = [], [], [], []
    sig = chr(SIGMA)
    for cp in range(0x110000):
        if 0xD800 <= cp <= 0xDFFF:
            continue
        c = chr(cp)
        lo = c.lower()
        if cp != SIGMA:
            if len(lo) != 1:
                special.append((cp, [ord(x) for x in lo]))
            elif lo != c:
                singles.append((cp, ord(lo) - cp))
        # Final_Sigma probes: `a` is cased, `1` is neither cased nor case-ignorable
        t1 = ("a" + c + sig).lower().endswith(chr(FINAL))      # ignorable(c) or cased(c)
        t3 = ("1" + c + sig).lower().endswith(chr(FINAL))      # cased(c) and not ignorable(c)
        if t3:
            cased.append(cp)
        elif t1:
            ignorable.append(cp)
    # (first, last, step, delta)
    rs = []
    for cp, d in singles:
        if rs:
            a, b, st, dd = rs[-1]
            if dd == d and ((st is None and cp - b in (1, 2)) or (st is not None and cp - b == st)):
                rs[-1] = [a, cp, cp - b if st is None else st, dd]
                continue
        rs.append([cp, cp, None, d])
    rs = [(a, b, st or 1, d) for a, b, st, d in rs]
    return rs, special, _ranges(cased), _ranges(ignorable)


def tables():
    key = hashlib.sha1((sys.version + unicodedata.unidata_version).encode()).hexdigest()[:16]
    path = os.path.join(tempfile.gettempdir(), "c10lower-%s.py" % key)
    try:
        with open(path) as f:
            t = ast.literal_eval(f.read())
        if isinstance(t, tuple) and len(t) == 4:
            return t
    except Exception:
        pass
    t = _tables()
    try:
        tmp = path + ".%d" % os.getpid()
        with open(tmp, "w") as f:
            f.write(repr(t))
        os.replace(tmp, path)
    except Exception:
        pass
    return t


def generate(repo):
    _check_source(repo)
    rs, special, cased, ignorable = tables()
    # the Lean lookups stop at the first range beyond the code point: the tables must be sorted upwards and disjoint
    for name, t in (("lowerRanges", [(a, b) for a, b, _, _ in rs]), ("cased", cased), ("caseIgnorable", ignorable)):
        if any(a > b for a, b in t) or any(t[i][1] >= t[i + 1][0] for i in range(len(t) - 1)):
            raise Unsupported("table %s is not sorted / disjoint" % name)
    if [cp for cp, _ in special] != [0x130]:
        raise Unsupported("this interpreter lower-cases %s to more than one character (only U+0130 is modelled as such)" % special)
    out = ["namespace DendroModel.C10Lower", "",
           "/-- `str.lower` of a single character, where it is one character and differs: (first, last, step, delta) -/",
           "def lowerRanges : List (Nat × Nat × Nat × Int) := ["]
    out.append(",\n".join("  (%d, %d, %d, %d)" % r for r in rs) + "]")
    out += ["", "/-- characters whose lower-cased form is not a single character -/",
            "def lowerSpecial : List (Nat × List Nat) := [" + ", ".join("(%d, [%s])" % (cp, ", ".join(map(str, l))) for cp, l in special) + "]",
            "", "/-- Final_Sigma context: cased characters that are not case-ignorable -/",
            "def cased : List (Nat × Nat) := ["]
    out.append(",\n".join("  " + ", ".join("(%d, %d)" % r for r in cased[i:i + 8]) for i in range(0, len(cased), 8)) + "]")
    out += ["", "/-- Final_Sigma context: case-ignorable characters (skipped on both sides of the sigma) -/",
            "def caseIgnorable : List (Nat × Nat) := ["]
    out.append(",\n".join("  " + ", ".join("(%d, %d)" % r for r in ignorable[i:i + 8]) for i in range(0, len(ignorable), 8)) + "]")
    out += ["", "def capitalSigma : Nat := %d" % SIGMA, "def finalSigma : Nat := %d" % FINAL, "def smallSigma : Nat := %d" % SMALL,
            "", "end DendroModel.C10Lower"]
    return "\n".join(out) + "\n"
