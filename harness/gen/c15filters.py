"""Gen/C15Filters.lean: the closed-form kernels of the C15 anchors, read off the current source.

* the truthiness-composed filter lambdas of `Node.preorder_internal_node_iter`, `Node.postorder_internal_node_iter`,
  `Tree.preorder_internal_edge_iter`, `Tree.postorder_internal_edge_iter` (`(froot(x) and x._child_nodes and
  filter_fn(x)) or None` with `froot` chosen by `exclude_seed_*`), of `Node.leaf_iter` and of `Node.leaf_nodes`,
  as Boolean functions of what the lambda can observe:
      excl       the exclude_seed_node / exclude_seed_edge argument (truthiness)
      hasFilter  `filter_fn is not None`
      hasParent  `x._parent_node is not None`
      hasKids    `x._child_nodes` is non-empty
      pass       truthiness of `filter_fn(x)`
  Only truthiness matters (the result is used as `if filter_fn(node)` by the traversal), so `and`/`or`/`not`/`None`
  translate to `&&`/`||`/`!`/`false`.
* which traversal each wrapper delegates to (`preorder_iter` / `postorder_iter`), as a string constant;
* `Tree.__len__`: the counting loop over the leaf iterator, as `init + n * step` where n is the number of items the
  leaf iterator yields.

Anything outside this subset raises Unsupported (never a guess): testing the truthiness of the node itself (`x and …`),
of the filter object (`if filter_fn:`), a fast path in `__len__` … — the bridge theorems of Props/C15.lean
(`internal_filter_bridge`, `leaf_filter_bridge`, `len_bridge`) then count as broken and the property's `search` hook hunts
for an input on which the real code is wrong.

Tolerated rewrites: lambdas or local `def`s with a single return, conditional expressions instead of `if` statements,
`len(x._child_nodes) > 0` / `!= 0` / `== 0`, `bool(…)`, `x.is_leaf()`, `x.is_internal()`, `x.child_nodes()`,
`x.parent_node`, `… is None`, `not …`, commuted operands (the bridge is proved by case analysis), keyword or positional
`filter_fn` in the delegating call, a list/generator comprehension around the delegating call; local `def`s whose body
is straight-line temporaries (plain attribute reads), `if`s with early `return`s and a final `return`; and a filter
obtained from a CALL to a helper - a function of the same module, or a method / staticmethod / classmethod of the same
class - whose body is again assignments, `if`s on the flags, local defs / lambdas and a `return` of one of them: the
helper is inlined (its parameters take the roles of the caller's parameters they are bound to, or of the literal
None/True/False, or of a local lambda handed on), up to three levels deep.  A helper from another module, a decorated
one, a generator, one with *args/**kwargs, a recursive one, or an argument that is anything but a parameter / local
lambda / literal is Unsupported."""
import ast
import os

from extract import Unsupported, find_function

NAME = "C15Filters"


class Lam(object):
    """a lambda / local def: argument name, body (an expression, or the statement list of a def), the environment it
    closes over, and the translator (= the function whose parameters it sees) it was written in"""

    def __init__(self, arg, body, env, tr):
        self.arg, self.body, self.env, self.tr = arg, body, env, tr


class Ite(object):
    def __init__(self, cond, a, b):
        self.cond, self.a, self.b = cond, a, b


def _is_none(e):
    return isinstance(e, ast.Constant) and e.value is None


def _const(e):
    return isinstance(e, ast.Constant) and (e.value is None or e.value is True or e.value is False)


class Translator(object):
    """one function (a wrapper, or a helper inlined into it): the roles of its parameters and a symbolic environment of
    the local lambdas.  roles: name -> "excl" (the exclude_seed_* flag) | "filter" (the user's filter_fn) |
    ("const", value) (a parameter bound to the literal None / True / False at the call that is being inlined)"""

    def __init__(self, fn, roles, head_of_edge, module, cls=None, depth=0):
        self.fn = fn
        self.roles = roles
        self.edge = head_of_edge          # the lambda argument is an Edge: the node is x._head_node
        self.module, self.cls, self.depth = module, cls, depth
        self.delegate = None
        self.temps = {}                   # straight-line temporaries inside a def body: name -> expression

    def role(self, e):
        return self.roles.get(e.id) if isinstance(e, ast.Name) else None

    # ---- flags: what does not depend on the visited object
    def flag(self, e, soft=False):
        """Lean Bool over excl / hasFilter for a condition built from the flags; None (soft) or Unsupported otherwise"""
        r = self.role(e)
        if r == "excl":
            return "excl"
        if isinstance(r, tuple):
            return "true" if r[1] else "false"
        if isinstance(e, ast.Compare) and len(e.ops) == 1 and _is_none(e.comparators[0]) \
                and isinstance(e.ops[0], (ast.Is, ast.IsNot)):
            rl = self.role(e.left)
            pos = isinstance(e.ops[0], ast.IsNot)
            if rl == "filter":
                return "hasFilter" if pos else "!hasFilter"
            if isinstance(rl, tuple):
                return "true" if ((rl[1] is not None) == pos) else "false"
        if isinstance(e, ast.UnaryOp) and isinstance(e.op, ast.Not):
            f = self.flag(e.operand, soft)
            return None if f is None else "!(%s)" % f
        if isinstance(e, ast.BoolOp):
            fs = [self.flag(v, soft) for v in e.values]
            if all(f is not None for f in fs):
                return "(" + (" && " if isinstance(e.op, ast.And) else " || ").join(fs) + ")"
            return None
        if r == "filter":
            raise Unsupported("%s tests the truthiness of the filter object (`if filter_fn`), not `filter_fn is not None`" % self.fn.name)
        if soft:
            return None
        raise Unsupported("%s: condition outside the subset: %s" % (self.fn.name, ast.dump(e)[:120]))

    # ---- the node an expression denotes (x, or x._head_node for edge lambdas)
    def res(self, e):
        seen = 0
        while isinstance(e, ast.Name) and e.id in self.temps and seen < 20:
            e, seen = self.temps[e.id], seen + 1
        return e

    def is_node(self, e, arg):
        e = self.res(e)
        if self.edge:
            return isinstance(e, ast.Attribute) and e.attr in ("_head_node", "head_node") and isinstance(e.value, ast.Name) \
                and e.value.id == arg
        return isinstance(e, ast.Name) and e.id == arg

    def is_kids(self, e, arg):
        e = self.res(e)
        if isinstance(e, ast.Attribute) and e.attr == "_child_nodes" and self.is_node(e.value, arg):
            return True
        return isinstance(e, ast.Call) and not e.args and not e.keywords and isinstance(e.func, ast.Attribute) \
            and e.func.attr == "child_nodes" and self.is_node(e.func.value, arg)

    def is_parent(self, e, arg):
        e = self.res(e)
        return isinstance(e, ast.Attribute) and e.attr in ("_parent_node", "parent_node") and self.is_node(e.value, arg)

    # ---- truthiness of an expression inside a lambda whose argument is `arg`
    def truth(self, e, arg, env):
        e = self.res(e)
        if not (isinstance(e, ast.Name) and e.id == arg):
            f = self.flag(e, soft=True)
            if f is not None:
                return f
        if isinstance(e, ast.BoolOp):
            op = " && " if isinstance(e.op, ast.And) else " || "
            return "(" + op.join(self.truth(v, arg, env) for v in e.values) + ")"
        if isinstance(e, ast.UnaryOp) and isinstance(e.op, ast.Not):
            return "!" + self.truth(e.operand, arg, env)
        if isinstance(e, ast.Constant) and (e.value is None or e.value is False):
            return "false"
        if isinstance(e, ast.Constant) and e.value is True:
            return "true"
        if isinstance(e, ast.IfExp):
            return "(if %s then %s else %s)" % (self.truth(e.test, arg, env), self.truth(e.body, arg, env), self.truth(e.orelse, arg, env))
        if self.is_kids(e, arg):
            return "hasKids"
        if isinstance(e, ast.Compare) and len(e.ops) == 1:
            l, op, r = e.left, e.ops[0], e.comparators[0]
            if self.is_parent(l, arg) and _is_none(r) and isinstance(op, (ast.Is, ast.IsNot)):
                return "hasParent" if isinstance(op, ast.IsNot) else "!hasParent"
            l = self.res(l)
            if isinstance(l, ast.Call) and isinstance(l.func, ast.Name) and l.func.id == "len" and len(l.args) == 1 \
                    and self.is_kids(l.args[0], arg) and isinstance(r, ast.Constant) and r.value == 0 \
                    and type(r.value) is int:
                if isinstance(op, (ast.Gt, ast.NotEq)):
                    return "hasKids"
                if isinstance(op, ast.Eq):
                    return "!hasKids"
        if isinstance(e, ast.Call) and isinstance(e.func, ast.Name) and e.func.id == "bool" and len(e.args) == 1 and not e.keywords \
                and "bool" not in env and "bool" not in self.roles:
            return self.truth(e.args[0], arg, env)
        if isinstance(e, ast.Call) and isinstance(e.func, ast.Attribute) and not e.args and not e.keywords \
                and self.is_node(e.func.value, arg) and e.func.attr in ("is_leaf", "is_internal"):
            return "!hasKids" if e.func.attr == "is_leaf" else "hasKids"
        if isinstance(e, ast.Call) and isinstance(e.func, ast.Name) and len(e.args) == 1 and not e.keywords:
            a = self.res(e.args[0])
            if self.role(e.func) == "filter":
                if isinstance(a, ast.Name) and a.id == arg:
                    return "pass"
                if isinstance(a, ast.Attribute) and a.attr in ("edge", "_edge") and isinstance(a.value, ast.Name) and a.value.id == arg:
                    return "pass"     # the node-level wrapper of an edge filter
                raise Unsupported("%s: filter_fn is called with something else than the visited object" % self.fn.name)
            if e.func.id in env and isinstance(a, ast.Name) and a.id == arg:
                return self.apply(env[e.func.id])
        if self.is_node(e, arg) or (isinstance(e, ast.Name) and e.id == arg):
            raise Unsupported("%s tests the truthiness of the visited %s itself (`x and …`): a node/edge class with __len__ or "
                              "__bool__ would be dropped" % (self.fn.name, "edge" if self.edge else "node"))
        raise Unsupported("%s: expression outside the subset: %s" % (self.fn.name, ast.dump(e)[:160]))

    def block_truth(self, stmts, arg, env):
        """truthiness of what a def body returns: straight-line temporaries, `if` (early returns), `return`.
        Falling off the end returns None, i.e. false."""
        if not stmts:
            return "false"
        st, rest = stmts[0], list(stmts[1:])
        if isinstance(st, ast.Expr) and isinstance(st.value, ast.Constant) and isinstance(st.value.value, str):
            return self.block_truth(rest, arg, env)
        if isinstance(st, ast.Pass):
            return self.block_truth(rest, arg, env)
        if isinstance(st, ast.Return):
            return "false" if st.value is None else self.truth(st.value, arg, env)
        if isinstance(st, ast.If):
            return "(if %s then %s else %s)" % (self.truth(st.test, arg, env), self.block_truth(list(st.body) + rest, arg, env),
                                                self.block_truth(list(st.orelse) + rest, arg, env))
        if isinstance(st, ast.Assign) and len(st.targets) == 1 and isinstance(st.targets[0], ast.Name):
            name = st.targets[0].id
            if name == arg or name in self.roles or name in env or name in self.temps:
                raise Unsupported("%s: %s is re-assigned inside a predicate" % (self.fn.name, name))
            if any(isinstance(n, (ast.Call, ast.Yield, ast.Await, ast.NamedExpr)) for n in ast.walk(st.value)) \
                    and not self.is_kids(st.value, arg):
                raise Unsupported("%s: temporary %s is not a plain attribute read" % (self.fn.name, name))
            self.temps[name] = st.value
            try:
                return self.block_truth(rest, arg, env)
            finally:
                del self.temps[name]
        raise Unsupported("%s: statement outside the subset inside a predicate: %s" % (self.fn.name, ast.dump(st)[:120]))

    def apply(self, v):
        if isinstance(v, Ite):
            return "(if %s then %s else %s)" % (v.cond, self.apply(v.a), self.apply(v.b))
        if isinstance(v, Lam):
            if isinstance(v.body, list):
                return v.tr.block_truth(v.body, v.arg, v.env)
            return v.tr.truth(v.body, v.arg, v.env)
        raise Unsupported("%s: not a lambda" % self.fn.name)

    # ---- helpers: a filter obtained from a call to a function of the same module / a method of the same class
    def find_helper(self, f):
        """(FunctionDef, skip_first_param) for the callee of a helper call, or Unsupported"""
        if isinstance(f, ast.Name):
            cands = [n for n in self.module.body if isinstance(n, ast.FunctionDef) and n.name == f.id]
            if len(cands) != 1:
                raise Unsupported("%s: %s is not a (unique) function of the same module" % (self.fn.name, f.id))
            return cands[0], False
        if isinstance(f, ast.Attribute) and isinstance(f.value, ast.Name) and self.cls is not None \
                and f.value.id in ("self", "cls", self.cls.name, "type(self)"):
            cands = [n for n in self.cls.body if isinstance(n, ast.FunctionDef) and n.name == f.attr]
            if len(cands) != 1:
                raise Unsupported("%s: %s is not a (unique) method of %s" % (self.fn.name, f.attr, self.cls.name))
            h = cands[0]
            decos = [d.id for d in h.decorator_list if isinstance(d, ast.Name)]
            if len(decos) != len(h.decorator_list) or any(d not in ("staticmethod", "classmethod") for d in decos):
                raise Unsupported("%s: helper %s carries a decorator that is not staticmethod/classmethod" % (self.fn.name, h.name))
            if "staticmethod" in decos:
                return h, False
            if "classmethod" not in decos and f.value.id != "self":
                raise Unsupported("%s: instance method %s called through the class" % (self.fn.name, h.name))
            return h, True
        raise Unsupported("%s: call outside the subset: %s" % (self.fn.name, ast.dump(f)[:100]))

    def inline(self, call, env):
        if self.depth >= 3:
            raise Unsupported("%s: helpers nested too deep" % self.fn.name)
        h, skip = self.find_helper(call.func)
        if h is self.fn:
            raise Unsupported("%s: recursive helper" % self.fn.name)
        a = h.args
        if a.vararg or a.kwarg or a.kwonlyargs or a.posonlyargs:
            raise Unsupported("%s: signature of helper %s" % (self.fn.name, h.name))
        if any(isinstance(n, (ast.Global, ast.Nonlocal, ast.Yield, ast.YieldFrom)) for n in ast.walk(h)):
            raise Unsupported("%s: helper %s is a generator or rebinds outer names" % (self.fn.name, h.name))
        names = [x.arg for x in a.args][1 if skip else 0:]
        defaults = dict(zip([x.arg for x in a.args][len(a.args) - len(a.defaults):], a.defaults))
        if len(call.args) > len(names) or any(isinstance(x, ast.Starred) for x in call.args) or any(k.arg is None for k in call.keywords):
            raise Unsupported("%s: arguments of the call to %s" % (self.fn.name, h.name))
        given = dict(zip(names, call.args))
        for k in call.keywords:
            if k.arg not in names or k.arg in given:
                raise Unsupported("%s: keyword %s of the call to %s" % (self.fn.name, k.arg, h.name))
            given[k.arg] = k.value
        roles, henv = {}, {}
        for nm in names:
            v = given.get(nm, defaults.get(nm))
            if v is None:
                raise Unsupported("%s: parameter %s of %s gets no value" % (self.fn.name, nm, h.name))
            if _const(v):
                roles[nm] = ("const", v.value)
            elif isinstance(v, ast.Name) and v.id in env:
                henv[nm] = env[v.id]            # a lambda of the caller handed on
            elif isinstance(v, ast.Name) and v.id in self.roles:
                roles[nm] = self.roles[v.id]
            elif isinstance(v, ast.UnaryOp) and isinstance(v.op, ast.Not) and isinstance(self.role(v.operand), tuple):
                roles[nm] = ("const", not self.role(v.operand)[1])
            else:
                raise Unsupported("%s: argument %s of the call to %s is neither a parameter of the caller, a local lambda nor a "
                                  "literal: %s" % (self.fn.name, nm, h.name, ast.dump(v)[:80]))
        sub = Translator(h, roles, self.edge, self.module, self.cls, self.depth + 1)
        v = sub.run(h.body, henv, helper=True)
        if v is None:
            raise Unsupported("%s: helper %s does not return a predicate on every path" % (self.fn.name, h.name))
        return v

    # ---- statements
    def value(self, e, env):
        if isinstance(e, ast.Lambda) and len(e.args.args) == 1 and not e.args.defaults and not e.args.vararg \
                and not e.args.kwarg and not e.args.kwonlyargs:
            return Lam(e.args.args[0].arg, e.body, dict(env), self)
        if isinstance(e, ast.Name) and e.id in env:
            return env[e.id]
        if isinstance(e, ast.IfExp):
            return Ite(self.flag(e.test), self.value(e.body, env), self.value(e.orelse, env))
        if _is_none(e):
            return None
        if isinstance(e, ast.Call):
            return self.inline(e, env)
        raise Unsupported("%s: assignment outside the subset: %s" % (self.fn.name, ast.dump(e)[:120]))

    def run(self, stmts, env, helper=False):
        """returns the filter value handed to the delegate (helper: the predicate returned), or None when the block does
        not return"""
        for st in stmts:
            if isinstance(st, ast.Expr) and isinstance(st.value, ast.Constant) and isinstance(st.value.value, str):
                continue   # docstring
            if isinstance(st, ast.Pass):
                continue
            if isinstance(st, ast.Assign) and len(st.targets) == 1 and isinstance(st.targets[0], ast.Name):
                if st.targets[0].id in self.roles:
                    raise Unsupported("%s re-assigns its parameter %s" % (self.fn.name, st.targets[0].id))
                env[st.targets[0].id] = self.value(st.value, env)
                continue
            if isinstance(st, ast.FunctionDef) and len(st.args.args) == 1 and not st.args.defaults and not st.decorator_list \
                    and not st.args.vararg and not st.args.kwarg and not st.args.kwonlyargs:
                if any(isinstance(n, (ast.Global, ast.Nonlocal, ast.Yield, ast.YieldFrom)) for n in ast.walk(st)):
                    raise Unsupported("%s: local def %s is a generator or rebinds outer names" % (self.fn.name, st.name))
                lam = Lam(st.args.args[0].arg, list(st.body), None, self)
                env[st.name] = lam
                lam.env = dict(env)
                continue
            if isinstance(st, ast.If):
                cond = self.flag(st.test)
                e1, e2 = dict(env), dict(env)
                r1, r2 = self.run(st.body, e1, helper), self.run(st.orelse, e2, helper)
                if r1 is not None and r2 is not None:
                    return Ite(cond, r1, r2)
                if r1 is not None or r2 is not None:
                    # one branch returns: the other continues with the statements that follow
                    rest = stmts[stmts.index(st) + 1:]
                    if r1 is not None:
                        other = self.run(rest, e2, helper)
                        return None if other is None else Ite(cond, r1, other)
                    other = self.run(rest, e1, helper)
                    return None if other is None else Ite(cond, other, r2)
                for k in set(e1) | set(e2):
                    a, b = e1.get(k), e2.get(k)
                    if a is not b:
                        if a is None or b is None:
                            raise Unsupported("%s: %s assigned in one branch only" % (self.fn.name, k))
                        env[k] = Ite(cond, a, b)
                continue
            if isinstance(st, ast.Return):
                if helper:
                    if st.value is None:
                        raise Unsupported("%s: bare return in a helper" % self.fn.name)
                    v = self.value(st.value, env)
                    if v is None:
                        raise Unsupported("%s returns None instead of a predicate" % self.fn.name)
                    return v
                return self.returned(st.value, env)
            if not helper and isinstance(st, ast.For) and isinstance(st.iter, ast.Call) and len(st.body) == 1 and isinstance(st.body[0], ast.Expr) \
                    and isinstance(st.body[0].value, ast.Yield) and isinstance(st.body[0].value.value, ast.Name) \
                    and isinstance(st.target, ast.Name) and st.body[0].value.value.id == st.target.id and not st.orelse:
                return self.returned(st.iter, env)     # `for node in self.postorder_iter(ff): yield node`
            raise Unsupported("%s: statement outside the subset: %s" % (self.fn.name, ast.dump(st)[:120]))
        return None

    def returned(self, e, env):
        if e is None:
            raise Unsupported("%s: bare return" % self.fn.name)
        if isinstance(e, (ast.ListComp, ast.GeneratorExp)) and len(e.generators) == 1 and not e.generators[0].ifs \
                and isinstance(e.elt, ast.Name) and isinstance(e.generators[0].target, ast.Name) \
                and e.elt.id == e.generators[0].target.id:
            e = e.generators[0].iter
        if not (isinstance(e, ast.Call) and isinstance(e.func, ast.Attribute) and isinstance(e.func.value, ast.Name)
                and e.func.value.id == "self"):
            raise Unsupported("%s does not delegate to a traversal of self: %s" % (self.fn.name, ast.dump(e)[:120]))
        name = e.func.attr
        if self.delegate not in (None, name):
            raise Unsupported("%s delegates to different traversals in different branches" % self.fn.name)
        self.delegate = name
        if len(e.args) == 1 and not e.keywords:
            f = e.args[0]
        elif not e.args and len(e.keywords) == 1 and e.keywords[0].arg == "filter_fn":
            f = e.keywords[0].value
        else:
            raise Unsupported("%s: delegating call with unexpected arguments" % self.fn.name)
        v = self.value(f, env)
        if v is None:
            raise Unsupported("%s hands no filter to %s" % (self.fn.name, name))
        return v

    def lean(self):
        v = self.run(self.fn.body, {})
        if v is None:
            raise Unsupported("%s falls off its end" % self.fn.name)
        return self.apply(v), self.delegate


def _params(fn):
    return [a.arg for a in fn.args.args]


def _default_false(fn, name):
    names = _params(fn)
    defaults = dict(zip(names[len(names) - len(fn.args.defaults):], fn.args.defaults))
    d = defaults.get(name)
    if not (isinstance(d, ast.Constant) and d.value is False):
        raise Unsupported("%s: default of %s is not False" % (fn.name, name))


def _len_kernel(fn):
    """Tree.__len__ as init + n * step over the items of the leaf iterator"""
    body = [st for st in fn.body if not (isinstance(st, ast.Expr) and isinstance(st.value, ast.Constant))]
    leafy = ("leaf_iter", "leaf_node_iter", "leaf_nodes")

    def leaf_call(e):
        if not (isinstance(e, ast.Call) and not e.args and not e.keywords and isinstance(e.func, ast.Attribute)
                and e.func.attr in leafy):
            return False
        v = e.func.value
        if isinstance(v, ast.Name) and v.id == "self":
            return e.func.attr in ("leaf_node_iter", "leaf_nodes")
        return isinstance(v, ast.Attribute) and v.attr in ("seed_node", "_seed_node") and isinstance(v.value, ast.Name) \
            and v.value.id == "self" and e.func.attr in ("leaf_iter", "leaf_nodes")
    if len(body) == 1 and isinstance(body[0], ast.Return):
        e = body[0].value
        if isinstance(e, ast.Call) and isinstance(e.func, ast.Name) and e.func.id == "len" and len(e.args) == 1:
            a = e.args[0]
            if leaf_call(a) and a.func.attr == "leaf_nodes":
                return 0, 1
            if isinstance(a, ast.ListComp) and len(a.generators) == 1 and not a.generators[0].ifs and leaf_call(a.generators[0].iter):
                return 0, 1
        if isinstance(e, ast.Call) and isinstance(e.func, ast.Name) and e.func.id == "sum" and len(e.args) == 1 \
                and isinstance(e.args[0], ast.GeneratorExp) and len(e.args[0].generators) == 1 \
                and not e.args[0].generators[0].ifs and leaf_call(e.args[0].generators[0].iter) \
                and isinstance(e.args[0].elt, ast.Constant) and type(e.args[0].elt.value) is int:
            return 0, e.args[0].elt.value
    if len(body) == 3 and isinstance(body[0], ast.Assign) and isinstance(body[1], ast.For) and isinstance(body[2], ast.Return):
        a, f, r = body
        if len(a.targets) == 1 and isinstance(a.targets[0], ast.Name) and isinstance(a.value, ast.Constant) \
                and type(a.value.value) is int and a.value.value >= 0 and isinstance(r.value, ast.Name) \
                and r.value.id == a.targets[0].id and leaf_call(f.iter) and not f.orelse and len(f.body) == 1:
            st = f.body[0]
            if isinstance(st, ast.AugAssign) and isinstance(st.op, ast.Add) and isinstance(st.target, ast.Name) \
                    and st.target.id == r.value.id and isinstance(st.value, ast.Constant) and type(st.value.value) is int \
                    and st.value.value >= 0:
                return a.value.value, st.value.value
    raise Unsupported("Tree.__len__ is not the plain count of the items of the leaf iterator (a fast path, a cache, another "
                      "source of the number?)")


def generate(repo):
    npath = os.path.join(repo, "src/dendropy/datamodel/treemodel/_node.py")
    tpath = os.path.join(repo, "src/dendropy/datamodel/treemodel/_tree.py")
    ntree, ttree = ast.parse(open(npath).read()), ast.parse(open(tpath).read())
    out = ["namespace DendroModel.C15Filters", "",
           "/-! atoms: excl = the exclude_seed_* argument, hasFilter = `filter_fn is not None`, hasParent = `x._parent_node is not",
           "None`, hasKids = `x._child_nodes` non-empty, pass = truthiness of `filter_fn(x)` -/", ""]
    items = [("nodePreInternal", ntree, "Node.preorder_internal_node_iter", "exclude_seed_node", False),
             ("nodePostInternal", ntree, "Node.postorder_internal_node_iter", "exclude_seed_node", False),
             ("edgePreInternal", ttree, "Tree.preorder_internal_edge_iter", "exclude_seed_edge", True),
             ("edgePostInternal", ttree, "Tree.postorder_internal_edge_iter", "exclude_seed_edge", True),
             ("leafFilter", ntree, "Node.leaf_iter", None, False),
             ("leafNodesFilter", ntree, "Node.leaf_nodes", None, False)]
    for lean_name, tree, qual, excl, edge in items:
        fn = find_function(tree, qual)
        if excl is not None:
            if excl not in _params(fn) or "filter_fn" not in _params(fn):
                raise Unsupported("%s: parameters %s" % (qual, _params(fn)))
            _default_false(fn, excl)
        roles = {"filter_fn": "filter"} if "filter_fn" in _params(fn) else {}
        if excl is not None:
            roles[excl] = "excl"
        cname = qual.split(".")[0]
        cls = [n for n in tree.body if isinstance(n, ast.ClassDef) and n.name == cname]
        body, delegate = Translator(fn, roles, edge, tree, cls[0] if cls else None).lean()
        out.append("/-- the filter `%s` hands to `self.%s` -/" % (qual, delegate))
        out.append("def %s (excl hasFilter hasParent hasKids pass : Bool) : Bool :=\n  %s" % (lean_name, body))
        out.append("def %sDelegate : String := \"%s\"" % (lean_name, delegate))
        out.append("")
    init, step = _len_kernel(find_function(ttree, "Tree.__len__"))
    out.append("/-- `Tree.__len__` on a tree whose leaf iterator yields `n` items -/")
    out.append("def treeLen (n : Nat) : Nat := %d + n * %d" % (init, step))
    out += ["", "end DendroModel.C15Filters"]
    return "\n".join(out) + "\n"
