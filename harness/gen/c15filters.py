"""Gen/C15Filters.lean: the closed-form kernels of the C15 anchors, read off the current source.

* the truthiness-composed filter lambdas of `Node.preorder_internal_node_iter`, `Node.postorder_internal_node_iter`,
  `Tree.preorder_internal_edge_iter`, `Tree.postorder_internal_edge_iter` (`(froot(x) and x._child_nodes and
  filter_fn(x)) or None` with `froot` chosen by `exclude_seed_*`), of `Node.leaf_iter` and of `Node.leaf_nodes`,
  as Boolean functions of what the lambda can observe:
      excl       the exclude_seed_node / exclude_seed_edge argument (truthiness)
      hasFilter  `filter_fn is not None`
      hasParent  `x._parent_node is not None`
      hasKids    `x._child_nodes` is non-empty
      pass       truthiness of `filter_fn(x)`
  Only truthiness matters (the result is used as `if filter_fn(node)` by the traversal), so `and`/`or`/`not`/`None`
  translate to `&&`/`||`/`!`/`false`.
* which traversal each wrapper delegates to (`preorder_iter` / `postorder_iter`), as a string constant;
* `Tree.__len__`: the counting loop over the leaf iterator, as `init + n * step` where n is the number of items the
  leaf iterator yields.

Anything outside this subset raises Unsupported (never a guess): testing the truthiness of the node itself (`x and …`),
of the filter object (`if filter_fn:`), a fast path in `__len__` … — the bridge theorems of Props/C15.lean
(`internal_filter_bridge`, `leaf_filter_bridge`, `len_bridge`) then count as broken and the property's `search` hook hunts
for an input on which the real code is wrong.

Tolerated rewrites: lambdas or local `def`s with a single return, conditional expressions instead of `if` statements,
`len(x._child_nodes) > 0` / `!= 0` / `== 0`, `bool(…)`, `x.is_leaf()`, `x.is_internal()`, `x.child_nodes()`,
`x.parent_node`, `… is None`, `not …`, commuted operands (the bridge is proved by case analysis), keyword or positional
`filter_fn` in the delegating call, a list/generator comprehension around the delegating call."""
import ast
import os

from extract import Unsupported, find_function

NAME = "C15Filters"


class Lam(object):
    def __init__(self, arg, body, env):
        self.arg, self.body, self.env = arg, body, env


class Ite(object):
    def __init__(self, cond, a, b):
        self.cond, self.a, self.b = cond, a, b


def _is_none(e):
    return isinstance(e, ast.Constant) and e.value is None


class Translator(object):
    """one wrapper function: parameter roles and a symbolic environment of the local lambdas"""

    def __init__(self, fn, excl_param, head_of_edge):
        self.fn = fn
        self.excl = excl_param            # name of the exclude_* parameter (or None)
        self.edge = head_of_edge          # the lambda argument is an Edge: the node is x._head_node
        self.delegate = None

    # ---- conditions of `if` statements / conditional expressions: flags only
    def flag(self, e):
        if isinstance(e, ast.Name) and self.excl is not None and e.id == self.excl:
            return "excl"
        if isinstance(e, ast.Compare) and len(e.ops) == 1 and isinstance(e.left, ast.Name) and e.left.id == "filter_fn" \
                and _is_none(e.comparators[0]):
            if isinstance(e.ops[0], ast.IsNot):
                return "hasFilter"
            if isinstance(e.ops[0], ast.Is):
                return "!hasFilter"
        if isinstance(e, ast.UnaryOp) and isinstance(e.op, ast.Not):
            return "!(%s)" % self.flag(e.operand)
        if isinstance(e, ast.Name) and e.id == "filter_fn":
            raise Unsupported("%s tests the truthiness of the filter object (`if filter_fn`), not `filter_fn is not None`" % self.fn.name)
        raise Unsupported("%s: condition outside the subset: %s" % (self.fn.name, ast.dump(e)[:120]))

    # ---- the node an expression denotes (x, or x._head_node for edge lambdas)
    def is_node(self, e, arg):
        if self.edge:
            return isinstance(e, ast.Attribute) and e.attr in ("_head_node", "head_node") and isinstance(e.value, ast.Name) \
                and e.value.id == arg
        return isinstance(e, ast.Name) and e.id == arg

    def is_kids(self, e, arg):
        if isinstance(e, ast.Attribute) and e.attr == "_child_nodes" and self.is_node(e.value, arg):
            return True
        return isinstance(e, ast.Call) and not e.args and not e.keywords and isinstance(e.func, ast.Attribute) \
            and e.func.attr == "child_nodes" and self.is_node(e.func.value, arg)

    def is_parent(self, e, arg):
        return isinstance(e, ast.Attribute) and e.attr in ("_parent_node", "parent_node") and self.is_node(e.value, arg)

    # ---- truthiness of an expression inside a lambda whose argument is `arg`
    def truth(self, e, arg, env):
        if isinstance(e, ast.BoolOp):
            op = " && " if isinstance(e.op, ast.And) else " || "
            return "(" + op.join(self.truth(v, arg, env) for v in e.values) + ")"
        if isinstance(e, ast.UnaryOp) and isinstance(e.op, ast.Not):
            return "!" + self.truth(e.operand, arg, env)
        if isinstance(e, ast.Constant) and (e.value is None or e.value is False):
            return "false"
        if isinstance(e, ast.Constant) and e.value is True:
            return "true"
        if isinstance(e, ast.IfExp):
            return "(if %s then %s else %s)" % (self.flag(e.test), self.truth(e.body, arg, env), self.truth(e.orelse, arg, env))
        if self.is_kids(e, arg):
            return "hasKids"
        if isinstance(e, ast.Compare) and len(e.ops) == 1:
            l, op, r = e.left, e.ops[0], e.comparators[0]
            if self.is_parent(l, arg) and _is_none(r) and isinstance(op, (ast.Is, ast.IsNot)):
                return "hasParent" if isinstance(op, ast.IsNot) else "!hasParent"
            if isinstance(l, ast.Call) and isinstance(l.func, ast.Name) and l.func.id == "len" and len(l.args) == 1 \
                    and self.is_kids(l.args[0], arg) and isinstance(r, ast.Constant) and r.value == 0 \
                    and type(r.value) is int:
                if isinstance(op, (ast.Gt, ast.NotEq)):
                    return "hasKids"
                if isinstance(op, ast.Eq):
                    return "!hasKids"
        if isinstance(e, ast.Call) and isinstance(e.func, ast.Name) and e.func.id == "bool" and len(e.args) == 1 and not e.keywords:
            return self.truth(e.args[0], arg, env)
        if isinstance(e, ast.Call) and isinstance(e.func, ast.Attribute) and not e.args and not e.keywords \
                and self.is_node(e.func.value, arg) and e.func.attr in ("is_leaf", "is_internal"):
            return "!hasKids" if e.func.attr == "is_leaf" else "hasKids"
        if isinstance(e, ast.Call) and isinstance(e.func, ast.Name) and len(e.args) == 1 and not e.keywords:
            a = e.args[0]
            if e.func.id == "filter_fn":
                if isinstance(a, ast.Name) and a.id == arg:
                    return "pass"
                if isinstance(a, ast.Attribute) and a.attr in ("edge", "_edge") and isinstance(a.value, ast.Name) and a.value.id == arg:
                    return "pass"     # the node-level wrapper of an edge filter
                raise Unsupported("%s: filter_fn is called with something else than the visited object" % self.fn.name)
            if e.func.id in env and isinstance(a, ast.Name) and a.id == arg:
                return self.apply(env[e.func.id], env)
        if self.is_node(e, arg) or (isinstance(e, ast.Name) and e.id == arg):
            raise Unsupported("%s tests the truthiness of the visited %s itself (`x and …`): a node/edge class with __len__ or "
                              "__bool__ would be dropped" % (self.fn.name, "edge" if self.edge else "node"))
        raise Unsupported("%s: expression outside the subset: %s" % (self.fn.name, ast.dump(e)[:160]))

    def apply(self, v, env):
        if isinstance(v, Ite):
            return "(if %s then %s else %s)" % (v.cond, self.apply(v.a, env), self.apply(v.b, env))
        if isinstance(v, Lam):
            return self.truth(v.body, v.arg, v.env)
        raise Unsupported("%s: not a lambda" % self.fn.name)

    # ---- statements
    def value(self, e, env):
        if isinstance(e, ast.Lambda) and len(e.args.args) == 1 and not e.args.defaults:
            return Lam(e.args.args[0].arg, e.body, dict(env))
        if isinstance(e, ast.Name) and e.id in env:
            return env[e.id]
        if isinstance(e, ast.IfExp):
            return Ite(self.flag(e.test), self.value(e.body, env), self.value(e.orelse, env))
        if _is_none(e):
            return None
        raise Unsupported("%s: assignment outside the subset: %s" % (self.fn.name, ast.dump(e)[:120]))

    def run(self, stmts, env):
        """returns the filter value handed to the delegate, or None when the block does not return"""
        for st in stmts:
            if isinstance(st, ast.Expr) and isinstance(st.value, ast.Constant) and isinstance(st.value.value, str):
                continue   # docstring
            if isinstance(st, ast.Assign) and len(st.targets) == 1 and isinstance(st.targets[0], ast.Name):
                env[st.targets[0].id] = self.value(st.value, env)
                continue
            if isinstance(st, ast.FunctionDef) and len(st.args.args) == 1 and len(st.body) == 1 and isinstance(st.body[0], ast.Return):
                env[st.name] = Lam(st.args.args[0].arg, st.body[0].value, dict(env))
                continue
            if isinstance(st, ast.If):
                cond = self.flag(st.test)
                e1, e2 = dict(env), dict(env)
                r1, r2 = self.run(st.body, e1), self.run(st.orelse, e2)
                if (r1 is None) != (r2 is None):
                    raise Unsupported("%s: one branch returns, the other does not" % self.fn.name)
                if r1 is not None:
                    return Ite(cond, r1, r2)
                for k in set(e1) | set(e2):
                    a, b = e1.get(k), e2.get(k)
                    if a is not b:
                        if a is None or b is None:
                            raise Unsupported("%s: %s assigned in one branch only" % (self.fn.name, k))
                        env[k] = Ite(cond, a, b)
                continue
            if isinstance(st, ast.Return):
                return self.returned(st.value, env)
            if isinstance(st, ast.For) and isinstance(st.iter, ast.Call) and len(st.body) == 1 and isinstance(st.body[0], ast.Expr) \
                    and isinstance(st.body[0].value, ast.Yield) and isinstance(st.body[0].value.value, ast.Name) \
                    and isinstance(st.target, ast.Name) and st.body[0].value.value.id == st.target.id and not st.orelse:
                return self.returned(st.iter, env)     # `for node in self.postorder_iter(ff): yield node`
            raise Unsupported("%s: statement outside the subset: %s" % (self.fn.name, ast.dump(st)[:120]))
        return None

    def returned(self, e, env):
        if isinstance(e, (ast.ListComp, ast.GeneratorExp)) and len(e.generators) == 1 and not e.generators[0].ifs \
                and isinstance(e.elt, ast.Name) and isinstance(e.generators[0].target, ast.Name) \
                and e.elt.id == e.generators[0].target.id:
            e = e.generators[0].iter
        if not (isinstance(e, ast.Call) and isinstance(e.func, ast.Attribute) and isinstance(e.func.value, ast.Name)
                and e.func.value.id == "self"):
            raise Unsupported("%s does not delegate to a traversal of self: %s" % (self.fn.name, ast.dump(e)[:120]))
        name = e.func.attr
        if self.delegate not in (None, name):
            raise Unsupported("%s delegates to different traversals in different branches" % self.fn.name)
        self.delegate = name
        if len(e.args) == 1 and not e.keywords:
            f = e.args[0]
        elif not e.args and len(e.keywords) == 1 and e.keywords[0].arg == "filter_fn":
            f = e.keywords[0].value
        else:
            raise Unsupported("%s: delegating call with unexpected arguments" % self.fn.name)
        v = self.value(f, env)
        if v is None:
            raise Unsupported("%s hands no filter to %s" % (self.fn.name, name))
        return v

    def lean(self):
        v = self.run(self.fn.body, {})
        if v is None:
            raise Unsupported("%s falls off its end" % self.fn.name)
        return self.apply(v, {}), self.delegate


def _params(fn):
    return [a.arg for a in fn.args.args]


def _default_false(fn, name):
    names = _params(fn)
    defaults = dict(zip(names[len(names) - len(fn.args.defaults):], fn.args.defaults))
    d = defaults.get(name)
    if not (isinstance(d, ast.Constant) and d.value is False):
        raise Unsupported("%s: default of %s is not False" % (fn.name, name))


def _len_kernel(fn):
    """Tree.__len__ as init + n * step over the items of the leaf iterator"""
    body = [st for st in fn.body if not (isinstance(st, ast.Expr) and isinstance(st.value, ast.Constant))]
    leafy = ("leaf_iter", "leaf_node_iter", "leaf_nodes")

    def leaf_call(e):
        if not (isinstance(e, ast.Call) and not e.args and not e.keywords and isinstance(e.func, ast.Attribute)
                and e.func.attr in leafy):
            return False
        v = e.func.value
        if isinstance(v, ast.Name) and v.id == "self":
            return e.func.attr in ("leaf_node_iter", "leaf_nodes")
        return isinstance(v, ast.Attribute) and v.attr in ("seed_node", "_seed_node") and isinstance(v.value, ast.Name) \
            and v.value.id == "self" and e.func.attr in ("leaf_iter", "leaf_nodes")
    if len(body) == 1 and isinstance(body[0], ast.Return):
        e = body[0].value
        if isinstance(e, ast.Call) and isinstance(e.func, ast.Name) and e.func.id == "len" and len(e.args) == 1:
            a = e.args[0]
            if leaf_call(a) and a.func.attr == "leaf_nodes":
                return 0, 1
            if isinstance(a, ast.ListComp) and len(a.generators) == 1 and not a.generators[0].ifs and leaf_call(a.generators[0].iter):
                return 0, 1
        if isinstance(e, ast.Call) and isinstance(e.func, ast.Name) and e.func.id == "sum" and len(e.args) == 1 \
                and isinstance(e.args[0], ast.GeneratorExp) and len(e.args[0].generators) == 1 \
                and not e.args[0].generators[0].ifs and leaf_call(e.args[0].generators[0].iter) \
                and isinstance(e.args[0].elt, ast.Constant) and type(e.args[0].elt.value) is int:
            return 0, e.args[0].elt.value
    if len(body) == 3 and isinstance(body[0], ast.Assign) and isinstance(body[1], ast.For) and isinstance(body[2], ast.Return):
        a, f, r = body
        if len(a.targets) == 1 and isinstance(a.targets[0], ast.Name) and isinstance(a.value, ast.Constant) \
                and type(a.value.value) is int and a.value.value >= 0 and isinstance(r.value, ast.Name) \
                and r.value.id == a.targets[0].id and leaf_call(f.iter) and not f.orelse and len(f.body) == 1:
            st = f.body[0]
            if isinstance(st, ast.AugAssign) and isinstance(st.op, ast.Add) and isinstance(st.target, ast.Name) \
                    and st.target.id == r.value.id and isinstance(st.value, ast.Constant) and type(st.value.value) is int \
                    and st.value.value >= 0:
                return a.value.value, st.value.value
    raise Unsupported("Tree.__len__ is not the plain count of the items of the leaf iterator (a fast path, a cache, another "
                      "source of the number?)")


def generate(repo):
    npath = os.path.join(repo, "src/dendropy/datamodel/treemodel/_node.py")
    tpath = os.path.join(repo, "src/dendropy/datamodel/treemodel/_tree.py")
    ntree, ttree = ast.parse(open(npath).read()), ast.parse(open(tpath).read())
    out = ["namespace DendroModel.C15Filters", "",
           "/-! atoms: excl = the exclude_seed_* argument, hasFilter = `filter_fn is not None`, hasParent = `x._parent_node is not",
           "None`, hasKids = `x._child_nodes` non-empty, pass = truthiness of `filter_fn(x)` -/", ""]
    items = [("nodePreInternal", ntree, "Node.preorder_internal_node_iter", "exclude_seed_node", False),
             ("nodePostInternal", ntree, "Node.postorder_internal_node_iter", "exclude_seed_node", False),
             ("edgePreInternal", ttree, "Tree.preorder_internal_edge_iter", "exclude_seed_edge", True),
             ("edgePostInternal", ttree, "Tree.postorder_internal_edge_iter", "exclude_seed_edge", True),
             ("leafFilter", ntree, "Node.leaf_iter", None, False),
             ("leafNodesFilter", ntree, "Node.leaf_nodes", None, False)]
    for lean_name, tree, qual, excl, edge in items:
        fn = find_function(tree, qual)
        if excl is not None:
            if excl not in _params(fn) or "filter_fn" not in _params(fn):
                raise Unsupported("%s: parameters %s" % (qual, _params(fn)))
            _default_false(fn, excl)
        body, delegate = Translator(fn, excl, edge).lean()
        out.append("/-- the filter `%s` hands to `self.%s` -/" % (qual, delegate))
        out.append("def %s (excl hasFilter hasParent hasKids pass : Bool) : Bool :=\n  %s" % (lean_name, body))
        out.append("def %sDelegate : String := \"%s\"" % (lean_name, delegate))
        out.append("")
    init, step = _len_kernel(find_function(ttree, "Tree.__len__"))
    out.append("/-- `Tree.__len__` on a tree whose leaf iterator yields `n` items -/")
    out.append("def treeLen (n : Nat) : Nat := %d + n * %d" % (init, step))
    out += ["", "end DendroModel.C15Filters"]
    return "\n".join(out) + "\n"
