"""Gen/C14Kernels.lean: the closed-form kernels of PhylogeneticDistanceMatrix.nj_tree / upgma_tree, read off the CURRENT source
(tie A of C14).  What is regenerated, by a small symbolic evaluation of the straight-line numeric code inside the two `while` loops
(temporaries are inlined, `x += e` / `x = x + e` are the same, the loops over the two `nodes_to_join` are unrolled):

* `njQ`            the Q-criterion of a pair:            `v1 = (n - 2) * nd1._nj_distances[nd2]; qvalue = v1 - nd1._nj_xsub - nd2._nj_xsub`
* `njPickStrict`   the comparison that keeps the minimum: `qvalue < min_q` (first strict minimum) — and the pool iteration order
* `njNewDist`      the reduced distance d(u,k):           `0.5 * (v1 - v3)`
* `njNodeXsub`     the incremental row-sum update of a surviving pool member
* `njNewXsubInit` / `njNewXsubStep`   the row sum accumulated for the new node
* `njLengths`      the two branch lengths, both branches of `if n > 2`, and its threshold
* `njLoopBound` / `njDecrement`       `while n > 1`, `n -= 1`
* `upPickStrict`   `d < min_distance`
* `upLen` / `upHeight`   `elen = min_distance / 2.0`, `edge.length = elen - _upgma_distance_from_tip`, the new node's distance from the tips
* `upAvg`          the size-weighted cluster average      `d1 += d2 * xc; count += xc; d = d1 / count`

The generated definitions are generic in the number type (the classes of Model/C14NJ.lean); Props/C14.lean proves that the model's
`qval`, `njNewDist`, `njJoin.x`, `njLengths`, `upNewDist`, `upJoin` lengths equal them over every field of characteristic zero
(`gen_*` bridge theorems, by `push_cast` / `ring`): a semantics-preserving rewrite of the source still passes, a changed formula does
not.  Anything outside the recognised subset raises `Unsupported`, never a guess."""
import ast
import copy
import os
from fractions import Fraction

from extract import Unsupported, find_function

NAME = "C14Kernels"
PATH = "src/dendropy/calculate/phylogeneticdistance.py"

OPS = {ast.Add: "+", ast.Sub: "-", ast.Mult: "*", ast.Div: "/"}
IGNORED_CALLS = ("add_child", "remove", "update", "append")


def _u(e):
    return ast.unparse(e)


class _Subst(ast.NodeTransformer):
    def __init__(self, mapping):
        self.mapping = mapping

    def visit_Name(self, node):
        if node.id in self.mapping:
            return copy.deepcopy(self.mapping[node.id])
        return node


def _num(v):
    """a Python int / float literal as Lean text over the generic number type"""
    if isinstance(v, bool) or not isinstance(v, (int, float)):
        raise Unsupported("literal %r" % (v,))
    f = Fraction(v)
    if f < 0 or f.denominator > 1024 or f.numerator > 1 << 20:
        raise Unsupported("numeric literal %r outside the supported range" % (v,))
    if f == 0:
        return "(0 : α)"
    if f.denominator == 1:
        return "((%d : Nat) : α)" % f.numerator
    return "(((%d : Nat) : α) / ((%d : Nat) : α))" % (f.numerator, f.denominator)


class Sym(object):
    """symbolic evaluation of straight-line numeric statements; `leaves` maps the source text of an input quantity to Lean text"""

    def __init__(self, leaves, unroll=None):
        self.leaves = dict(leaves)
        self.env = {}
        self.subst = {}
        self.unroll = unroll or {}      # name of an iterated tuple -> list of ast expressions for its members

    def key(self, e):
        return _u(_Subst(self.subst).visit(copy.deepcopy(e)))

    def ev(self, e):
        k = self.key(e)
        if k in self.env:
            return self.env[k]
        if k in self.leaves:
            return self.leaves[k]
        if isinstance(e, ast.Constant):
            return _num(e.value)
        if isinstance(e, ast.BinOp) and type(e.op) in OPS:
            return "(%s %s %s)" % (self.ev(e.left), OPS[type(e.op)], self.ev(e.right))
        if isinstance(e, ast.Call) and isinstance(e.func, ast.Name) and e.func.id == "float" and len(e.args) == 1 and not e.keywords:
            return self.ev(e.args[0])
        raise Unsupported("quantity outside the recognised inputs: %s" % k[:120])

    def run(self, stmts):
        for s in stmts:
            self.stmt(s)

    def stmt(self, s):
        if isinstance(s, ast.Expr) and isinstance(s.value, ast.Constant) and isinstance(s.value.value, str):
            return
        if isinstance(s, (ast.Delete, ast.Pass)):
            return
        if isinstance(s, ast.Expr) and isinstance(s.value, ast.Call) and isinstance(s.value.func, ast.Attribute) \
                and s.value.func.attr in IGNORED_CALLS:
            return
        if isinstance(s, ast.Assign) and len(s.targets) == 1 and isinstance(s.targets[0], (ast.Name, ast.Attribute, ast.Subscript)):
            if isinstance(s.value, (ast.Dict, ast.Set)) or (isinstance(s.value, ast.Call) and _u(s.value.func) in ("set", "dict", "tree.node_factory")):
                return
            self.env[self.key(s.targets[0])] = self.ev(s.value)
            return
        if isinstance(s, ast.AugAssign) and type(s.op) in OPS and isinstance(s.target, (ast.Name, ast.Attribute, ast.Subscript)):
            self.env[self.key(s.target)] = "(%s %s %s)" % (self.ev(s.target), OPS[type(s.op)], self.ev(s.value))
            return
        if isinstance(s, ast.For) and not s.orelse and isinstance(s.target, ast.Name) and isinstance(s.iter, ast.Name) \
                and s.iter.id in self.unroll:
            for member in self.unroll[s.iter.id]:
                old = self.subst.get(s.target.id)
                self.subst[s.target.id] = member
                self.run(s.body)
                if old is None:
                    del self.subst[s.target.id]
                else:
                    self.subst[s.target.id] = old
            return
        raise Unsupported("statement outside the straight-line subset: %s" % _u(s)[:120])


def _sub(name, i):
    return ast.Subscript(value=ast.Name(id=name, ctx=ast.Load()), slice=ast.Constant(value=i), ctx=ast.Load())


JOIN = {"nodes_to_join": [_sub("nodes_to_join", 0), _sub("nodes_to_join", 1)]}


def _strip(body):
    return [s for s in body if not (isinstance(s, ast.Expr) and isinstance(s.value, ast.Constant) and isinstance(s.value.value, str))]


def _while(fn, what):
    ws = [s for s in fn.body if isinstance(s, ast.While)]
    if len(ws) != 1 or ws[0].orelse:
        raise Unsupported("%s: expected exactly one while loop" % what)
    return ws[0]


def _nat_cmp(test, var):
    """`var > k` / `k < var` / `var >= k` with k a small literal -> Lean proposition text over `n : Nat`"""
    if isinstance(test, ast.Compare) and len(test.ops) == 1:
        l, op, r = test.left, test.ops[0], test.comparators[0]
        if _u(l) == var and isinstance(r, ast.Constant) and isinstance(r.value, int) and not isinstance(r.value, bool) and 0 <= r.value < 100:
            if isinstance(op, ast.Gt):
                return "n > %d" % r.value
            if isinstance(op, ast.GtE):
                return "n ≥ %d" % r.value
        if _u(r) == var and isinstance(l, ast.Constant) and isinstance(l.value, int) and not isinstance(l.value, bool) and 0 <= l.value < 100:
            if isinstance(op, ast.Lt):
                return "n > %d" % l.value
            if isinstance(op, ast.LtE):
                return "n ≥ %d" % l.value
    raise Unsupported("threshold test %s" % _u(test))


def _pick(loop, minvar, leaves, what):
    """the double loop over the pool that keeps the minimum: returns (Lean text of the minimised value, strict?)"""
    if not (isinstance(loop, ast.For) and _u(loop.iter) == "enumerate(node_pool[:-1])" and _u(loop.target) == "(idx1, nd1)"):
        raise Unsupported("%s: outer pool loop is not `for idx1, nd1 in enumerate(node_pool[:-1])`" % what)
    body = _strip(loop.body)
    if not (len(body) == 1 and isinstance(body[0], ast.For) and _u(body[0].iter) in ("enumerate(node_pool[idx1 + 1:])",)
            and _u(body[0].target) == "(idx2, nd2)"):
        raise Unsupported("%s: inner pool loop is not `for idx2, nd2 in enumerate(node_pool[idx1+1:])`" % what)
    inner = _strip(body[0].body)
    if not inner or not isinstance(inner[-1], ast.If) or inner[-1].orelse:
        raise Unsupported("%s: the pair loop does not end with the minimum test" % what)
    sym = Sym(leaves)
    sym.run(inner[:-1])
    test = inner[-1].test
    if not (isinstance(test, ast.BoolOp) and isinstance(test.op, ast.Or) and len(test.values) == 2
            and _u(test.values[0]) == "%s is None" % minvar and isinstance(test.values[1], ast.Compare)
            and len(test.values[1].ops) == 1):
        raise Unsupported("%s: minimum test %s" % (what, _u(test)))
    c = test.values[1]
    l, op, r = c.left, c.ops[0], c.comparators[0]
    if _u(r) == minvar and isinstance(op, (ast.Lt, ast.LtE)):
        cand, strict = l, isinstance(op, ast.Lt)
    elif _u(l) == minvar and isinstance(op, (ast.Gt, ast.GtE)):
        cand, strict = r, isinstance(op, ast.Gt)
    else:
        raise Unsupported("%s: minimum test %s" % (what, _u(test)))
    value = sym.ev(cand)
    # the branch must record this value and the pair in pool order
    sym2 = Sym(leaves)
    sym2.env = dict(sym.env)
    got = {}
    for s in inner[-1].body:
        if isinstance(s, ast.Assign) and len(s.targets) == 1 and _u(s.targets[0]) == minvar:
            got["min"] = sym2.ev(s.value)
        elif isinstance(s, ast.Assign) and len(s.targets) == 1 and _u(s.targets[0]) == "nodes_to_join":
            got["pair"] = _u(s.value)
        else:
            raise Unsupported("%s: statement in the minimum branch: %s" % (what, _u(s)))
    if got.get("min") != value or got.get("pair") != "(nd1, nd2)":
        raise Unsupported("%s: the minimum branch does not store the compared value and the pair (nd1, nd2)" % what)
    return value, strict


def _nj(fn):
    w = _while(fn, "nj_tree")
    bound = _nat_cmp(w.test, "n")
    body = _strip(w.body)
    out = {}
    out["loop"] = bound
    # n -= 1
    dec = [s for s in body if isinstance(s, ast.AugAssign) and _u(s.target) == "n"]
    if len(dec) != 1 or not isinstance(dec[0].op, ast.Sub) or not (isinstance(dec[0].value, ast.Constant) and dec[0].value.value == 1
                                                                  and not isinstance(dec[0].value.value, bool)):
        raise Unsupported("nj_tree: the pool counter is not decremented by `n -= 1`")
    # the Q loop
    picks = [s for s in body if isinstance(s, ast.For) and "enumerate" in _u(s.iter)]
    if len(picks) != 1:
        raise Unsupported("nj_tree: expected one pair loop in the while body")
    qleaves = {"n": "((n : Nat) : α)", "nd1._nj_distances[nd2]": "d12", "nd1._nj_xsub": "x1", "nd2._nj_xsub": "x2"}
    out["q"], out["strict"] = _pick(picks[0], "min_q", qleaves, "nj_tree")
    # the update loop over the remaining pool
    ups = [s for s in body if isinstance(s, ast.For) and _u(s.iter) == "node_pool" and _u(s.target) == "node"]
    if len(ups) != 1:
        raise Unsupported("nj_tree: expected one `for node in node_pool` update loop")
    uleaves = {"node._nj_distances[nodes_to_join[0]]": "dkf", "node._nj_distances[nodes_to_join[1]]": "dkg",
               "nodes_to_join[0]._nj_distances[nodes_to_join[1]]": "dfg",
               "nodes_to_join[0]._nj_distances[node]": "dfk", "nodes_to_join[1]._nj_distances[node]": "dgk",
               "node._nj_xsub": "xk", "new_node._nj_xsub": "xnew"}
    sym = Sym(uleaves, JOIN)
    sym.run(_strip(ups[0].body))
    a = sym.env.get("new_node._nj_distances[node]")
    b = sym.env.get("node._nj_distances[new_node]")
    if a is None or a != b:
        raise Unsupported("nj_tree: the reduced distance is not stored symmetrically on the new node and the pool member")
    out["newdist"] = a
    if "node._nj_xsub" not in sym.env or "new_node._nj_xsub" not in sym.env:
        raise Unsupported("nj_tree: the update loop does not maintain _nj_xsub of both nodes")
    out["nodex"] = sym.env["node._nj_xsub"]
    out["newx"] = sym.env["new_node._nj_xsub"]
    inits = [s for s in body if isinstance(s, ast.Assign) and len(s.targets) == 1 and _u(s.targets[0]) == "new_node._nj_xsub"]
    if len(inits) != 1 or body.index(inits[0]) > body.index(ups[0]):
        raise Unsupported("nj_tree: new_node._nj_xsub is not initialised once before the update loop")
    out["newx0"] = Sym({}).ev(inits[0].value)
    # the branch lengths
    ifs = [s for s in body if isinstance(s, ast.If)]
    if len(ifs) != 1 or not ifs[0].orelse or body.index(ifs[0]) < body.index(ups[0]):
        raise Unsupported("nj_tree: expected one if/else for the branch lengths after the update loop")
    out["lentest"] = _nat_cmp(ifs[0].test, "n")
    lleaves = {"n": "((n : Nat) : α)", "nodes_to_join[0]._nj_distances[nodes_to_join[1]]": "dfg",
               "nodes_to_join[0]._nj_xsub": "xf", "nodes_to_join[1]._nj_xsub": "xg"}
    for tag, stmts in (("then", ifs[0].body), ("else", ifs[0].orelse)):
        sym = Sym(lleaves, JOIN)
        sym.run(_strip(stmts))
        f = sym.env.get("nodes_to_join[0].edge.length")
        g = sym.env.get("nodes_to_join[1].edge.length")
        if f is None or g is None:
            raise Unsupported("nj_tree: the %s branch does not set both edge lengths" % tag)
        out[tag] = (f, g)
    return out


def _upgma(fn):
    w = _while(fn, "upgma_tree")
    if _u(w.test) != "len(node_pool) > 1":
        raise Unsupported("upgma_tree: loop test %s" % _u(w.test))
    body = _strip(w.body)
    out = {}
    picks = [s for s in body if isinstance(s, ast.For) and "enumerate(node_pool[:-1])" == _u(s.iter)]
    if len(picks) != 1:
        raise Unsupported("upgma_tree: expected one pair loop in the while body")
    out["picked"], out["strict"] = _pick(picks[0], "min_distance", {"nd1._upgma_distances[nd2]": "d12"}, "upgma_tree")
    if out["picked"] != "d12":
        raise Unsupported("upgma_tree: the minimised quantity is not the stored distance of the pair")
    # straight-line part between the pick and the averaging loop: elen, the edge lengths, the new node's height
    avg = [s for s in body if isinstance(s, ast.For) and _u(s.iter) in ("enumerate(node_pool)", "node_pool")]
    if len(avg) != 1:
        raise Unsupported("upgma_tree: expected one averaging loop over the pool")
    lo, hi = body.index(picks[0]), body.index(avg[0])
    leaves = {"min_distance": "dfg", "nodes_to_join[0]._upgma_distance_from_tip": "hf", "nodes_to_join[1]._upgma_distance_from_tip": "hg"}
    sym = Sym(leaves, JOIN)
    sym.run(body[lo + 1:hi])
    f = sym.env.get("nodes_to_join[0].edge.length")
    g = sym.env.get("nodes_to_join[1].edge.length")
    h = sym.env.get("new_node._upgma_distance_from_tip")
    if f is None or g is None or h is None:
        raise Unsupported("upgma_tree: edge lengths / distance from tip of the new node are not set before the averaging loop")
    out["lenf"], out["leng"], out["height"] = f, g, h
    t = _u(avg[0].target)
    pool_member = {"(idx1, nd1)": "nd1", "nd1": "nd1", "node": "node"}.get(t)
    if pool_member is None:
        raise Unsupported("upgma_tree: averaging loop target %s" % t)
    aleaves = {"nodes_to_join[0]._upgma_distances[%s]" % pool_member: "dfk", "nodes_to_join[1]._upgma_distances[%s]" % pool_member: "dgk",
               "len(nodes_to_join[0]._upgma_cluster)": "((cf : Nat) : α)", "len(nodes_to_join[1]._upgma_cluster)": "((cg : Nat) : α)"}
    sym = Sym(aleaves, JOIN)
    sym.run(_strip(avg[0].body))
    a = sym.env.get("%s._upgma_distances[new_node]" % pool_member)
    b = sym.env.get("new_node._upgma_distances[%s]" % pool_member)
    if a is None or a != b:
        raise Unsupported("upgma_tree: the cluster average is not stored symmetrically")
    out["avg"] = a
    return out


def generate(repo):
    path = os.path.join(repo, PATH)
    mod = ast.parse(open(path).read())
    nj = _nj(find_function(mod, "PhylogeneticDistanceMatrix.nj_tree"))
    up = _upgma(find_function(mod, "PhylogeneticDistanceMatrix.upgma_tree"))
    b = lambda x: "true" if x else "false"
    out = ["namespace DendroModel.C14Kernels", "",
           "section",
           "variable {α : Type} [Zero α] [Add α] [Sub α] [Mul α] [Div α] [NatCast α]", "",
           "/-- nj_tree: `qvalue` of a pair while the pool has `n` members -/",
           "def njQ (n : Nat) (d12 x1 x2 : α) : α := %s" % nj["q"],
           "/-- nj_tree: the minimum is replaced only by a strictly smaller value (`qvalue < min_q`), pairs visited in pool order -/",
           "def njPickStrict : Bool := %s" % b(nj["strict"]),
           "/-- nj_tree: distance of the new node to pool member k -/",
           "def njNewDist (dkf dkg dfg : α) : α := %s" % nj["newdist"],
           "/-- nj_tree: `_nj_xsub` of pool member k after the join -/",
           "def njNodeXsub (xk dkf dkg dfg dfk dgk : α) : α := %s" % nj["nodex"],
           "/-- nj_tree: `_nj_xsub` of the new node: initial value, and after one more pool member -/",
           "def njNewXsubInit : α := %s" % nj["newx0"],
           "def njNewXsubStep (xnew dkf dkg dfg : α) : α := %s" % nj["newx"],
           "/-- nj_tree: the branch lengths of the two joined nodes -/",
           "def njLengths (n : Nat) (dfg xf xg : α) : α × α :=",
           "  if %s then (%s, %s)" % (nj["lentest"], nj["then"][0], nj["then"][1]),
           "  else (%s, %s)" % (nj["else"][0], nj["else"][1]),
           "/-- nj_tree: `while n > 1` -/",
           "def njContinue (n : Nat) : Bool := decide (%s)" % nj["loop"],
           "",
           "/-- upgma_tree: `d < min_distance` -/",
           "def upPickStrict : Bool := %s" % b(up["strict"]),
           "/-- upgma_tree: edge length of the first / second joined node, and `_upgma_distance_from_tip` of the new node -/",
           "def upLenF (dfg hf hg : α) : α := %s" % up["lenf"],
           "def upLenG (dfg hf hg : α) : α := %s" % up["leng"],
           "def upHeight (dfg hf hg : α) : α := %s" % up["height"],
           "/-- upgma_tree: size-weighted average distance of the merged cluster to pool member k -/",
           "def upAvg (dfk dgk : α) (cf cg : Nat) : α := %s" % up["avg"],
           "end", "",
           "end DendroModel.C14Kernels"]
    return "\n".join(out) + "\n"
