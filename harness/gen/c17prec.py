"""Gen/UltraPrec.lean: the default ultrametricity precisions, read off the current source as exact rationals:
`constants.DEFAULT_ULTRAMETRICITY_PRECISION` (default of Tree.calc_node_ages / node_ages / internal_node_ages)
and the literal default `prec` of treemeasure.pybus_harvey_gamma."""
import ast
import os
from fractions import Fraction

from extract import Unsupported, find_function

NAME = "UltraPrec"


def _number(node, what):
    neg = False
    if isinstance(node, ast.UnaryOp) and isinstance(node.op, ast.USub):
        neg, node = True, node.operand
    if isinstance(node, ast.Constant) and isinstance(node.value, (int, float)) and not isinstance(node.value, bool):
        v = Fraction(node.value)
        return -v if neg else v
    raise Unsupported("%s is not a numeric literal: %s" % (what, ast.dump(node)[:80]))


def _default_of(fn, arg):
    names = [a.arg for a in fn.args.args]
    defaults = dict(zip(names[len(names) - len(fn.args.defaults):], fn.args.defaults))
    if arg not in defaults:
        raise Unsupported("%s has no default for %s" % (fn.name, arg))
    return defaults[arg]


def generate(repo):
    cpath = os.path.join(repo, "src/dendropy/utility/constants.py")
    tpath = os.path.join(repo, "src/dendropy/datamodel/treemodel/_tree.py")
    mpath = os.path.join(repo, "src/dendropy/calculate/treemeasure.py")
    const = None
    for node in ast.parse(open(cpath).read()).body:
        if isinstance(node, ast.Assign) and len(node.targets) == 1 and isinstance(node.targets[0], ast.Name) \
                and node.targets[0].id == "DEFAULT_ULTRAMETRICITY_PRECISION":
            const = _number(node.value, "DEFAULT_ULTRAMETRICITY_PRECISION")
    if const is None:
        raise Unsupported("constants.py does not assign DEFAULT_ULTRAMETRICITY_PRECISION")
    ttree = ast.parse(open(tpath).read())
    for meth in ("Tree.calc_node_ages", "Tree.node_ages", "Tree.internal_node_ages"):
        d = _default_of(find_function(ttree, meth), "ultrametricity_precision")
        if not (isinstance(d, ast.Attribute) and d.attr == "DEFAULT_ULTRAMETRICITY_PRECISION"):
            raise Unsupported("%s: default ultrametricity_precision is not constants.DEFAULT_ULTRAMETRICITY_PRECISION" % meth)
    g = _number(_default_of(find_function(ast.parse(open(mpath).read()), "pybus_harvey_gamma"), "prec"),
                "default prec of pybus_harvey_gamma")
    out = ["namespace DendroModel.UltraPrec", "",
           "/-- constants.DEFAULT_ULTRAMETRICITY_PRECISION as an exact rational (numerator, denominator) -/",
           "def calcNum : Int := %d" % const.numerator, "def calcDen : Nat := %d" % const.denominator,
           "/-- default `prec` of pybus_harvey_gamma -/",
           "def gammaNum : Int := %d" % g.numerator, "def gammaDen : Nat := %d" % g.denominator, "",
           "end DendroModel.UltraPrec"]
    return "\n".join(out) + "\n"
