"""Gen/C03Guards.lean: the closed-form decision kernels of the anchored restructuring code of C03, read off the
CURRENT source (`datamodel/treemodel/_tree.py`, `_node.py`, `_edge.py`) on every run.

What is emitted is the Boolean structure, the comparison operators and the integer constants AS THEY ARE in the source;
the sub-expressions are mapped to named atoms (Lean parameters) through the explicit tables below.  Anything that is not
in a table raises `Unsupported` - nothing is guessed, nothing has a default.  Tolerated without any change of meaning:
straight-line temporaries (`children = self._child_nodes`, `num_children = len(child_nodes)`, ...) are inlined,
`x.child_nodes()` and `x._child_nodes` are the same atom when only read, `not e.is_leaf()` / `not e.is_terminal()`
reads as "not (not internal)", operands of a comparison may be commuted (`2 == len(c)`, `threshold >= e.length`),
parentheses, docstrings and comments do not exist in the ast.

Kernels (see the docstrings in the generated file):
  K0 nodeIsInternal / nodeIsLeaf / edgeIsInternal / edgeIsLeaf   (the predicates the atoms `internal` stand for)
  K1 collapsePred, defaultThresholdNum/Den                        Tree.collapse_unweighted_edges
  K2 reseedCollapseGuard, encodeCollapseGuard, basalSetUnrootedDefault
  K3 basalChoice                                                  Tree.collapse_basal_bifurcation
  K4 removeUnaryCount, removeRootCount, removeRootChoice          Node.remove_child(suppress_unifurcations=True)
  K5 supCount, encodeSupGuard                                     Tree.suppress_unifurcations / encode_bipartitions
  K6 resolveGuard, defaultLimit                                   Tree.resolve_polytomies
The default threshold is the exact rational of the literal's DECIMAL TEXT in the source (`Fraction("0.0000001")`), not
`Fraction(float)`; the generator checks that the text and the parsed float agree (`float(Fraction(text)) == value`)."""
import ast
import os
from fractions import Fraction

from extract import Unsupported, find_function

NAME = "C03Guards"

TREE_PY = "src/dendropy/datamodel/treemodel/_tree.py"
NODE_PY = "src/dendropy/datamodel/treemodel/_node.py"
EDGE_PY = "src/dendropy/datamodel/treemodel/_edge.py"

# ------------------------------------------------------------------------------------------------ canonical sub-expressions
# attribute reads -> canonical function symbol
ATTR = {"_child_nodes": "kids", "seed_node": "seed", "_head_node": "head", "head_node": "head",
        "_parent_node": "parent", "parent_node": "parent", "length": "length", "edge": "edge", "_edge": "edge",
        "_is_rooted": "rooted"}
# argument-less method calls -> canonical function symbol (`leaf` is read as the negation of `internal`, K0 shows why)
METH0 = {"child_nodes": "kids", "is_internal": "internal", "is_leaf": "leaf", "is_terminal": "leaf"}
# python comparison -> (lean operator, the same comparison with its operands swapped)
CMPOPS = {ast.Eq: ("=", ast.Eq), ast.NotEq: ("≠", ast.NotEq), ast.Lt: ("<", ast.Gt), ast.LtE: ("≤", ast.GtE),
          ast.Gt: (">", ast.Lt), ast.GtE: ("≥", ast.LtE)}
PYOP = {ast.Eq: "==", ast.NotEq: "!=", ast.Lt: "<", ast.LtE: "<=", ast.Gt: ">", ast.GtE: ">="}


def _src(node):
    try:
        t = ast.unparse(node)
    except Exception:
        t = ast.dump(node)[:120]
    return t.replace("-/", "- /").replace("/-", "/ -")       # the text ends up inside Lean doc comments


class Env(object):
    """straight-line temporaries in scope: name -> (kind, canonical text) or None (holds something unrecognised).
    kind 'alias': the name is another reference to the same object (`children = self._child_nodes`);
    kind 'value': a computed value (`len(...)`, the copy `x.child_nodes()`), valid only until something may mutate"""

    def __init__(self, where):
        self.where = where
        self.map = {}

    def fail(self, msg):
        raise Unsupported("%s: %s" % (self.where, msg))


def canon(e, env):
    """canonical text of an object/int-valued sub-expression, or Unsupported"""
    if isinstance(e, ast.Name):
        if e.id in env.map:
            v = env.map[e.id]
            if v is None:
                env.fail("the temporary `%s` does not hold a recognised, still valid expression" % e.id)
            return v[1]
        return "$" + e.id
    if isinstance(e, ast.Constant):
        if e.value is None:
            return "None"
        if isinstance(e.value, int) and not isinstance(e.value, bool):
            return "#%d" % e.value
        env.fail("constant %r is not in the supported subset" % (e.value,))
    if isinstance(e, ast.Attribute):
        if e.attr not in ATTR:
            env.fail("attribute `.%s` is not in the attribute table (in `%s`)" % (e.attr, _src(e)))
        return "%s(%s)" % (ATTR[e.attr], canon(e.value, env))
    if isinstance(e, ast.Subscript):
        if isinstance(e.slice, ast.Constant) and isinstance(e.slice.value, int) and not isinstance(e.slice.value, bool) \
                and e.slice.value >= 0:
            return "%s[%d]" % (canon(e.value, env), e.slice.value)
        env.fail("subscript `%s` is not a non-negative literal index" % _src(e))
    if isinstance(e, ast.Call):
        if e.keywords:
            env.fail("call with keywords `%s`" % _src(e))
        if isinstance(e.func, ast.Name) and e.func.id == "len" and len(e.args) == 1:
            return "len(%s)" % canon(e.args[0], env)
        if isinstance(e.func, ast.Attribute) and not e.args and e.func.attr in METH0:
            return "%s(%s)" % (METH0[e.func.attr], canon(e.func.value, env))
        env.fail("call `%s` is not in the method table" % _src(e))
    env.fail("expression `%s` is not in the supported subset" % _src(e))


def is_pure(e):
    """reading this expression cannot change any object (so temporaries stay valid across it)"""
    if isinstance(e, (ast.Name, ast.Constant)):
        return True
    if isinstance(e, ast.Attribute):
        return is_pure(e.value)
    if isinstance(e, ast.Subscript):
        return is_pure(e.value) and is_pure(e.slice)
    if isinstance(e, ast.Compare):
        return is_pure(e.left) and all(is_pure(c) for c in e.comparators)
    if isinstance(e, ast.BoolOp):
        return all(is_pure(v) for v in e.values)
    if isinstance(e, ast.UnaryOp):
        return is_pure(e.operand)
    if isinstance(e, ast.Tuple):
        return all(is_pure(v) for v in e.elts)
    if isinstance(e, ast.Call) and not e.keywords:
        if isinstance(e.func, ast.Name) and e.func.id in ("len", "bool") and len(e.args) == 1:
            return is_pure(e.args[0])
        if isinstance(e.func, ast.Attribute) and not e.args and e.func.attr in METH0:
            return is_pure(e.func.value)
    return False


def _is_doc(s):
    return isinstance(s, ast.Expr) and isinstance(s.value, ast.Constant) and isinstance(s.value.value, str)


def is_inert(s):
    """a statement that mutates no object (it may bind names)"""
    if _is_doc(s) or isinstance(s, ast.Pass):
        return True
    if isinstance(s, ast.Return):
        return s.value is None or is_pure(s.value)
    if isinstance(s, ast.Assign):
        return all(isinstance(t, (ast.Name, ast.Tuple)) and all(isinstance(x, ast.Name) for x in ast.walk(t) if isinstance(x, ast.expr) and not isinstance(x, ast.Tuple))
                   for t in s.targets) and is_pure(s.value)
    if isinstance(s, ast.If):
        return is_pure(s.test) and all(is_inert(b) for b in s.body) and all(is_inert(b) for b in s.orelse)
    return False


def _stored_names(s):
    return {n.id for n in ast.walk(s) if isinstance(n, ast.Name) and isinstance(n.ctx, (ast.Store, ast.Del))}


def _stored_attrs(s):
    return {n.attr for n in ast.walk(s) if isinstance(n, ast.Attribute) and isinstance(n.ctx, (ast.Store, ast.Del))}


def _mutation(env, s):
    """the effect of a statement that may mutate objects on the temporaries"""
    attrs = {ATTR.get(a) for a in _stored_attrs(s)}
    for k, v in list(env.map.items()):
        if v is None:
            continue
        kind, c = v
        if kind == "value":
            env.map[k] = None
        elif any(f and (f + "(") in c for f in attrs):
            env.map[k] = None                     # the attribute the alias was read from is rebound
        elif not (c.startswith("kids($") and c.count("(") == 1):
            env.map[k] = None                     # only a child LIST of a named object is known to stay the same object
    for n in _stored_names(s):
        env.map[n] = None


def advance(env, s):
    """account for a statement that is passed over on the way to the kernel"""
    if isinstance(s, ast.Assign) and len(s.targets) == 1 and isinstance(s.targets[0], ast.Name) and is_pure(s.value):
        name = s.targets[0].id
        try:
            c = canon(s.value, env)
        except Unsupported:
            env.map[name] = None
            return
        has_call = any(isinstance(n, ast.Call) for n in ast.walk(s.value))
        env.map[name] = ("value" if has_call or c.startswith("#") or c == "None" else "alias", c)
        return
    if is_inert(s):
        for n in _stored_names(s):
            env.map[n] = None
        return
    _mutation(env, s)


def enter(env, s):
    """descend into a compound statement on the way to the kernel"""
    if isinstance(s, ast.If):
        if not is_pure(s.test):
            _mutation(env, ast.Expr(s.test))
        return
    if isinstance(s, (ast.For, ast.While)):
        # the body runs repeatedly: whatever any of its statements may do has happened before the kernel is evaluated again
        for b in s.body + s.orelse:
            if not is_inert(b):
                _mutation(env, b)
        loopvar = s.target.id if isinstance(s, ast.For) and isinstance(s.target, ast.Name) else None
        for n in _stored_names(s):
            if n == loopvar:
                env.map.pop(n, None)      # the loop variable is a free name of the kernel
            else:
                env.map[n] = None
        return
    env.fail("the kernel sits inside a `%s` statement" % type(s).__name__)


def paths_to(stmts, pred, prefix=()):
    """all paths ((stmts, index), ...) to statements satisfying pred, in source order"""
    out = []
    for i, s in enumerate(stmts):
        here = prefix + ((stmts, i),)
        if pred(s):
            out.append(here)
        for field in ("body", "orelse", "finalbody"):
            sub = getattr(s, field, None)
            if isinstance(sub, list) and sub and isinstance(sub[0], ast.stmt):
                out += paths_to(sub, pred, here)
        for h in getattr(s, "handlers", []) or []:
            out += paths_to(h.body, pred, here)
    return out


def env_along(path, where):
    env = Env(where)
    for depth, (stmts, idx) in enumerate(path):
        for s in stmts[:idx]:
            advance(env, s)
        if depth < len(path) - 1:
            enter(env, stmts[idx])
    return env


def unique_path(fn, pred, what, where):
    ps = paths_to(fn.body, pred)
    if len(ps) != 1:
        raise Unsupported("%s: expected exactly one %s, found %d" % (where, what, len(ps)))
    return ps[0]


# ------------------------------------------------------------------------------------------------ Boolean structure
# intermediate form: ("or"|"and", [x...]) | ("not", x) | ("b", atom) | ("cmp", leanop, lterm, rterm)
def B(name):
    return ("b", name)


def NOT(x):
    return ("not", x)


def term(e, env, table):
    c = canon(e, env)
    if c.startswith("#"):
        k = int(c[1:])
        if k < 0:
            env.fail("negative constant %d compared with a count" % k)
        return str(k)
    ent = table.get(c)
    if ent is not None and ent[0] == "n":
        return ent[1]
    return None


def boolean(e, env, table):
    """the truth value of `e` under Python's rules, as intermediate form over the atoms of `table`.
    table: canonical text -> ("n", lean Nat parameter) | ("b", intermediate form)"""
    if isinstance(e, ast.BoolOp):
        return ("or" if isinstance(e.op, ast.Or) else "and", [boolean(v, env, table) for v in e.values])
    if isinstance(e, ast.UnaryOp) and isinstance(e.op, ast.Not):
        return NOT(boolean(e.operand, env, table))
    if isinstance(e, ast.Call) and isinstance(e.func, ast.Name) and e.func.id == "bool" and len(e.args) == 1 and not e.keywords:
        return boolean(e.args[0], env, table)
    if isinstance(e, ast.Compare):
        if len(e.ops) != 1:
            env.fail("chained comparison `%s`" % _src(e))
        op, l, r = e.ops[0], e.left, e.comparators[0]
        if isinstance(op, (ast.Is, ast.IsNot)):
            lc, rc = canon(l, env), canon(r, env)
            if (lc == "None") == (rc == "None"):
                env.fail("`%s`: exactly one side of is/is not must be None" % _src(e))
            key = "isNone(%s)" % (rc if lc == "None" else lc)
            ent = table.get(key)
            if ent is None or ent[0] != "b":
                env.fail("`%s` (%s) is not an atom of this kernel" % (_src(e), key))
            return ent[1] if isinstance(op, ast.Is) else NOT(ent[1])
        if type(op) not in CMPOPS:
            env.fail("comparison operator in `%s`" % _src(e))
        lt, rt = term(l, env, table), term(r, env, table)
        if lt is not None and rt is not None:
            return ("cmp", CMPOPS[type(op)][0], lt, rt)
        # a comparison that is an atom as a whole (e.g. a length against the threshold), in either operand order
        lc, rc = canon(l, env), canon(r, env)
        for key in ("%s %s %s" % (lc, PYOP[type(op)], rc), "%s %s %s" % (rc, PYOP[CMPOPS[type(op)][1]], lc)):
            ent = table.get(key)
            if ent is not None and ent[0] == "b":
                return ent[1]
        env.fail("comparison `%s` (%s %s %s) is not in the atom table of this kernel" % (_src(e), lc, PYOP[type(op)], rc))
    c = canon(e, env)
    ent = table.get(c)
    if ent is not None and ent[0] == "b":
        return ent[1]
    if c.startswith("kids("):
        n = table.get("len(%s)" % c)
        if n is not None and n[0] == "n":
            return ("cmp", "≠", n[1], "0")           # truth value of a list
    env.fail("`%s` (%s) is not an atom of this kernel" % (_src(e), c))


def lean(x):
    if x[0] in ("or", "and"):
        return "(" + (" || " if x[0] == "or" else " && ").join(lean(v) for v in x[1]) + ")"
    if x[0] == "not":
        return "(!%s)" % lean(x[1])
    if x[0] == "b":
        return x[1]
    return "(decide (%s %s %s))" % (x[2], x[1], x[3])


def atoms_of(x):
    if x[0] in ("or", "and"):
        return [a for v in x[1] for a in atoms_of(v)]
    if x[0] == "not":
        return atoms_of(x[1])
    if x[0] == "b":
        return [x[1]]
    return []


def evaluate(x, val, trace):
    """Python's short-circuit evaluation; `trace` collects the atoms in the order they are evaluated"""
    if x[0] == "or":
        for v in x[1]:
            if evaluate(v, val, trace):
                return True
        return False
    if x[0] == "and":
        for v in x[1]:
            if not evaluate(v, val, trace):
                return False
        return True
    if x[0] == "not":
        return not evaluate(x[1], val, trace)
    if x[0] == "b":
        trace.append(x[1])
        return val[x[1]]
    raise Unsupported("evaluate: comparison of counts in a short-circuit check")


def count_eq(e, env, table, what):
    """`len(...) == K` (either operand order) -> K"""
    x = boolean(e, env, table)
    if x[0] == "cmp" and x[1] == "=":
        for a, b in ((x[2], x[3]), (x[3], x[2])):
            if not a.isdigit() and b.isdigit():
                return int(b)
    env.fail("%s: `%s` is not `<count> == <literal>`" % (what, _src(e)))


# ------------------------------------------------------------------------------------------------ helpers on functions
def default_of(fn, arg, where):
    names = [a.arg for a in fn.args.args]
    defaults = dict(zip(names[len(names) - len(fn.args.defaults):], fn.args.defaults))
    for a, d in zip(fn.args.kwonlyargs, fn.args.kw_defaults):
        if d is not None:
            defaults[a.arg] = d
    if arg not in defaults:
        raise Unsupported("%s has no parameter `%s` with a default" % (where, arg))
    return defaults[arg]


def need_params(fn, names, where):
    have = {a.arg for a in fn.args.args + fn.args.kwonlyargs}
    for n in names:
        if n not in have:
            raise Unsupported("%s has no parameter `%s`" % (where, n))


def loop_over(s, method):
    """`for <name> in self.<method>():` -> name"""
    if isinstance(s, ast.For) and isinstance(s.target, ast.Name) and isinstance(s.iter, ast.Call) \
            and isinstance(s.iter.func, ast.Attribute) and s.iter.func.attr == method \
            and isinstance(s.iter.func.value, ast.Name) and s.iter.func.value.id == "self" \
            and not s.iter.args and not s.iter.keywords:
        return s.target.id
    return None


def calls_method(s, recv_pred, method):
    """statement `<recv>.<method>(...)` as an expression statement"""
    return isinstance(s, ast.Expr) and isinstance(s.value, ast.Call) and isinstance(s.value.func, ast.Attribute) \
        and s.value.func.attr == method and recv_pred(s.value.func.value)


def is_self(e):
    return isinstance(e, ast.Name) and e.id == "self"


def first_if(stmts, env, where):
    """the first `if` of a block; what precedes it must be straight-line temporaries"""
    for s in stmts:
        if isinstance(s, ast.If):
            return s
        if not (is_inert(s)):
            raise Unsupported("%s: statement `%s` before the expected `if`" % (where, _src(s)[:60]))
        advance(env, s)
    raise Unsupported("%s: no `if` found" % where)


def bare_return(stmts):
    body = [s for s in stmts if not _is_doc(s) and not isinstance(s, ast.Pass)]
    return len(body) == 1 and isinstance(body[0], ast.Return) and (
        body[0].value is None or (isinstance(body[0].value, ast.Constant) and body[0].value.value is None))


# ------------------------------------------------------------------------------------------------ K0
def k0_predicates(node_tree, edge_tree):
    out = []

    def single_return(fn, where):
        body = [s for s in fn.body if not _is_doc(s)]
        if len(body) != 1 or not isinstance(body[0], ast.Return) or body[0].value is None:
            raise Unsupported("%s is not a single `return <expression>`" % where)
        return body[0].value

    ntab = {"len(kids($self))": ("n", "nkids")}
    for meth, nm in (("is_internal", "nodeIsInternal"), ("is_leaf", "nodeIsLeaf")):
        where = "Node." + meth
        x = boolean(single_return(find_function(node_tree, where), where), Env(where), ntab)
        out += ["/-- `%s()` as a function of the number of children -/" % where,
                "def %s (nkids : Nat) : Bool := %s" % (nm, lean(x))]
    etab = {"head($self)": ("b", B("hasHead")), "leaf(head($self))": ("b", B("headLeaf")),
            "internal(head($self))": ("b", NOT(B("headLeaf")))}
    for meth, nm in (("is_internal", "edgeIsInternal"), ("is_leaf", "edgeIsLeaf")):
        where = "Edge." + meth
        x = boolean(single_return(find_function(edge_tree, where), where), Env(where), etab)
        out += ["/-- truth value of `%s()`; `hasHead` = truth value of the head node object, `headLeaf` = its `is_leaf()` -/" % where,
                "def %s (hasHead headLeaf : Bool) : Bool := %s" % (nm, lean(x))]
    return out


def check_is_terminal(edge_tree):
    where = "Edge.is_terminal"
    fn = find_function(edge_tree, where)
    body = [s for s in fn.body if not _is_doc(s)]
    ok = len(body) == 1 and isinstance(body[0], ast.Return) and isinstance(body[0].value, ast.Call) \
        and isinstance(body[0].value.func, ast.Attribute) and body[0].value.func.attr == "is_leaf" \
        and is_self(body[0].value.func.value) and not body[0].value.args and not body[0].value.keywords
    if not ok:
        raise Unsupported("%s is not `return self.is_leaf()` although the kernel reads it that way" % where)


def uses_method(e, name):
    return any(isinstance(n, ast.Attribute) and n.attr == name for n in ast.walk(e))


# ------------------------------------------------------------------------------------------------ K1
def k1_collapse_unweighted(tree, edge_tree, source):
    where = "Tree.collapse_unweighted_edges"
    fn = find_function(tree, where)
    need_params(fn, ["threshold"], where)

    def pred(s):
        return isinstance(s, ast.If) and any(isinstance(b, ast.Expr) and isinstance(b.value, ast.Call)
                                             and isinstance(b.value.func, ast.Attribute) and b.value.func.attr == "collapse"
                                             for b in s.body)
    path = unique_path(fn, pred, "`if` that guards `<edge>.collapse()`", where)
    if len(path) != 2:
        raise Unsupported("%s: the collapsing `if` is not directly inside one loop of the function body" % where)
    loop = path[0][0][path[0][1]]
    e = loop_over(loop, "postorder_edge_iter")
    if e is None:
        raise Unsupported("%s: the loop is not `for <name> in self.postorder_edge_iter()`" % where)
    target = path[1][0][path[1][1]]
    if target.orelse:
        raise Unsupported("%s: the collapsing `if` has an else branch" % where)
    if not all(calls_method(b, lambda r: isinstance(r, ast.Name) and r.id == e, "collapse") and not b.value.args and not b.value.keywords
               for b in target.body):
        raise Unsupported("%s: the body of the `if` is not just `%s.collapse()`" % (where, e))
    if [s for s in loop.body if isinstance(s, (ast.If, ast.For, ast.While, ast.Try)) and s is not target]:
        raise Unsupported("%s: further control flow in the loop body" % where)
    env = env_along(path, where)
    if uses_method(target.test, "is_terminal"):
        check_is_terminal(edge_tree)
    table = {"isNone(length($%s))" % e: ("b", B("lenNone")),
             "length($%s) <= $threshold" % e: ("b", B("lenLeThr")),
             "internal($%s)" % e: ("b", B("internal")),
             "leaf($%s)" % e: ("b", NOT(B("internal")))}
    x = boolean(target.test, env, table)
    # `None <= float` raises TypeError: in Python's evaluation order the `<=` must never be reached with a None length
    for internal in (False, True):
        trace = []
        evaluate(x, {"lenNone": True, "lenLeThr": False, "internal": internal}, trace)
        if "lenLeThr" in trace:
            raise Unsupported("%s: `%s` compares the length with the threshold although it is None "
                              "(the `is None` test does not guard the comparison)" % (where, _src(target.test)))
    d = default_of(fn, "threshold", where)
    neg = False
    if isinstance(d, ast.UnaryOp) and isinstance(d.op, ast.USub):
        neg, d = True, d.operand
    if not (isinstance(d, ast.Constant) and isinstance(d.value, (int, float)) and not isinstance(d.value, bool)):
        raise Unsupported("%s: the default threshold is not a numeric literal" % where)
    text = ast.get_source_segment(source, d)
    try:
        fr = Fraction(text.replace("_", ""))
    except (ValueError, AttributeError, ZeroDivisionError):
        raise Unsupported("%s: cannot read the default threshold literal %r exactly" % (where, text))
    if float(fr) != float(d.value):
        raise Unsupported("%s: literal text %r and its parsed value %r disagree" % (where, text, d.value))
    if neg:
        fr = -fr
    return ["/-- the test in front of `e.collapse()` in `%s`, structure as in the source `%s`." % (where, _src(target.test)),
            "atoms: lenNone = `e.length is None`, lenLeThr = `e.length <= threshold` (evaluated only when the length is not None:",
            "the generator checked that), internal = `e.is_internal()` -/",
            "def collapsePred (lenNone lenLeThr internal : Bool) : Bool := %s" % lean(x),
            "/-- default `threshold`, the exact rational of the literal's decimal text `%s` -/" % text,
            "def defaultThresholdNum : Int := %d" % fr.numerator,
            "def defaultThresholdDen : Nat := %d" % fr.denominator]


# ------------------------------------------------------------------------------------------------ K2
def _basal_guard(fn, where):
    def pred(s):
        return isinstance(s, ast.If) and any(calls_method(b, is_self, "collapse_basal_bifurcation") for b in s.body)
    path = unique_path(fn, pred, "`if` that guards `self.collapse_basal_bifurcation()`", where)
    target = path[-1][0][path[-1][1]]
    body = [b for b in target.body if not _is_doc(b) and not isinstance(b, ast.Pass)]
    if len(body) != 1 or body[0].value.args or body[0].value.keywords or target.orelse:
        raise Unsupported("%s: the guarded block is not just `self.collapse_basal_bifurcation()` (default arguments)" % where)
    return path, target


def k2_guards(tree):
    out = []
    table = {"$collapse_unrooted_basal_bifurcation": ("b", B("collapseFlag")),
             "rooted($self)": ("b", B("rootedTruthy")),
             "len(kids(seed($self)))": ("n", "nkids")}
    # reseed_at: in the else branch of the LAST top-level `if update_bipartitions:`
    where = "Tree.reseed_at"
    fn = find_function(tree, where)
    need_params(fn, ["collapse_unrooted_basal_bifurcation", "update_bipartitions"], where)
    path, target = _basal_guard(fn, where)
    ok = len(path) == 2 and path[0][0] is fn.body
    if ok:
        outer = fn.body[path[0][1]]
        ok = isinstance(outer, ast.If) and isinstance(outer.test, ast.Name) and outer.test.id == "update_bipartitions" \
            and path[1][0] is outer.orelse
    if not ok:
        raise Unsupported("%s: the guard is not directly in the else branch of a top-level `if update_bipartitions:`" % where)
    x1 = boolean(target.test, env_along(path, where), table)
    out += ["/-- guard of `self.collapse_basal_bifurcation()` in the `else` branch of `if update_bipartitions:` of `%s`: `%s`." % (where, _src(target.test)),
            "atoms: collapseFlag = `collapse_unrooted_basal_bifurcation`, rootedTruthy = truth value of `self._is_rooted`,",
            "nkids = `len(self.seed_node._child_nodes)` -/",
            "def reseedCollapseGuard (collapseFlag rootedTruthy : Bool) (nkids : Nat) : Bool := %s" % lean(x1)]
    where = "Tree.encode_bipartitions"
    fn = find_function(tree, where)
    need_params(fn, ["collapse_unrooted_basal_bifurcation", "suppress_unifurcations"], where)
    path, target = _basal_guard(fn, where)
    if len(path) != 1:
        raise Unsupported("%s: the guard is not a top-level statement of the function" % where)
    x2 = boolean(target.test, env_along(path, where), table)
    out += ["/-- the same guard in `%s`: `%s` -/" % (where, _src(target.test)),
            "def encodeCollapseGuard (collapseFlag rootedTruthy : Bool) (nkids : Nat) : Bool := %s" % lean(x2)]
    where = "Tree.collapse_basal_bifurcation"
    d = default_of(find_function(tree, where), "set_as_unrooted_tree", where)
    if not (isinstance(d, ast.Constant) and isinstance(d.value, bool)):
        raise Unsupported("%s: default of set_as_unrooted_tree is not a Boolean literal" % where)
    out += ["/-- default `set_as_unrooted_tree` of `%s` (both guarded calls pass no argument) -/" % where,
            "def basalSetUnrootedDefault : Bool := %s" % ("true" if d.value else "false")]
    return out


# ------------------------------------------------------------------------------------------------ K3
def _pair_index(stmts, var, pair_canon, env, where):
    """position (0/1) at which `var` is bound to an element of the child pair in a branch body, or None"""
    found = None
    e = Env(where)
    e.map = dict(env.map)
    for s in stmts:
        if not isinstance(s, ast.Assign) or len(s.targets) != 1 or not is_pure(s.value):
            raise Unsupported("%s: statement `%s` in a branch of the choice" % (where, _src(s)[:60]))
        t = s.targets[0]
        idx = None
        if isinstance(t, ast.Tuple) and all(isinstance(x, ast.Name) for x in t.elts):
            names = [x.id for x in t.elts]
            if var in names:
                if len(names) != 2 or canon(s.value, e) != pair_canon:
                    raise Unsupported("%s: `%s` does not unpack the two children" % (where, _src(s)))
                idx = names.index(var)
                if names.count(var) != 1:
                    raise Unsupported("%s: `%s` binds `%s` twice" % (where, _src(s), var))
        elif isinstance(t, ast.Name) and t.id == var:
            c = canon(s.value, e)
            for k in (0, 1):
                if c == "%s[%d]" % (pair_canon, k):
                    idx = k
            if idx is None:
                raise Unsupported("%s: `%s` does not bind one of the two children" % (where, _src(s)))
        if idx is not None:
            if found is not None:
                raise Unsupported("%s: `%s` is bound twice in one branch" % (where, var))
            found = idx
        advance(e, s)
    return found


def k3_basal_choice(tree):
    where = "Tree.collapse_basal_bifurcation"
    fn = find_function(tree, where)
    # the node that is dissolved: the one whose edge is collapsed
    env = Env(where)
    stmts = [s for s in fn.body if not _is_doc(s)]
    table = {"len(kids(seed($self)))": ("n", "n"),
             "len(kids(kids(seed($self))[0]))": ("n", "n0"),
             "len(kids(kids(seed($self))[1]))": ("n", "n1")}
    seedtab = {"seed($self)": ("b", B("seedTruthy")), "isNone(seed($self))": ("b", NOT(B("seedTruthy")))}
    pair = "kids(seed($self))"
    # which variable's edge is collapsed (temporaries such as `to_del_edge = to_del.edge` inlined)
    calls = [n for n in ast.walk(fn) if isinstance(n, ast.Call) and isinstance(n.func, ast.Attribute) and n.func.attr == "collapse"]
    if len(calls) != 1:
        raise Unsupported("%s: expected exactly one `.collapse(...)` call, found %d" % (where, len(calls)))
    recv = calls[0].func.value
    aliases = {}
    for n in ast.walk(fn):
        if isinstance(n, ast.Assign) and len(n.targets) == 1 and isinstance(n.targets[0], ast.Name) \
                and isinstance(n.value, ast.Attribute) and n.value.attr in ("edge", "_edge") and isinstance(n.value.value, ast.Name):
            aliases.setdefault(n.targets[0].id, []).append(n.value.value.id)
    if isinstance(recv, ast.Attribute) and recv.attr in ("edge", "_edge") and isinstance(recv.value, ast.Name):
        var = recv.value.id
    elif isinstance(recv, ast.Name) and len(aliases.get(recv.id, [])) == 1:
        var = aliases[recv.id][0]
    else:
        raise Unsupported("%s: cannot tell whose edge `%s` collapses" % (where, _src(calls[0])))

    def go(stmts, chosen):
        """nested if-expression (lean text) of the decision; `chosen` = result code fixed so far (None = not yet)"""
        if not stmts:
            if chosen is None:
                raise Unsupported("%s: a path reaches the end without choosing the node to dissolve" % where)
            return str(chosen)
        s, rest = stmts[0], stmts[1:]
        if chosen is not None:
            # after the choice: nothing may return before the collapse call happens
            for k, t in enumerate(stmts):
                if any(n is calls[0] for n in ast.walk(t)):
                    if not (isinstance(t, ast.Expr) and t.value is calls[0]):
                        raise Unsupported("%s: the collapse call is not an unconditional statement after the choice" % where)
                    return str(chosen)
                if any(isinstance(n, (ast.Return, ast.Raise, ast.Break, ast.Continue)) for n in ast.walk(t)):
                    raise Unsupported("%s: a return/raise between the choice and the collapse call" % where)
            raise Unsupported("%s: no collapse call after the choice" % where)
        if isinstance(s, ast.If):
            try:
                seed_test = boolean(s.test, env, seedtab)
            except Unsupported:
                seed_test = None
            if seed_test is not None:
                # `if not seed_node: return` - a tree without seed node is outside the kernel
                if evaluate(seed_test, {"seedTruthy": True}, []) or not bare_return(s.body) or s.orelse:
                    raise Unsupported("%s: `%s` is not an early return for a missing seed node" % (where, _src(s.test)))
                return go(rest, None)
            x = boolean(s.test, env, table)

            def branch(body):
                body = [b for b in body if not _is_doc(b) and not isinstance(b, ast.Pass)]
                if bare_return(body):
                    return "0"
                if body and isinstance(body[0], ast.If):          # elif chain / nested test: continues into `rest`
                    return go(body + rest, None)
                idx = _pair_index(body, var, pair, env, where)
                if idx is None:
                    raise Unsupported("%s: a branch neither returns nor binds `%s`" % (where, var))
                return go(rest, 2 - idx)        # index 1 (second child dissolved) -> 1, index 0 -> 2
            a = branch(s.body)
            if s.orelse:
                b = branch(s.orelse)
            else:
                if not bare_return(s.body):
                    raise Unsupported("%s: `if %s` without else does not return" % (where, _src(s.test)))
                b = go(rest, None)
            return "if %s then %s else %s" % (lean(x), a, b)
        if not is_inert(s):
            raise Unsupported("%s: statement `%s` before the choice is made" % (where, _src(s)[:60]))
        if isinstance(s, ast.Return):
            return "0"
        advance(env, s)
        return go(rest, None)

    body = go(stmts, None)
    return ["/-- the decision of `%s`: 0 = returns without change, 1 = the SECOND child of the seed is dissolved (the first kept)," % where,
            "2 = the FIRST child is dissolved.  n = `len(seed_node.child_nodes())`, n0 / n1 = number of children of the first / second child;",
            "the dissolved node is the one whose edge is `.collapse`d (`%s`), its position is read off the unpacking of the child pair -/" % var,
            "def basalChoice (n n0 n1 : Nat) : Nat := %s" % body]


# ------------------------------------------------------------------------------------------------ K4
def k4_remove_child(node_tree):
    where = "Node.remove_child"
    fn = find_function(node_tree, where)
    need_params(fn, ["suppress_unifurcations"], where)

    def pred(s):
        return isinstance(s, ast.If) and isinstance(s.test, ast.Name) and s.test.id == "suppress_unifurcations"
    path = unique_path(fn, pred, "`if suppress_unifurcations:`", where)
    sup = path[-1][0][path[-1][1]]
    if sup.orelse:
        raise Unsupported("%s: `if suppress_unifurcations:` has an else branch" % where)
    env = env_along(path, where)
    inner = first_if(sup.body, env, where)
    if [s for s in sup.body if s is not inner and not is_inert(s)]:
        raise Unsupported("%s: more than the parent test inside `if suppress_unifurcations:`" % where)
    ptab = {"parent($self)": ("b", B("hasParent")), "isNone(parent($self))": ("b", NOT(B("hasParent")))}
    px = boolean(inner.test, env, ptab)
    yes, no = evaluate(px, {"hasParent": True}, []), evaluate(px, {"hasParent": False}, [])
    if yes == no:
        raise Unsupported("%s: `%s` does not depend on the parent" % (where, _src(inner.test)))
    with_parent, parentless = (inner.body, inner.orelse) if yes else (inner.orelse, inner.body)
    if not with_parent or not parentless:
        raise Unsupported("%s: the parent test lacks one of its two branches" % where)
    ctab = {"len(kids($self))": ("n", "nkids")}
    # --- self has a parent
    e1 = Env(where)
    e1.map = dict(env.map)
    u = first_if(with_parent, e1, where + " (node with parent)")
    if u.orelse or [s for s in with_parent if s is not u and not is_inert(s)]:
        raise Unsupported("%s: the branch for a node with a parent is not a single `if len(children) == k:`" % where)
    unary = count_eq(u.test, e1, ctab, where + " (node with parent)")
    # --- self is parentless
    e2 = Env(where)
    e2.map = dict(env.map)
    calls = [n for s in parentless for n in ast.walk(s)
             if isinstance(n, ast.Call) and isinstance(n.func, ast.Attribute) and n.func.attr == "remove_child" and is_self(n.func.value)]
    if len(calls) != 1 or not calls[0].args or not isinstance(calls[0].args[0], ast.Name):
        raise Unsupported("%s: expected one `self.remove_child(<name>, ...)` in the parentless branch" % where)
    var = calls[0].args[0].id
    init = False
    cnt = None
    for s in parentless:
        if isinstance(s, ast.If):
            cnt = s
            break
        if isinstance(s, ast.Assign) and len(s.targets) == 1 and isinstance(s.targets[0], ast.Name) and s.targets[0].id == var:
            init = isinstance(s.value, ast.Constant) and s.value.value is None
        if not is_inert(s):
            raise Unsupported("%s: statement `%s` before the count test of the parentless branch" % (where, _src(s)[:60]))
        advance(e2, s)
    if cnt is None or not init:
        raise Unsupported("%s: parentless branch is not `%s = None; if len(children) == k: ...`" % (where, var))
    if cnt.orelse:
        raise Unsupported("%s: the count test of the parentless branch has an else branch" % where)
    rootcount = count_eq(cnt.test, e2, ctab, where + " (parentless node)")
    itab = {}
    for k in (0, 1):
        itab["internal(kids($self)[%d])" % k] = ("b", B("internal%d" % k))
        itab["leaf(kids($self)[%d])" % k] = ("b", NOT(B("internal%d" % k)))

    def chain(stmts):
        body = [s for s in stmts if not _is_doc(s) and not isinstance(s, ast.Pass)]
        if not body:
            return "0"
        if len(body) == 1 and isinstance(body[0], ast.If):
            s = body[0]
            x = boolean(s.test, e2, itab)
            return "if %s then %s else %s" % (lean(x), chain(s.body), chain(s.orelse))
        idx = _pair_index(body, var, "kids($self)", e2, where)
        return "0" if idx is None else str(idx + 1)
    choice = chain(cnt.body)
    # after the count test: the chosen node is removed only under `if <var> is not None:`
    after = parentless[parentless.index(cnt) + 1:]
    ok = len(after) == 1 and isinstance(after[0], ast.If) and not after[0].orelse and any(n is calls[0] for n in ast.walk(after[0]))
    if ok:
        t = boolean(after[0].test, Env(where), {"isNone($%s)" % var: ("b", B("unset")), "$%s" % var: ("b", NOT(B("unset")))})
        ok = evaluate(t, {"unset": False}, []) and not evaluate(t, {"unset": True}, [])
    if not ok:
        raise Unsupported("%s: the parentless branch does not end with `if %s is not None: ... self.remove_child(%s, ...)`" % (where, var, var))
    return ["/-- `%s(node, suppress_unifurcations=True)`, `self` has a parent: it is replaced by its child when exactly this many children are left -/" % where,
            "def removeUnaryCount : Nat := %d" % unary,
            "/-- the same, `self` parentless: one child is dissolved when exactly this many children are left -/",
            "def removeRootCount : Nat := %d" % rootcount,
            "/-- which of the two children is dissolved (`%s`): 0 none, 1 the first, 2 the second; internalK = `children[K].is_internal()` -/" % var,
            "def removeRootChoice (internal0 internal1 : Bool) : Nat := %s" % choice]


# ------------------------------------------------------------------------------------------------ K5
def _loop_first_if(fn, method, where):
    loops = paths_to(fn.body, lambda s: loop_over(s, method) is not None)
    if len(loops) != 1:
        raise Unsupported("%s: expected exactly one `for ... in self.%s()`, found %d" % (where, method, len(loops)))
    path = loops[0]
    loop = path[-1][0][path[-1][1]]
    ifs = [i for i, s in enumerate(loop.body) if isinstance(s, ast.If)]
    if not ifs:
        raise Unsupported("%s: no `if` in the loop over %s" % (where, method))
    path = path + ((loop.body, ifs[0]),)
    for s in loop.body[:ifs[0]]:
        if not is_inert(s):
            raise Unsupported("%s: statement `%s` before the first `if` of the loop" % (where, _src(s)[:60]))
    return loop.target.id, loop.body[ifs[0]], env_along(path, where)


def k5_unifurcations(tree):
    where = "Tree.suppress_unifurcations"
    nd, target, env = _loop_first_if(find_function(tree, where), "postorder_node_iter", where)
    sup = count_eq(target.test, env, {"len(kids($%s))" % nd: ("n", "nkids")}, where)
    out = ["/-- `%s`: a node is removed when it has exactly this many children (`%s`) -/" % (where, _src(target.test)),
           "def supCount : Nat := %d" % sup]
    where = "Tree.encode_bipartitions"
    fn = find_function(tree, where)
    need_params(fn, ["suppress_unifurcations"], where)
    ed, target, env = _loop_first_if(fn, "postorder_edge_iter", where)
    x = boolean(target.test, env, {"len(kids(head($%s)))" % ed: ("n", "nkids"), "$suppress_unifurcations": ("b", B("suppress"))})
    out += ["/-- `%s`: the test under which the head node of an edge is removed as a unifurcation (`%s`) -/" % (where, _src(target.test)),
            "def encodeSupGuard (nkids : Nat) (suppress : Bool) : Bool := %s" % lean(x)]
    return out


# ------------------------------------------------------------------------------------------------ K6
def k6_resolve(tree):
    where = "Tree.resolve_polytomies"
    fn = find_function(tree, where)
    need_params(fn, ["limit"], where)
    nd, target, env = _loop_first_if(fn, "postorder_node_iter", where)
    x1 = boolean(target.test, env, {"len(kids($%s))" % nd: ("n", "nkids"), "$limit": ("n", "limit")})

    def pred(s):
        return isinstance(s, ast.While) and any(isinstance(n, ast.Name) and n.id == "limit" for n in ast.walk(s.test))
    path = unique_path(fn, pred, "`while` whose test mentions `limit`", where)
    w = path[-1][0][path[-1][1]]
    fors = [stmts[i] for stmts, i in path[:-1] if isinstance(stmts[i], ast.For)]
    if len(fors) != 1 or not isinstance(fors[0].target, ast.Name):
        raise Unsupported("%s: the `while` is not inside exactly one `for <name> in ...`" % where)
    # evaluated again after every round of its own body
    env2 = env_along(path, where)
    enter(env2, w)
    x2 = boolean(w.test, env2, {"len(kids($%s))" % fors[0].target.id: ("n", "nkids"), "$limit": ("n", "limit")})
    if lean(x1) != lean(x2):
        raise Unsupported("%s: the test that selects a polytomy `%s` and the loop test `%s` differ" % (where, _src(target.test), _src(w.test)))
    d = default_of(fn, "limit", where)
    if not (isinstance(d, ast.Constant) and isinstance(d.value, int) and not isinstance(d.value, bool) and d.value >= 0):
        raise Unsupported("%s: default limit is not a natural-number literal" % where)
    return ["/-- `%s`: a node is selected, and pairs of its children keep being joined, while `%s` -/" % (where, _src(target.test)),
            "def resolveGuard (nkids limit : Nat) : Bool := %s" % lean(x1),
            "/-- default `limit` -/",
            "def defaultLimit : Nat := %d" % d.value]


# ------------------------------------------------------------------------------------------------ entry point
def generate(repo):
    sources = {}
    trees = {}
    for p in (TREE_PY, NODE_PY, EDGE_PY):
        with open(os.path.join(repo, p)) as f:
            sources[p] = f.read()
        trees[p] = ast.parse(sources[p])
    out = ["/-! Decision kernels of the restructuring code anchored by C03, as they stand in the current source.",
           "Parameters are the atoms named in each docstring; Boolean structure, comparison operators and constants are the source's. -/",
           "namespace DendroModel.C03Guards", ""]
    for part in (k0_predicates(trees[NODE_PY], trees[EDGE_PY]),
                 k1_collapse_unweighted(trees[TREE_PY], trees[EDGE_PY], sources[TREE_PY]),
                 k2_guards(trees[TREE_PY]),
                 k3_basal_choice(trees[TREE_PY]),
                 k4_remove_child(trees[NODE_PY]),
                 k5_unifurcations(trees[TREE_PY]),
                 k6_resolve(trees[TREE_PY])):
        out += part + [""]
    out.append("end DendroModel.C03Guards")
    return "\n".join(out) + "\n"
