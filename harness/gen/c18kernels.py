"""Gen/C18Kernels.lean: the closed-form kernels of the tree simulators, read off the CURRENT source (tie A of C18).

Regenerated from model/birthdeath.py, model/coalescent.py, calculate/probability.py, calculate/combinatorics.py:
  birth_death_tree          bdRate (argument of expovariate = sum of the event rates), bdEventSlots (order of the rate / event
                            slots), bdDaughter + bdGaussOrder (daughter rates, order of the gauss draws), bdStopExtant /
                            bdStopExtinct / bdStopTotal / bdStopTime / bdEventAllowed (thresholds), bdGsaRefuse
  fast_birth_death_tree     fbdRate (n * (birth + death)), fbdBirthTest (random() < birth / (birth + death)), fbdPickLo / fbdPickHi
                            (randint bounds), fbdStop* / fbdEventAllowed
  discrete_birth_death_tree dbdBirth, dbdDeath, dbdTailStop (thresholds on the uniform draw), dbdGrow, dbdUniformLo/Hi
  uniform_pure_birth_tree   pbRate (leaves / birth_rate; both call sites must agree), pbContinue
  time_to_coalescence       coalRate (choose(n_genes, n_to_coalesce)), coalDefaultK, coalTime (tmrca * time_units), coalTimeUnits
  expected_tmrca            expTmrca, expTmrcaNone
  coalesce_nodes            coalContinue, coalWithin, coalRemain, coalPad, coalSampleSize, coalPoolArg
  combinatorics.choose      choose2Table (the function itself, executed on 0..40 choose 2: a regenerated literal table)
  weighted_index_choice     wicInit, wicSub, wicHit

How: every kernel is an arithmetic expression / comparison over named leaves; single-assignment straight-line temporaries are
inlined, `float(.)` is dropped, either operand order of a comparison is accepted.  Values are exact fractions `(num, den)` of
`Int` polynomials (the model computes in integer units), comparisons of fractions go through `fracLt` / `fracLe`, which are
correct for denominators of either sign.  A commuted / re-associated formula gives another text whose bridge theorem
(Props/C18.lean, `grind` / `simp` / `decide`) still holds; a changed formula breaks the bridge.  Anything outside the subset raises
`Unsupported`, never a guess."""
import ast
import os
from fractions import Fraction

from extract import Unsupported, find_function

NAME = "C18Kernels"

ONE = "1"


def _dump(n):
    try:
        return ast.unparse(n)[:120]
    except Exception:   # noqa
        return ast.dump(n)[:120]


def _mul(a, b):
    if a == ONE:
        return b
    if b == ONE:
        return a
    return "(%s * %s)" % (a, b)


def _lit(k):
    return "(%d : Int)" % k if k != 1 else ONE


class Ev(object):
    """symbolic evaluation of a numeric expression to a fraction (num, den) of Lean `Int` terms"""

    def __init__(self, fn, leaves, funcs=None):
        self.leaves = dict(leaves)
        self.funcs = funcs or {}
        self.temps = {}
        counts = {}
        if fn is not None:
            for n in ast.walk(fn):
                targets = []
                if isinstance(n, ast.Assign):
                    targets = n.targets
                elif isinstance(n, (ast.AugAssign, ast.AnnAssign)):
                    targets = [n.target]
                elif isinstance(n, ast.For):
                    targets = [n.target]
                for t in targets:
                    for m in ast.walk(t):
                        if isinstance(m, ast.Name):
                            counts[m.id] = counts.get(m.id, 0) + 1
            for n in ast.walk(fn):
                if isinstance(n, ast.Assign) and len(n.targets) == 1 and isinstance(n.targets[0], ast.Name) \
                        and counts.get(n.targets[0].id) == 1:
                    self.temps[n.targets[0].id] = n.value
            for a in fn.args.args:
                self.temps.pop(a.arg, None)

    def ev(self, e, depth=0):
        if depth > 20:
            raise Unsupported("temporaries nest too deeply at %s" % _dump(e))
        k = ast.unparse(e)
        if k in self.leaves:
            return self.leaves[k]
        if isinstance(e, ast.Name) and e.id in self.temps:
            return self.ev(self.temps[e.id], depth + 1)
        if isinstance(e, ast.Constant) and isinstance(e.value, (int, float)) and not isinstance(e.value, bool):
            f = Fraction(e.value)
            return (_lit(f.numerator), _lit(f.denominator))
        if isinstance(e, ast.UnaryOp) and isinstance(e.op, ast.USub):
            n, d = self.ev(e.operand, depth + 1)
            return ("(- %s)" % n, d)
        if isinstance(e, ast.UnaryOp) and isinstance(e.op, ast.UAdd):
            return self.ev(e.operand, depth + 1)
        if isinstance(e, ast.BinOp):
            an, ad = self.ev(e.left, depth + 1)
            bn, bd = self.ev(e.right, depth + 1)
            if isinstance(e.op, (ast.Add, ast.Sub)):
                op = "+" if isinstance(e.op, ast.Add) else "-"
                if ad == bd:
                    return ("(%s %s %s)" % (an, op, bn), ad)
                return ("(%s %s %s)" % (_mul(an, bd), op, _mul(bn, ad)), _mul(ad, bd))
            if isinstance(e.op, ast.Mult):
                return (_mul(an, bn), _mul(ad, bd))
            if isinstance(e.op, ast.Div):
                return (_mul(an, bd), _mul(ad, bn))
            raise Unsupported("operator in %s" % _dump(e))
        if isinstance(e, ast.Call) and not e.keywords:
            f = ast.unparse(e.func)
            if f == "float" and len(e.args) == 1:
                return self.ev(e.args[0], depth + 1)
            if f in self.funcs:
                args = []
                for a in e.args:
                    n, d = self.ev(a, depth + 1)
                    if d != ONE:
                        raise Unsupported("fractional argument of %s" % f)
                    args.append(n)
                return ("(%s %s)" % (self.funcs[f], " ".join(args)), ONE)
        raise Unsupported("expression outside the arithmetic subset: %s" % _dump(e))

    def pair(self, e):
        n, d = self.ev(e)
        return "(%s, %s)" % (n, d)

    def cmp(self, e):
        """a comparison (or and/or of comparisons) -> Lean Bool term"""
        if isinstance(e, ast.BoolOp):
            return "(" + (" && " if isinstance(e.op, ast.And) else " || ").join(self.cmp(v) for v in e.values) + ")"
        if isinstance(e, ast.Compare) and len(e.ops) == 1:
            (an, ad), (bn, bd) = self.ev(e.left), self.ev(e.comparators[0])
            op = type(e.ops[0])
            if ad == ONE and bd == ONE:
                sym = {ast.Lt: "<", ast.LtE: "≤", ast.Gt: ">", ast.GtE: "≥"}.get(op)
                if sym is None:
                    raise Unsupported("comparison operator in %s" % _dump(e))
                return "(decide (%s %s %s))" % (an, sym, bn)
            if op is ast.Lt:
                return "(fracLt %s %s %s %s)" % (an, ad, bn, bd)
            if op is ast.Gt:
                return "(fracLt %s %s %s %s)" % (bn, bd, an, ad)
            if op is ast.LtE:
                return "(fracLe %s %s %s %s)" % (an, ad, bn, bd)
            if op is ast.GtE:
                return "(fracLe %s %s %s %s)" % (bn, bd, an, ad)
        raise Unsupported("test outside the comparison subset: %s" % _dump(e))


def _is_none_test(e, positive):
    """`X is None` (positive) / `X is not None` -> name of X"""
    if isinstance(e, ast.Compare) and len(e.ops) == 1 and isinstance(e.comparators[0], ast.Constant) and e.comparators[0].value is None:
        if isinstance(e.ops[0], ast.Is if positive else ast.IsNot):
            return ast.unparse(e.left)
    return None


def _calls(fn, text):
    return [n for n in ast.walk(fn) if isinstance(n, ast.Call) and ast.unparse(n.func) == text]


def _one(xs, what):
    if len(xs) != 1:
        raise Unsupported("expected exactly one %s, found %d" % (what, len(xs)))
    return xs[0]


def _ends_with_break(body):
    return bool(body) and isinstance(body[-1], ast.Break)


# ------------------------------------------------------------------------------------------------ birth-death loops
def _stop_tests(fn, prefix, out):
    guards = {"target_num_extant_tips": "StopExtant", "target_num_extinct_tips": "StopExtinct",
              "target_num_total_tips": "StopTotal", "max_time": "StopTime"}
    sig = {"StopExtant": "(a k : Int)", "StopExtinct": "(x k : Int)", "StopTotal": "(a x k : Int)", "StopTime": "(t m : Int)"}
    ev = Ev(None, {"len(extant_tips)": ("a", ONE), "len(extinct_tips)": ("x", ONE), "total_time": ("t", ONE), "max_time": ("m", ONE),
                   "target_num_extant_tips": ("k", ONE), "target_num_extinct_tips": ("k", ONE), "target_num_total_tips": ("k", ONE)})
    loop = _one([n for n in fn.body if isinstance(n, ast.While)], "top-level while loop in %s" % fn.name)
    head = [n for n in loop.body if isinstance(n, ast.If) and _is_none_test(n.test, True) == "gsa_ntax"]
    blk = _one(head, "`if gsa_ntax is None` block in %s" % fn.name)
    found = {}
    for s in blk.body:
        if not (isinstance(s, ast.If) and _ends_with_break(s.body) and not s.orelse):
            raise Unsupported("%s: statement other than a guarded break among the termination tests: %s" % (fn.name, _dump(s)))
        t = s.test
        if not (isinstance(t, ast.BoolOp) and isinstance(t.op, ast.And) and len(t.values) == 2):
            raise Unsupported("%s: termination test is not `X is not None and <comparison>`: %s" % (fn.name, _dump(t)))
        g = _is_none_test(t.values[0], False)
        if g not in guards or guards[g] in found:
            raise Unsupported("%s: unknown / repeated termination guard %s" % (fn.name, g))
        found[guards[g]] = ev.cmp(t.values[1])
    if set(found) != set(guards.values()):
        raise Unsupported("%s: termination tests %s" % (fn.name, sorted(found)))
    for k in ("StopExtant", "StopExtinct", "StopTotal", "StopTime"):
        out.append("def %s%s %s : Bool := %s" % (prefix, k, sig[k], found[k]))
    # the GSA branch of the head: `elif len(extant_tips) >= gsa_ntax: break`
    if not (len(blk.orelse) == 1 and isinstance(blk.orelse[0], ast.If) and _ends_with_break(blk.orelse[0].body)):
        raise Unsupported("%s: the gsa branch of the loop head" % fn.name)
    evg = Ev(None, {"len(extant_tips)": ("a", ONE), "gsa_ntax": ("g", ONE)})
    out.append("def %sStopGsa (a g : Int) : Bool := %s" % (prefix, evg.cmp(blk.orelse[0].test)))
    allowed = []
    for n in ast.walk(loop):
        if isinstance(n, ast.If) and isinstance(n.test, ast.BoolOp) and isinstance(n.test.op, ast.Or) and len(n.test.values) == 2 \
                and _is_none_test(n.test.values[0], True) == "max_time":
            allowed.append(n)
    a = _one(allowed, "`if max_time is None or ...` in %s" % fn.name)
    out.append("def %sEventAllowed (t m : Int) : Bool := %s" % (prefix, ev.cmp(a.test.values[1])))


def _birth_death(fn, out):
    call = _one(_calls(fn, "rng.expovariate"), "rng.expovariate call in birth_death_tree")
    ev = Ev(fn, {"sum(event_rates)": ("S", ONE)})
    out.append("/-- birth_death_tree: the argument of `rng.expovariate`, `S` = sum of the event rates -/")
    out.append("def bdRate (S : Int) : Int × Int := %s" % ev.pair(_one(call.args, "argument")))
    # order of the slots of event_rates / event_nodes
    slots = []
    for loop in ast.walk(fn):
        if isinstance(loop, ast.For) and ast.unparse(loop.iter) == "extant_tips" and any(
                isinstance(n, ast.Call) and ast.unparse(n.func) == "event_rates.append" for n in ast.walk(loop)):
            rates = [n for n in ast.walk(loop) if isinstance(n, ast.Call) and ast.unparse(n.func) == "event_rates.append"]
            nodes = [n for n in ast.walk(loop) if isinstance(n, ast.Call) and ast.unparse(n.func) == "event_nodes.append"]
            rates.sort(key=lambda n: (n.lineno, n.col_offset))
            nodes.sort(key=lambda n: (n.lineno, n.col_offset))
            if len(rates) != len(nodes):
                raise Unsupported("birth_death_tree: event_rates / event_nodes are not filled in step")
            var = ast.unparse(loop.target)
            for r, n in zip(rates, nodes):
                a = ast.unparse(_one(r.args, "argument of event_rates.append"))
                if a not in (var + ".birth_rate", var + ".death_rate"):
                    raise Unsupported("birth_death_tree: event rate %s" % a)
                t = _one(n.args, "argument of event_nodes.append")
                if not (isinstance(t, ast.Tuple) and len(t.elts) == 2 and ast.unparse(t.elts[0]) == var
                        and isinstance(t.elts[1], ast.Constant) and isinstance(t.elts[1].value, bool)):
                    raise Unsupported("birth_death_tree: event node %s" % _dump(t))
                slots.append((a.endswith(".birth_rate"), t.elts[1].value))
    if not slots:
        raise Unsupported("birth_death_tree: the loop filling event_rates was not found")
    out.append("/-- birth_death_tree: per extant tip, the slots of `event_rates` in order: (is the birth rate, is a birth event) -/")
    out.append("def bdEventSlots : List (Bool × Bool) := [%s]" % ", ".join(
        "(%s, %s)" % (str(a).lower(), str(b).lower()) for a, b in slots))
    # daughters
    daughters = []
    for n in ast.walk(fn):
        if isinstance(n, ast.Assign) and len(n.targets) == 1 and isinstance(n.targets[0], ast.Attribute) \
                and n.targets[0].attr in ("birth_rate", "death_rate") and _calls(n, "rng.gauss"):
            daughters.append(n)
    daughters.sort(key=lambda n: n.lineno)
    order, forms = [], set()
    for n in daughters:
        tgt = n.targets[0]
        who = ast.unparse(tgt.value)
        if who not in ("c1", "c2"):
            raise Unsupported("birth_death_tree: daughter %s" % who)
        g = _one(_calls(n, "rng.gauss"), "gauss call")
        if len(g.args) != 2 or ast.unparse(g.args[0]) != "0" or ast.unparse(g.args[1]) != tgt.attr + "_sd":
            raise Unsupported("birth_death_tree: %s" % _dump(g))
        e = Ev(None, {"nd." + tgt.attr: ("r", ONE), ast.unparse(g): ("g", ONE)})
        forms.add(e.pair(n.value))
        order.append("(%d, %s)" % (int(who[1]), "true" if tgt.attr == "birth_rate" else "false"))
    if len(forms) != 1 or len(order) != 4:
        raise Unsupported("birth_death_tree: daughter rates %s %s" % (sorted(forms), order))
    out.append("/-- birth_death_tree: a daughter's rate from the parent's rate `r` and the gauss draw `g` -/")
    out.append("def bdDaughter (r g : Int) : Int × Int := %s" % forms.pop())
    out.append("/-- birth_death_tree: order of the four gauss draws: (daughter, is the birth rate) -/")
    out.append("def bdGaussOrder : List (Nat × Bool) := [%s]" % ", ".join(order))
    _stop_tests(fn, "bd", out)
    refuse = []
    for n in ast.walk(fn):
        if isinstance(n, ast.If) and isinstance(n.test, ast.Compare) and n.body and isinstance(n.body[0], ast.Raise):
            names = {m.id for m in ast.walk(n.test) if isinstance(m, ast.Name)}
            if names == {"gsa_ntax", "target_num_extant_tips"}:
                refuse.append(n)
    r = _one(refuse, "gsa_ntax / num_extant_tips argument check")
    out.append("/-- birth_death_tree: `gsa_ntax` is refused -/")
    out.append("def bdGsaRefuse (g n : Int) : Bool := %s" % Ev(None, {"gsa_ntax": ("g", ONE), "target_num_extant_tips": ("n", ONE)}).cmp(r.test))


def _fast_birth_death(fn, out):
    call = _one(_calls(fn, "rng.expovariate"), "rng.expovariate call in fast_birth_death_tree")
    leaves = {"len(extant_tips)": ("n", ONE), "birth_rate": ("b", ONE), "death_rate": ("d", ONE), "rng.random()": ("p", "q")}
    ev = Ev(fn, leaves)
    out.append("/-- fast_birth_death_tree: the argument of `rng.expovariate` -/")
    out.append("def fbdRate (n b d : Int) : Int × Int := %s" % ev.pair(_one(call.args, "argument")))
    tests = []
    for n in ast.walk(fn):
        if isinstance(n, ast.If) and _calls(n.test, "rng.random"):
            sets = [m for m in n.body if isinstance(m, ast.Assign) and ast.unparse(m.targets[0]) == "birth_event"
                    and isinstance(m.value, ast.Constant) and m.value.value is True]
            unsets = [m for m in n.orelse if isinstance(m, ast.Assign) and ast.unparse(m.targets[0]) == "birth_event"
                      and isinstance(m.value, ast.Constant) and m.value.value is False]
            if sets and unsets:
                tests.append(n.test)
        if isinstance(n, ast.Assign) and ast.unparse(n.targets[0]) == "birth_event" and _calls(n.value, "rng.random"):
            tests.append(n.value)
    out.append("/-- fast_birth_death_tree: the event is a birth; `p/q` = the uniform draw -/")
    out.append("def fbdBirthTest (p q b d : Int) : Bool := %s" % ev.cmp(_one(tests, "birth/death decision on rng.random()")))
    ri = _one(_calls(fn, "rng.randint"), "rng.randint call in fast_birth_death_tree")
    if len(ri.args) != 2:
        raise Unsupported("randint arguments")
    lo, hi = ev.ev(ri.args[0]), ev.ev(ri.args[1])
    if lo[1] != ONE or hi[1] != ONE:
        raise Unsupported("fractional randint bound")
    out.append("/-- fast_birth_death_tree: bounds (inclusive) of the index draw -/")
    out.append("def fbdPickLo (n : Int) : Int := %s" % lo[0])
    out.append("def fbdPickHi (n : Int) : Int := %s" % hi[0])
    _stop_tests(fn, "fbd", out)


def _discrete(fn, out):
    leaves = {"u": ("p", "q"), "nd.birth_rate": ("b", "rs"), "nd.death_rate": ("d", "rs"), "birth_rate": ("b", "rs"), "death_rate": ("d", "rs")}
    ev = Ev(None, leaves)
    chains = []
    for n in ast.walk(fn):
        if isinstance(n, ast.For) and ast.unparse(n.iter) == "leaf_nodes":
            for s in n.body:
                if isinstance(s, ast.If) and "u" in {m.id for m in ast.walk(s.test) if isinstance(m, ast.Name)}:
                    chains.append(s)
    c = _one(chains, "birth / death decision in discrete_birth_death_tree")
    if not (len(c.orelse) == 1 and isinstance(c.orelse[0], ast.If) and not c.orelse[0].orelse):
        raise Unsupported("discrete_birth_death_tree: decision is not if / elif")
    if not any(isinstance(m, ast.Call) and ast.unparse(m.func).endswith("new_child") for s in c.body for m in ast.walk(s)):
        raise Unsupported("discrete_birth_death_tree: the first branch is not the birth")
    out.append("/-- discrete_birth_death_tree: `p/q` = the uniform draw, rates `b/rs`, `d/rs` -/")
    out.append("def dbdBirth (p q b d rs : Int) : Bool := %s" % ev.cmp(c.test))
    out.append("def dbdDeath (p q b d rs : Int) : Bool := %s" % ev.cmp(c.orelse[0].test))
    tails = []
    for n in ast.walk(fn):
        if isinstance(n, ast.While) and any(isinstance(m, ast.AugAssign) and ast.unparse(m.target) == "gens_to_add" for m in ast.walk(n)):
            for s in n.body:
                if isinstance(s, ast.If) and _ends_with_break(s.body):
                    tails.append(s.test)
    out.append("def dbdTailStop (p q b d rs : Int) : Bool := %s" % ev.cmp(_one(tails, "stop test of the trailing generations loop")))
    grow = [n for n in ast.walk(fn) if isinstance(n, ast.AugAssign) and ast.unparse(n.target) == "nd.edge.length" and isinstance(n.op, ast.Add)
            and isinstance(n.value, ast.Constant)]
    out.append("/-- discrete_birth_death_tree: growth of a leaf edge per generation -/")
    out.append("def dbdGrow : Int := %d" % _one(grow, "`nd.edge.length += <constant>`").value.value)
    us = _calls(fn, "rng.uniform")
    if not us or any(len(u.args) != 2 or not all(isinstance(a, ast.Constant) for a in u.args) for u in us) or \
            len({(u.args[0].value, u.args[1].value) for u in us}) != 1:
        raise Unsupported("discrete_birth_death_tree: rng.uniform bounds")
    out.append("def dbdUniformLo : Int := %d" % us[0].args[0].value)
    out.append("def dbdUniformHi : Int := %d" % us[0].args[1].value)


def _pure_birth(fn, out):
    calls = _calls(fn, "rng.expovariate")
    ev = Ev(fn, {"len(leaf_nodes)": ("n", ONE), "birth_rate": ("b", ONE), "len(taxon_namespace)": ("m", ONE)})
    forms = {ev.pair(_one(c.args, "argument")) for c in calls}
    if len(calls) != 2 or len(forms) != 1:
        raise Unsupported("uniform_pure_birth_tree: expovariate call sites %s" % sorted(forms))
    out.append("/-- uniform_pure_birth_tree: the argument of `rng.expovariate` (both call sites) -/")
    out.append("def pbRate (n b : Int) : Int × Int := %s" % forms.pop())
    loop = _one([n for n in fn.body if isinstance(n, ast.While)], "while loop in uniform_pure_birth_tree")
    out.append("def pbContinue (n m : Int) : Bool := %s" % ev.cmp(loop.test))


def _time_units(fn, what):
    """`if not pop_size: time_units = 1.0 else: time_units = pop_size` (either polarity)"""
    for n in ast.walk(fn):
        if isinstance(n, ast.If) and len(n.body) == 1 and len(n.orelse) == 1 and all(
                isinstance(s, ast.Assign) and ast.unparse(s.targets[0]) == "time_units" for s in (n.body[0], n.orelse[0])):
            a, b = n.body[0].value, n.orelse[0].value
            if isinstance(n.test, ast.UnaryOp) and isinstance(n.test.op, ast.Not) and ast.unparse(n.test.operand) == "pop_size":
                zero, other = a, b
            elif ast.unparse(n.test) == "pop_size":
                zero, other = b, a
            else:
                continue
            if not (isinstance(zero, ast.Constant) and ast.unparse(other) == "pop_size"):
                raise Unsupported("%s: time_units branches" % what)
            return Fraction(zero.value)
    raise Unsupported("%s: the time_units rule was not found" % what)


def _coalescent(tree, out):
    fn = find_function(tree, "time_to_coalescence")
    call = _one(_calls(fn, "rng.expovariate"), "rng.expovariate call in time_to_coalescence")
    funcs = {"combinatorics.choose": "choose"}
    ev = Ev(fn, {"n_genes": ("n", ONE), "n_to_coalesce": ("k", ONE), "time_units": ("u", ONE)}, funcs)
    out.append("/-- time_to_coalescence: the argument of `rng.expovariate` (`choose` = combinatorics.choose) -/")
    out.append("def coalRate (choose : Int → Int → Int) (n k : Int) : Int × Int := %s" % ev.pair(_one(call.args, "argument")))
    names = [a.arg for a in fn.args.args]
    dflt = dict(zip(names[len(names) - len(fn.args.defaults):], fn.args.defaults))
    if "n_to_coalesce" not in dflt or not isinstance(dflt["n_to_coalesce"], ast.Constant):
        raise Unsupported("time_to_coalescence: default of n_to_coalesce")
    out.append("def coalDefaultK : Int := %d" % dflt["n_to_coalesce"].value)
    ret = _one([n for n in ast.walk(fn) if isinstance(n, ast.Return)], "return in time_to_coalescence")
    evr = Ev(fn, {ast.unparse(call): ("w", ONE), "time_units": ("u", ONE)}, funcs)
    out.append("/-- time_to_coalescence: the returned time from the exponential draw `w` and `time_units` `u` -/")
    out.append("def coalTime (w u : Int) : Int × Int := %s" % evr.pair(ret.value))
    z = _time_units(fn, "time_to_coalescence")
    out.append("/-- time_to_coalescence: `time_units` (a falsy population size counts as `%s`) -/" % z)
    out.append("def coalTimeUnits (pop : Int) : Int × Int := if pop = 0 then (%s, %s) else (pop, 1)" % (_lit(z.numerator), _lit(z.denominator)))

    fe = find_function(tree, "expected_tmrca")
    eve = Ev(fe, {"n_genes": ("n", ONE), "n_to_coalesce": ("k", ONE), "pop_size": ("pop", ONE)}, funcs)
    gate = _one([n for n in fe.body if isinstance(n, ast.If) and _is_none_test(n.test, False) == "pop_size"], "`if pop_size is not None` in expected_tmrca")
    r1 = _one([s for s in gate.body if isinstance(s, ast.Return)], "return")
    r2 = _one([s for s in gate.orelse if isinstance(s, ast.Return)], "return")
    out.append("/-- expected_tmrca with / without a population size -/")
    out.append("def expTmrca (choose : Int → Int → Int) (n k pop : Int) : Int × Int := %s" % eve.pair(r1.value))
    out.append("def expTmrcaNone (choose : Int → Int → Int) (n k : Int) : Int × Int := %s" % eve.pair(r2.value))

    fc = find_function(tree, "coalesce_nodes")
    evc = Ev(None, {"len(nodes)": ("n", ONE), "tmrca": ("t", ONE), "time_remaining": ("r", ONE)})
    loop = _one([n for n in fc.body if isinstance(n, ast.While)], "while loop in coalesce_nodes")
    out.append("/-- coalesce_nodes: loop test, period test, remaining time, final padding test -/")
    out.append("def coalContinue (n : Int) : Bool := %s" % evc.cmp(loop.test))
    within = [n for n in loop.body if isinstance(n, ast.If) and isinstance(n.test, ast.BoolOp) and isinstance(n.test.op, ast.Or)
              and _is_none_test(n.test.values[0], True) == "time_remaining"]
    w = _one(within, "`if time_remaining is None or ...`")
    if len(w.test.values) != 2 or not (w.orelse and isinstance(w.orelse[-1], ast.Break)):
        raise Unsupported("coalesce_nodes: the period test")
    out.append("def coalWithin (t r : Int) : Bool := %s" % evc.cmp(w.test.values[1]))
    rem = [n for n in ast.walk(w) if isinstance(n, ast.Assign) and ast.unparse(n.targets[0]) == "time_remaining"]
    out.append("def coalRemain (r t : Int) : Int × Int := %s" % evc.pair(_one(rem, "update of time_remaining").value))
    pads = [n for n in fc.body if isinstance(n, ast.If) and isinstance(n.test, ast.BoolOp) and isinstance(n.test.op, ast.And)
            and _is_none_test(n.test.values[0], False) == "time_remaining"]
    p = _one(pads, "`if time_remaining is not None and ...`")
    out.append("def coalPad (r : Int) : Bool := %s" % evc.cmp(p.test.values[1]))
    s = _one(_calls(fc, "rng.sample"), "rng.sample call in coalesce_nodes")
    if len(s.args) != 2 or ast.unparse(s.args[0]) != "nodes" or not isinstance(s.args[1], ast.Constant):
        raise Unsupported("coalesce_nodes: rng.sample arguments")
    out.append("def coalSampleSize : Int := %d" % s.args[1].value)
    t = _one(_calls(fc, "time_to_coalescence"), "time_to_coalescence call in coalesce_nodes")
    kw = dict((k.arg, ast.unparse(k.value)) for k in t.keywords)
    if [ast.unparse(a) for a in t.args] != ["len(nodes)"] or kw != {"pop_size": "pop_size", "rng": "rng"}:
        raise Unsupported("coalesce_nodes: arguments of time_to_coalescence: %s" % _dump(t))
    x = _one(_calls(fc, "expected_tmrca"), "expected_tmrca call in coalesce_nodes")
    kx = dict((k.arg, ast.unparse(k.value)) for k in x.keywords)
    if [ast.unparse(a) for a in x.args] != ["len(nodes)"] or kx != {"pop_size": "pop_size"}:
        raise Unsupported("coalesce_nodes: arguments of expected_tmrca: %s" % _dump(x))
    out.append("/-- coalesce_nodes: both time sources are called with the current pool size and the default `n_to_coalesce` -/")
    out.append("def coalPoolArg : Bool := true")


def _choose_table(tree, out):
    fn = find_function(tree, "choose")
    mod = ast.Module(body=[fn], type_ignores=[])
    ns = {}
    exec(compile(mod, "<combinatorics.choose>", "exec"), ns)     # the function's own source, nothing else of the module
    vals = []
    for k in range(41):
        f = Fraction(ns["choose"](k, 2))
        if f.denominator != 1:
            raise Unsupported("choose(%d, 2) = %s is not an integer" % (k, f))
        vals.append(f.numerator)
    out.append("/-- combinatorics.choose(k, 2) for k = 0..40, computed by the function's current source -/")
    out.append("def choose2Table : List Int := [%s]" % ", ".join(str(v) for v in vals))


def _wic(fn, out):
    init = [n for n in ast.walk(fn) if isinstance(n, ast.Assign) and ast.unparse(n.targets[0]) == "rnd"]
    ev = Ev(None, {"rng.random()": ("p", "q"), "sum(weights)": ("S", ONE), "rnd": ("rn", "rd"), "w": ("w", ONE)})
    out.append("/-- weighted_index_choice: start value, one subtraction, the hit test (`rn/rd` = the running remainder) -/")
    out.append("def wicInit (p q S : Int) : Int × Int := %s" % ev.pair(_one(init, "initialisation of rnd").value))
    loop = _one([n for n in fn.body if isinstance(n, ast.For)], "for loop in weighted_index_choice")
    if ast.unparse(loop.iter) != "enumerate(weights)" or ast.unparse(loop.target) != "(i, w)":
        raise Unsupported("weighted_index_choice: loop header %s" % _dump(loop))
    sub = _one([n for n in loop.body if isinstance(n, ast.AugAssign) and ast.unparse(n.target) == "rnd"], "update of rnd")
    if not isinstance(sub.op, (ast.Sub, ast.Add)):
        raise Unsupported("weighted_index_choice: update of rnd")
    out.append("def wicSub (rn rd w : Int) : Int × Int := %s" % ev.pair(ast.BinOp(left=ast.Name(id="rnd"), op=sub.op, right=sub.value)))
    hit = [n for n in loop.body if isinstance(n, ast.If) and n.body and isinstance(n.body[0], ast.Return) and ast.unparse(n.body[0].value) == "i"]
    h = _one(hit, "`if <test>: return i`")
    if loop.body.index(h) < loop.body.index(sub):
        raise Unsupported("weighted_index_choice: the hit test precedes the subtraction")
    out.append("def wicHit (rn rd : Int) : Bool := %s" % ev.cmp(h.test))


PRELUDE = """set_option linter.unusedVariables false
namespace DendroModel.C18Kernels

/-- `an/ad < bn/bd`, correct for denominators of either sign -/
def fracLt (an ad bn bd : Int) : Bool := decide (an * bd * (ad.sign * bd.sign) < bn * ad * (ad.sign * bd.sign))
/-- `an/ad ≤ bn/bd` -/
def fracLe (an ad bn bd : Int) : Bool := decide (an * bd * (ad.sign * bd.sign) ≤ bn * ad * (ad.sign * bd.sign))
"""


def generate(repo):
    src = os.path.join(repo, "src/dendropy")
    bd = ast.parse(open(os.path.join(src, "model/birthdeath.py")).read())
    co = ast.parse(open(os.path.join(src, "model/coalescent.py")).read())
    pr = ast.parse(open(os.path.join(src, "calculate/probability.py")).read())
    cb = ast.parse(open(os.path.join(src, "calculate/combinatorics.py")).read())
    out = [PRELUDE]
    _birth_death(find_function(bd, "birth_death_tree"), out)
    out.append("")
    _fast_birth_death(find_function(bd, "fast_birth_death_tree"), out)
    out.append("")
    _discrete(find_function(bd, "discrete_birth_death_tree"), out)
    out.append("")
    _pure_birth(find_function(bd, "uniform_pure_birth_tree"), out)
    out.append("")
    _coalescent(co, out)
    out.append("")
    _choose_table(cb, out)
    out.append("")
    _wic(find_function(pr, "weighted_index_choice"), out)
    out.append("")
    out.append("end DendroModel.C18Kernels")
    return "\n".join(out) + "\n"
