"""Gen/C19Kernels.lean: the closed-form kernels of the row/column operations of CharacterMatrix, read off the CURRENT source
(tie A of C19).  Regenerated from `src/dendropy/datamodel/charmatrixmodel.py` on every run:

`CharacterMatrix.concatenate`
* `locusPrefix` / `locusWidth`     the default subset label            `new_label = "locus%03d" % cidx`
* `candSep` / `candWidth`          the candidate names of the search   `cs_label = "%s_%03d" % (new_label, i)`
* `firstSuffix` / `suffixStep`     where the search starts and how it advances   `i = 2` … `i += 1`
* `searchRebindsTestedName`        the name tested by `while X in ….character_subsets` IS the name the body assigns the next
                                   candidate to (the historical defect assigned another name, so the test never changed: a hang)
* `searchStartsAtLabel`            the first name tried is the label itself (`cs_label = new_label`)
* `guardRefuses`                   the three refusals at the head of the loop body, in source order:
                                   `cm.taxon_namespace is not taxon_namespace`, `len(cm) != len(taxon_namespace)`, `len(cm) != nseqs`
* `rowRefuses`                     the rectangularity test `len(s) != v1`
* `spanOf` / `nextPos`             `range(pos_start, pos_start + cm.vector_size)`, `pos_start += cm.vector_size`
`CharacterMatrix.fill`
* `padContinue`                    `while len(v) < size`
* `prependIndex`                   `v.insert(0, value)` (and `v.append(value)` in the other branch)
* `fillDefaultIsMax`               `if size is None: size = self.max_sequence_size`
`CharacterMatrix.export_character_indices`
* `exportStart` / `exportStop` / `exportStep`    `range(len(vec)-1, -1, -1)`
* `exportDeletesAbsent`            `if cell_idx not in indices: del vec[cell_idx]`

Harmless rewrites are accepted (operands of `!=` commuted, `x = x + e` for `x += e`, a temporary for the width, `not a is b`
for `a is not b`, `"%03d"` vs `'%03d'`); anything outside the recognised shapes raises `Unsupported`, never a guess.
Props/C19.lean proves the bridges `gen_*`: the model's `locus`, `cand`, `freeName`, `freeFrom`, `concatStep`, `padLoop`,
`delLoop` are these kernels."""
import ast
import os
import re

from extract import Unsupported, find_function

NAME = "C19Kernels"
PATH = "src/dendropy/datamodel/charmatrixmodel.py"


def _u(e):
    return ast.unparse(e)


def _strip(body):
    return [s for s in body if not (isinstance(s, ast.Expr) and isinstance(s.value, ast.Constant) and isinstance(s.value.value, str))]


def _chars(s):
    if not all(32 <= ord(c) < 127 for c in s):
        raise Unsupported("non-ASCII text in a label format: %r" % s)
    return "[" + ", ".join("Char.ofNat %d" % ord(c) for c in s) + "]"


def _small_int(e, what):
    if isinstance(e, ast.Constant) and isinstance(e.value, int) and not isinstance(e.value, bool) and 0 <= e.value < 1000:
        return e.value
    raise Unsupported("%s: expected a small integer literal, found %s" % (what, _u(e)))


def _fmt(e, what):
    """`"…%0Nd" % x` / `"%s…%0Nd" % (a, x)` -> (takes a leading %s, literal text, width, [argument expressions])"""
    if not (isinstance(e, ast.BinOp) and isinstance(e.op, ast.Mod) and isinstance(e.left, ast.Constant) and isinstance(e.left.value, str)):
        raise Unsupported("%s: not a %%-format of a string literal: %s" % (what, _u(e)))
    m = re.fullmatch(r"(%s)?([^%]*)%0(\d)d", e.left.value)
    if not m:
        raise Unsupported("%s: format %r outside `[%%s]text%%0Nd`" % (what, e.left.value))
    args = list(e.right.elts) if isinstance(e.right, ast.Tuple) else [e.right]
    if len(args) != (2 if m.group(1) else 1):
        raise Unsupported("%s: format %r with %d arguments" % (what, e.left.value, len(args)))
    return bool(m.group(1)), m.group(2), int(m.group(3)), args


def _neq(test, a, b, what):
    """`a != b` / `b != a` / `not a == b`"""
    t = test
    if isinstance(t, ast.UnaryOp) and isinstance(t.op, ast.Not) and isinstance(t.operand, ast.Compare) \
            and len(t.operand.ops) == 1 and isinstance(t.operand.ops[0], ast.Eq):
        l, r = _u(t.operand.left), _u(t.operand.comparators[0])
    elif isinstance(t, ast.Compare) and len(t.ops) == 1 and isinstance(t.ops[0], ast.NotEq):
        l, r = _u(t.left), _u(t.comparators[0])
    else:
        raise Unsupported("%s: test %s is not an inequality" % (what, _u(test)))
    if {l, r} != {a, b}:
        raise Unsupported("%s: test %s does not compare %s with %s" % (what, _u(test), a, b))


def _is_not(test, a, b, what):
    t = test
    if isinstance(t, ast.UnaryOp) and isinstance(t.op, ast.Not) and isinstance(t.operand, ast.Compare) \
            and len(t.operand.ops) == 1 and isinstance(t.operand.ops[0], ast.Is):
        l, r = _u(t.operand.left), _u(t.operand.comparators[0])
    elif isinstance(t, ast.Compare) and len(t.ops) == 1 and isinstance(t.ops[0], ast.IsNot):
        l, r = _u(t.left), _u(t.comparators[0])
    else:
        raise Unsupported("%s: test %s is not an identity test" % (what, _u(test)))
    if {l, r} != {a, b}:
        raise Unsupported("%s: test %s does not compare %s with %s" % (what, _u(test), a, b))


def _raises_value_error(stmt, what):
    if not (isinstance(stmt, ast.If) and not stmt.orelse and len(stmt.body) == 1 and isinstance(stmt.body[0], ast.Raise)
            and stmt.body[0].exc is not None and _u(stmt.body[0].exc).startswith("ValueError(")):
        raise Unsupported("%s: expected `if …: raise ValueError(…)`, found %s" % (what, _u(stmt)[:100]))
    return stmt.test


def _incr(stmt, var):
    """`var += e` / `var = var + e` / `var = e + var` -> e"""
    if isinstance(stmt, ast.AugAssign) and isinstance(stmt.op, ast.Add) and _u(stmt.target) == var:
        return stmt.value
    if isinstance(stmt, ast.Assign) and len(stmt.targets) == 1 and _u(stmt.targets[0]) == var and isinstance(stmt.value, ast.BinOp) \
            and isinstance(stmt.value.op, ast.Add):
        if _u(stmt.value.left) == var:
            return stmt.value.right
        if _u(stmt.value.right) == var:
            return stmt.value.left
    return None


def _concatenate(fn):
    body = _strip(fn.body)
    loops = [s for s in body if isinstance(s, ast.For)]
    if len(loops) != 1 or _u(loops[0].iter) != "enumerate(char_matrices)" or _u(loops[0].target) != "(cidx, cm)" or loops[0].orelse:
        raise Unsupported("concatenate: expected one `for cidx, cm in enumerate(char_matrices)`")
    pre = body[:body.index(loops[0])]
    names = {}
    for s in pre:
        if isinstance(s, ast.Assign) and len(s.targets) == 1 and isinstance(s.targets[0], ast.Name):
            names[s.targets[0].id] = _u(s.value)
    if names.get("taxon_namespace") != "char_matrices[0].taxon_namespace" or names.get("nseqs") != "len(char_matrices[0])":
        raise Unsupported("concatenate: taxon_namespace / nseqs are not taken from the first matrix")
    if names.get("pos_start") != "0":
        raise Unsupported("concatenate: pos_start does not start at 0")
    lb = _strip(loops[0].body)
    out = {}
    # the three refusals, in this order
    _is_not(_raises_value_error(lb[0], "concatenate guard 1"), "cm.taxon_namespace", "taxon_namespace", "concatenate guard 1")
    _neq(_raises_value_error(lb[1], "concatenate guard 2"), "len(cm)", "len(taxon_namespace)", "concatenate guard 2")
    _neq(_raises_value_error(lb[2], "concatenate guard 3"), "len(cm)", "nseqs", "concatenate guard 3")
    # v1 = len(cm[0]); for t, s in cm.items(): if len(s) != v1: raise
    if not (isinstance(lb[3], ast.Assign) and _u(lb[3].targets[0]) == "v1" and _u(lb[3].value) == "len(cm[0])"):
        raise Unsupported("concatenate: the reference width is not `v1 = len(cm[0])`")
    rl = lb[4]
    if not (isinstance(rl, ast.For) and _u(rl.iter) == "cm.items()" and _u(rl.target) == "(t, s)" and len(_strip(rl.body)) == 1):
        raise Unsupported("concatenate: expected `for t, s in cm.items()` with one test")
    _neq(_raises_value_error(_strip(rl.body)[0], "concatenate rectangularity"), "len(s)", "v1", "concatenate rectangularity")
    if _u(lb[5]) != "concatenated_chars.extend_matrix(cm)":
        raise Unsupported("concatenate: rows are not added with concatenated_chars.extend_matrix(cm)")
    rest = lb[6:]
    # new_label
    lab = rest[0]
    if not (isinstance(lab, ast.If) and _u(lab.test) in ("cm.label is None", "None is cm.label") and len(lab.body) == 1 and len(lab.orelse) == 1
            and _u(lab.body[0].targets[0]) == "new_label" and _u(lab.orelse[0]) == "new_label = cm.label"):
        raise Unsupported("concatenate: `new_label` is not `cm.label`, or the generated default when it is None")
    takes_s, text, width, args = _fmt(lab.body[0].value, "concatenate default label")
    if takes_s or _u(args[0]) != "cidx":
        raise Unsupported("concatenate: the default label is not formatted from cidx alone")
    out["locus"] = (text, width)
    # cs_label = new_label; i = 2; while cs_label in …: cs_label = fmt % (new_label, i); i += 1
    w = [s for s in rest if isinstance(s, ast.While)]
    if len(w) != 1 or w[0].orelse:
        raise Unsupported("concatenate: expected one while loop for the subset name")
    w = w[0]
    t = w.test
    if not (isinstance(t, ast.Compare) and len(t.ops) == 1 and isinstance(t.ops[0], ast.In) and isinstance(t.left, ast.Name)
            and _u(t.comparators[0]) == "concatenated_chars.character_subsets"):
        raise Unsupported("concatenate: loop test %s" % _u(t))
    tested = t.left.id
    inits = {}
    for s in rest[1:rest.index(w)]:
        if isinstance(s, ast.Assign) and len(s.targets) == 1 and isinstance(s.targets[0], ast.Name):
            inits[s.targets[0].id] = s.value
        else:
            raise Unsupported("concatenate: statement before the name search: %s" % _u(s)[:80])
    out["starts_at_label"] = tested in inits and _u(inits[tested]) == "new_label"
    wb = _strip(w.body)
    assigns = [s for s in wb if isinstance(s, ast.Assign) and len(s.targets) == 1 and isinstance(s.targets[0], ast.Name)
               and isinstance(s.value, ast.BinOp) and isinstance(s.value.op, ast.Mod)]
    if len(assigns) != 1:
        raise Unsupported("concatenate: the loop body does not build exactly one candidate name")
    takes_s, text, width, args = _fmt(assigns[0].value, "concatenate candidate name")
    if not takes_s or _u(args[0]) != "new_label" or not isinstance(args[1], ast.Name):
        raise Unsupported("concatenate: the candidate name is not formatted from (new_label, counter)")
    counter = args[1].id
    out["cand"] = (text, width)
    out["rebinds"] = assigns[0].targets[0].id == tested
    if counter not in inits:
        raise Unsupported("concatenate: the counter %s is not initialised before the loop" % counter)
    out["first"] = _small_int(inits[counter], "concatenate counter start")
    steps = [x for x in (_incr(s, counter) for s in wb) if x is not None]
    if len(steps) != 1 or len(wb) != 2 or wb.index(assigns[0]) != 0:
        raise Unsupported("concatenate: the loop body is not `name = candidate; counter += step`")
    out["step"] = _small_int(steps[0], "concatenate counter step")
    # the span and the position
    tail = rest[rest.index(w) + 1:]
    env = {}
    span = None
    nxt = None
    used = None
    for s in tail:
        if isinstance(s, ast.Assign) and len(s.targets) == 1 and isinstance(s.targets[0], ast.Name) and s.targets[0].id != "pos_start":
            env[s.targets[0].id] = s.value
        elif _incr(s, "pos_start") is not None:
            nxt = _incr(s, "pos_start")
        elif isinstance(s, ast.Expr) and isinstance(s.value, ast.Call) and _u(s.value.func) == "concatenated_chars.new_character_subset":
            kw = {k.arg: k.value for k in s.value.keywords}
            pos = list(s.value.args)
            lab_e = kw.get("label", pos[0] if pos else None)
            idx_e = kw.get("character_indices", pos[1] if len(pos) > 1 else None)
            if lab_e is None or idx_e is None or _u(lab_e) != tested:
                raise Unsupported("concatenate: the subset is not recorded under the name the search ended with")
            used = idx_e
        else:
            raise Unsupported("concatenate: statement after the name search: %s" % _u(s)[:80])
    if used is None or nxt is None:
        raise Unsupported("concatenate: no subset recorded / position not advanced")

    def inline(e):
        while isinstance(e, ast.Name) and e.id in env:
            e = env[e.id]
        return e
    span = inline(used)
    width_names = ("cm.vector_size", "cm.sequence_size")
    if not (isinstance(span, ast.Call) and _u(span.func) == "range" and len(span.args) == 2 and _u(span.args[0]) == "pos_start"):
        raise Unsupported("concatenate: subset indices %s are not range(pos_start, …)" % _u(span))
    hi = inline(span.args[1])
    if not (isinstance(hi, ast.BinOp) and isinstance(hi.op, ast.Add)):
        raise Unsupported("concatenate: upper end of the span %s" % _u(hi))
    l, r = _u(inline(hi.left)), _u(inline(hi.right))
    if not ((l == "pos_start" and r in width_names) or (r == "pos_start" and l in width_names)):
        raise Unsupported("concatenate: upper end of the span %s" % _u(hi))
    if _u(inline(nxt)) not in width_names:
        raise Unsupported("concatenate: pos_start advances by %s" % _u(nxt))
    out["span_commuted"] = l != "pos_start"
    return out


def _fill(fn):
    body = _strip(fn.body)
    out = {}
    d = body[0]
    out["default_max"] = (isinstance(d, ast.If) and _u(d.test) in ("size is None", "None is size") and not d.orelse and len(d.body) == 1
                          and _u(d.body[0]) == "size = self.max_sequence_size")
    if not out["default_max"]:
        raise Unsupported("fill: the default size is not `self.max_sequence_size`")
    loop = body[1]
    if not (isinstance(loop, ast.For) and _u(loop.iter) == "self" and isinstance(loop.target, ast.Name)):
        raise Unsupported("fill: expected `for k in self`")
    k = loop.target.id
    lb = _strip(loop.body)
    if not (len(lb) == 2 and _u(lb[0]) == "v = self[%s]" % k and isinstance(lb[1], ast.While) and not lb[1].orelse):
        raise Unsupported("fill: loop body is not `v = self[k]; while …`")
    t = lb[1].test
    if isinstance(t, ast.Compare) and len(t.ops) == 1 and isinstance(t.ops[0], ast.Lt) and _u(t.left) == "len(v)" and _u(t.comparators[0]) == "size":
        out["continue"] = "decide (len < size)"
    elif isinstance(t, ast.Compare) and len(t.ops) == 1 and isinstance(t.ops[0], ast.Gt) and _u(t.left) == "size" and _u(t.comparators[0]) == "len(v)":
        out["continue"] = "decide (size > len)"
    else:
        raise Unsupported("fill: loop test %s" % _u(t))
    wb = _strip(lb[1].body)
    if not (len(wb) == 1 and isinstance(wb[0], ast.If) and _u(wb[0].test) == "append" and len(wb[0].body) == 1 and len(wb[0].orelse) == 1
            and _u(wb[0].body[0]) == "v.append(value)"):
        raise Unsupported("fill: the padding step is not `if append: v.append(value) else: v.insert(…, value)`")
    ins = wb[0].orelse[0]
    if not (isinstance(ins, ast.Expr) and isinstance(ins.value, ast.Call) and _u(ins.value.func) == "v.insert" and len(ins.value.args) == 2
            and _u(ins.value.args[1]) == "value"):
        raise Unsupported("fill: %s" % _u(ins))
    out["prepend"] = _small_int(ins.value.args[0], "fill insert position")
    if _u(body[2]) != "return size":
        raise Unsupported("fill: does not return the size")
    return out


def _int_lit(e, what):
    if isinstance(e, ast.UnaryOp) and isinstance(e.op, ast.USub):
        return -_small_int(e.operand, what)
    return _small_int(e, what)


def _export(fn):
    body = _strip(fn.body)
    loops = [s for s in body if isinstance(s, ast.For)]
    if len(loops) != 1 or _u(loops[0].iter) != "clone.values()" or not isinstance(loops[0].target, ast.Name):
        raise Unsupported("export_character_indices: expected one `for vec in clone.values()`")
    vec = loops[0].target.id
    if "indices = set(indices)" not in [_u(s) for s in body]:
        raise Unsupported("export_character_indices: indices are not made a set")
    inner = [s for s in _strip(loops[0].body) if isinstance(s, ast.For)]
    if len(inner) != 1:
        raise Unsupported("export_character_indices: expected one loop over the cells")
    r = inner[0].iter
    if not (isinstance(r, ast.Call) and _u(r.func) == "range" and len(r.args) == 3 and isinstance(inner[0].target, ast.Name)):
        raise Unsupported("export_character_indices: cell loop %s" % _u(r))
    c = inner[0].target.id
    a0 = r.args[0]
    if not (isinstance(a0, ast.BinOp) and isinstance(a0.op, ast.Sub) and _u(a0.left) == "len(%s)" % vec):
        raise Unsupported("export_character_indices: the cell loop does not start from len(vec) - k")
    out = {"start_off": _small_int(a0.right, "export start"), "stop": _int_lit(r.args[1], "export stop"), "step": _int_lit(r.args[2], "export step")}
    ib = _strip(inner[0].body)
    if not (len(ib) == 1 and isinstance(ib[0], ast.If) and not ib[0].orelse and len(ib[0].body) == 1
            and _u(ib[0].body[0]).replace("(", " ").replace(")", "").split() == ["del", "%s[%s]" % (vec, c)]):
        raise Unsupported("export_character_indices: cell loop body %s" % _u(ib[0])[:80])
    t = ib[0].test
    if isinstance(t, ast.Compare) and len(t.ops) == 1 and isinstance(t.ops[0], ast.NotIn) and _u(t.left) == c and _u(t.comparators[0]) == "indices":
        out["deletes_absent"] = True
    elif isinstance(t, ast.UnaryOp) and isinstance(t.op, ast.Not) and _u(t.operand) == "%s in indices" % c:
        out["deletes_absent"] = True
    elif isinstance(t, ast.Compare) and len(t.ops) == 1 and isinstance(t.ops[0], ast.In) and _u(t.left) == c and _u(t.comparators[0]) == "indices":
        out["deletes_absent"] = False
    else:
        raise Unsupported("export_character_indices: deletion test %s" % _u(t))
    return out


def generate(repo):
    mod = ast.parse(open(os.path.join(repo, PATH)).read())
    cc = _concatenate(find_function(mod, "CharacterMatrix.concatenate"))
    fl = _fill(find_function(mod, "CharacterMatrix.fill"))
    ex = _export(find_function(mod, "CharacterMatrix.export_character_indices"))
    b = lambda x: "true" if x else "false"
    span_hi = "(w + pos)" if cc["span_commuted"] else "(pos + w)"
    out = ["namespace DendroModel.C19Kernels", "",
           "/-- concatenate: `new_label = \"<prefix>%0<width>d\" % cidx` -/",
           "def locusPrefix : List Char := %s" % _chars(cc["locus"][0]),
           "def locusWidth : Nat := %d" % cc["locus"][1],
           "/-- concatenate: `\"%s<sep>%0<width>d\" % (new_label, i)` -/",
           "def candSep : List Char := %s" % _chars(cc["cand"][0]),
           "def candWidth : Nat := %d" % cc["cand"][1],
           "/-- concatenate: the counter of the name search: first value, increment -/",
           "def firstSuffix : Nat := %d" % cc["first"],
           "def suffixStep : Nat := %d" % cc["step"],
           "/-- concatenate: the name tested by the `while` is the name the loop body re-binds -/",
           "def searchRebindsTestedName : Bool := %s" % b(cc["rebinds"]),
           "/-- concatenate: the first name tried is the label itself -/",
           "def searchStartsAtLabel : Bool := %s" % b(cc["starts_at_label"]),
           "/-- concatenate: the refusals at the head of a round, in source order -/",
           "def guardRefuses (sameNs : Bool) (lenCm lenNs nseqs : Nat) : Bool := (!sameNs) || (lenCm != lenNs) || (lenCm != nseqs)",
           "/-- concatenate: a row of another length than the first one is refused -/",
           "def rowRefuses (lenRow v1 : Nat) : Bool := lenRow != v1",
           "/-- concatenate: the columns recorded for a source of width `w` placed at `pos`, and the next position -/",
           "def spanOf (pos w : Nat) : List Nat := List.range' pos (%s - pos)" % span_hi,
           "def nextPos (pos w : Nat) : Nat := pos + w",
           "",
           "/-- fill: the padding loop goes on while … -/",
           "def padContinue (len size : Nat) : Bool := %s" % fl["continue"],
           "/-- fill: `v.insert(<k>, value)` when not appending -/",
           "def prependIndex : Nat := %d" % fl["prepend"],
           "/-- fill: `size=None` means the longest sequence -/",
           "def fillDefaultIsMax : Bool := %s" % b(fl["default_max"]),
           "",
           "/-- export_character_indices: `range(len(vec) - <off>, <stop>, <step>)`, and which cells are deleted -/",
           "def exportStartOffset : Nat := %d" % ex["start_off"],
           "def exportStop : Int := %d" % ex["stop"],
           "def exportStep : Int := %d" % ex["step"],
           "def exportDeletesAbsent : Bool := %s" % b(ex["deletes_absent"]),
           "",
           "end DendroModel.C19Kernels"]
    return "\n".join(out) + "\n"
