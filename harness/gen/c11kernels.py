"""Gen/C11Kernels.lean: the closed-form decision kernels of the anchored namespace-handling code of C11, read off the CURRENT source
(`datamodel/treecollectionmodel.py`, `taxonmodel.py`, `treemodel/_tree.py`, `charmatrixmodel.py`, `datasetmodel.py`) on every run.

  K1 importAct / importDefault      TreeList._import_tree_to_taxon_namespace (the if/elif chain: which action for which strategy) and the
                                    default strategy of _import_tree_to_taxon_namespace / insert / append (they must agree)
  K2 migrateUnifyDefault            default `unify_taxa_by_label` of TaxonNamespaceAssociated.migrate_taxon_namespace, which must hand its
                                    flag and memo on unchanged to reconstruct_taxon_namespace after re-binding `_taxon_namespace`
     reconstructUnifyDefault        the (common) default of Tree / TreeList / CharacterMatrix.reconstruct_taxon_namespace
  K3 nodeGuard / keyGuard           the condition under which a node taxon / a sequence key is re-mapped by a reconstruction pass
  K4 setterAct                      TaxonNamespaceAssociated._set_taxon_namespace (the `taxon_namespace` property setter)
  K5 listMemoShared, listPassesUnify, dsMemoShared, dsUnify
                                    TreeList.reconstruct_taxon_namespace hands ONE memo (created once) and its own flag to every tree;
                                    DataSet.unify_taxon_namespaces hands ONE memo to every tree list and matrix, with a literal flag

What is emitted is the Boolean structure AS IT IS in the source; sub-expressions are mapped to named atoms through the explicit tables
below, statements to actions through explicit patterns.  Anything not in a table raises `Unsupported` - nothing is guessed.  Tolerated:
commuted operands of `is` / `is not` / `==`, `not (a is b)` for `a is not b`, `.taxon_namespace` / `._taxon_namespace` read alike,
docstrings, comments, `pass`, parentheses."""
import ast
import os

from extract import Unsupported, find_function, lean_string

NAME = "C11Kernels"

TL_PY = "src/dendropy/datamodel/treecollectionmodel.py"
TAX_PY = "src/dendropy/datamodel/taxonmodel.py"
TREE_PY = "src/dendropy/datamodel/treemodel/_tree.py"
MAT_PY = "src/dendropy/datamodel/charmatrixmodel.py"
DS_PY = "src/dendropy/datamodel/datasetmodel.py"


def _u(e):
    return ast.unparse(e).replace("._taxon_namespace", ".taxon_namespace")


def _parse(repo, rel):
    with open(os.path.join(repo, rel)) as f:
        return ast.parse(f.read())


def _body(fn):
    return [s for s in fn.body if not (isinstance(s, ast.Expr) and isinstance(s.value, ast.Constant) and isinstance(s.value.value, str))
            and not isinstance(s, ast.Pass)]


def _default(fn, arg):
    names = [a.arg for a in fn.args.args]
    d = dict(zip(names[len(names) - len(fn.args.defaults):], fn.args.defaults))
    if arg not in d or not isinstance(d[arg], ast.Constant):
        raise Unsupported("%s has no literal default for %s" % (fn.name, arg))
    return d[arg].value


class Atoms(object):
    """atoms: {frozenset of the two operand texts, or a single text: lean atom}; `ident` for is / ==, `member` for in"""

    def __init__(self, where, names=None, ident=None, none=None, member=None, streq=None):
        self.where, self.names, self.ident, self.none, self.member, self.streq = where, names or {}, ident or {}, none or {}, member or {}, streq

    def fail(self, e):
        raise Unsupported("%s: `%s` is not in the supported subset" % (self.where, ast.unparse(e)))

    def cond(self, e):
        if isinstance(e, ast.BoolOp):
            op = " || " if isinstance(e.op, ast.Or) else " && "
            return "(" + op.join(self.cond(v) for v in e.values) + ")"
        if isinstance(e, ast.UnaryOp) and isinstance(e.op, ast.Not):
            return "(!%s)" % self.cond(e.operand)
        if isinstance(e, (ast.Name, ast.Attribute)):
            if _u(e) in self.names:
                return self.names[_u(e)]
            self.fail(e)
        if isinstance(e, ast.Compare) and len(e.ops) == 1:
            l, r, op = e.left, e.comparators[0], e.ops[0]
            neg = isinstance(op, (ast.IsNot, ast.NotIn, ast.NotEq))
            atom = None
            if isinstance(op, (ast.Is, ast.IsNot)):
                for x, y in ((l, r), (r, l)):
                    if isinstance(y, ast.Constant) and y.value is None and _u(x) in self.none:
                        atom = self.none[_u(x)]
                if atom is None:
                    atom = self.ident.get(frozenset((_u(l), _u(r))))
            elif isinstance(op, (ast.In, ast.NotIn)):
                atom = self.member.get((_u(l), _u(r)))
            elif isinstance(op, (ast.Eq, ast.NotEq)) and self.streq:
                for x, y in ((l, r), (r, l)):
                    if _u(x) == self.streq and isinstance(y, ast.Constant) and isinstance(y.value, str):
                        atom = "(decide (strategy = %s))" % lean_string(y.value)
            if atom is None:
                self.fail(e)
            return "(!%s)" % atom if neg else atom
        self.fail(e)


def _chain(stmts, atoms, classify, fall):
    """an if/elif/else chain (possibly nested one level deeper) whose bodies are classified as actions -> a Lean if-expression"""
    stmts = [s for s in stmts if not isinstance(s, ast.Pass)]
    if len(stmts) == 1 and isinstance(stmts[0], ast.If):
        s = stmts[0]
        return "(if %s then %s else %s)" % (atoms.cond(s.test), _chain(s.body, atoms, classify, fall),
                                            _chain(s.orelse, atoms, classify, fall) if s.orelse else fall)
    act = classify(stmts)
    if act is None:
        raise Unsupported("%s: statements `%s` match no action pattern" % (atoms.where, "; ".join(ast.unparse(s) for s in stmts)[:160]))
    return act


def _calls(stmts, meth):
    return [n for s in stmts for n in ast.walk(s) if isinstance(n, ast.Call) and isinstance(n.func, ast.Attribute) and n.func.attr == meth]


def _kw(call, name):
    for k in call.keywords:
        if k.arg == name:
            return k.value
    return None


# ------------------------------------------------------------------------------------------------------------------ K1
def k1(repo):
    tl = _parse(repo, TL_PY)
    fn = find_function(tl, "TreeList._import_tree_to_taxon_namespace")
    body = _body(fn)
    if not (len(body) == 2 and isinstance(body[0], ast.If) and isinstance(body[1], ast.Return) and _u(body[1].value) == "tree"):
        raise Unsupported("_import_tree_to_taxon_namespace is not `if ...: ...; return tree`")
    atoms = Atoms("_import_tree_to_taxon_namespace", ident={frozenset(("tree.taxon_namespace", "self.taxon_namespace")): "same"},
                  streq="taxon_import_strategy")

    def classify(stmts):
        if len(stmts) == 1 and isinstance(stmts[0], ast.Expr) and _calls(stmts, "migrate_taxon_namespace"):
            c = _calls(stmts, "migrate_taxon_namespace")[0]
            tgt = _kw(c, "taxon_namespace") or (c.args[0] if c.args else None)
            if _u(c.func.value) == "tree" and tgt is not None and _u(tgt) == "self.taxon_namespace" and \
                    all(k.arg in ("taxon_namespace", None) for k in c.keywords):
                return ".migrate"
        if len(stmts) == 2 and isinstance(stmts[0], ast.Assign) and _u(stmts[0].targets[0]) == "tree.taxon_namespace" \
                and _u(stmts[0].value) == "self.taxon_namespace" and isinstance(stmts[1], ast.Expr) \
                and _u(stmts[1].value) == "tree.update_taxon_namespace()":
            return ".add"
        if len(stmts) == 1 and isinstance(stmts[0], ast.Raise) and isinstance(stmts[0].exc, ast.Call) and _u(stmts[0].exc.func) == "ValueError":
            return ".refuse"
        return None
    expr = _chain([body[0]], atoms, classify, ".keep")
    defaults = set()
    for q in ("TreeList._import_tree_to_taxon_namespace", "TreeList.insert", "TreeList.append"):
        f = find_function(tl, q)
        defaults.add(_default(f, "taxon_import_strategy"))
        if q != "TreeList._import_tree_to_taxon_namespace":
            cs = _calls(_body(f), "_import_tree_to_taxon_namespace")
            if len(cs) != 1 or _kw(cs[0], "taxon_import_strategy") is None or _u(_kw(cs[0], "taxon_import_strategy")) != "taxon_import_strategy":
                raise Unsupported("%s does not hand its taxon_import_strategy on to _import_tree_to_taxon_namespace" % q)
    if len(defaults) != 1:
        raise Unsupported("default taxon_import_strategy differs between _import_tree_to_taxon_namespace / insert / append: %r" % sorted(defaults))
    # `tl[i] = t` and slice assignment from a plain list import with the default strategy (no argument)
    si = find_function(tl, "TreeList.__setitem__")
    for c in _calls(_body(si), "_import_tree_to_taxon_namespace"):
        if c.keywords or len(c.args) != 1:
            raise Unsupported("TreeList.__setitem__ passes extra arguments to _import_tree_to_taxon_namespace")
    return expr, defaults.pop()


# ------------------------------------------------------------------------------------------------------------------ K2
def k2(repo):
    tax = _parse(repo, TAX_PY)
    fn = find_function(tax, "TaxonNamespaceAssociated.migrate_taxon_namespace")
    mig = _default(fn, "unify_taxa_by_label")
    body = _body(fn)
    ok = (len(body) == 3 and isinstance(body[0], ast.If) and _u(body[0].test) == "taxon_namespace is None"
          and isinstance(body[1], ast.Assign) and _u(body[1].targets[0]) == "self.taxon_namespace" and _u(body[1].value) == "taxon_namespace"
          and isinstance(body[2], ast.Expr) and len(_calls([body[2]], "reconstruct_taxon_namespace")) == 1)
    if ok:
        c = _calls([body[2]], "reconstruct_taxon_namespace")[0]
        ok = (_u(c.func.value) == "self" and not c.args and {k.arg for k in c.keywords} == {"unify_taxa_by_label", "taxon_mapping_memo"}
              and all(_u(k.value) == k.arg for k in c.keywords))
    if not ok:
        raise Unsupported("migrate_taxon_namespace is not `re-bind _taxon_namespace; reconstruct_taxon_namespace(flag and memo handed on)`")
    recs = set()
    for rel, q in ((TREE_PY, "Tree.reconstruct_taxon_namespace"), (TL_PY, "TreeList.reconstruct_taxon_namespace"),
                   (MAT_PY, "CharacterMatrix.reconstruct_taxon_namespace"), (TAX_PY, "TaxonNamespaceAssociated.reconstruct_taxon_namespace")):
        recs.add(_default(find_function(_parse(repo, rel), q), "unify_taxa_by_label"))
    if len(recs) != 1:
        raise Unsupported("default unify_taxa_by_label differs between the reconstruct_taxon_namespace methods: %r" % sorted(map(str, recs)))
    r = recs.pop()
    if not isinstance(mig, bool) or not isinstance(r, bool):
        raise Unsupported("default unify_taxa_by_label is not a bool literal")
    return mig, r


# ------------------------------------------------------------------------------------------------------------------ K3
def _guard(fn, loopvar_texts, where, names, none, member):
    loops = [s for s in _body(fn) if isinstance(s, ast.For)]
    if len(loops) != 1:
        raise Unsupported("%s: expected exactly one loop" % where)
    body = [s for s in loops[0].body if not isinstance(s, ast.Pass)]
    if len(body) != 1 or not isinstance(body[0], ast.If) or body[0].orelse:
        raise Unsupported("%s: the loop body is not a single guarded block" % where)
    if not _calls(body[0].body, "require_taxon") or not _calls(body[0].body, "new_taxon"):
        raise Unsupported("%s: the guarded block is not the re-mapping block" % where)
    return Atoms(where, names=names, none=none, member=member).cond(body[0].test)


def k3(repo):
    tfn = find_function(_parse(repo, TREE_PY), "Tree.reconstruct_taxon_namespace")
    node = _guard(tfn, None, "Tree.reconstruct_taxon_namespace", {"unify_taxa_by_label": "unify"}, {"node.taxon": "(!hasTaxon)"},
                  {("node.taxon", "self.taxon_namespace"): "member"})
    mfn = find_function(_parse(repo, MAT_PY), "CharacterMatrix.reconstruct_taxon_namespace")
    key = _guard(mfn, None, "CharacterMatrix.reconstruct_taxon_namespace", {"unify_taxa_by_label": "unify"}, {},
                 {("original_taxon", "self.taxon_namespace"): "member"})
    return node, key


# ------------------------------------------------------------------------------------------------------------------ K4
def k4(repo):
    fn = find_function(_parse(repo, TAX_PY), "TaxonNamespaceAssociated._set_taxon_namespace")
    atoms = Atoms("_set_taxon_namespace", names={"self.automigrate_taxon_namespace_on_assignment": "auto"}, none={"tns": "isNone"},
                  ident={frozenset(("self.taxon_namespace", "tns")): "same"})

    def classify(stmts):
        if len(stmts) == 1 and isinstance(stmts[0], ast.Expr) and _u(stmts[0].value) == "self.migrate_taxon_namespace(tns)":
            return ".migrate"
        if len(stmts) == 1 and isinstance(stmts[0], ast.Assign) and _u(stmts[0].targets[0]) == "self.taxon_namespace":
            v = stmts[0].value
            if isinstance(v, ast.Constant) and v.value is None:
                return ".unbind"
            if _u(v) == "tns":
                return ".rebind"
        return None
    return _chain(_body(fn), atoms, classify, ".keep")


# ------------------------------------------------------------------------------------------------------------------ K5
def _one_memo(fn, where, loop_targets):
    """the memo handed to every member call is ONE dictionary: a parameter defaulted once before the loops, or a local `{}` assigned
    once outside the loops; returns (shared?, text of the unify flag handed on)"""
    body = _body(fn)
    memo_names = set()
    for s in body:
        if isinstance(s, ast.If) and _u(s.test) == "taxon_mapping_memo is None" and len(s.body) == 1 and _u(s.body[0]) == "taxon_mapping_memo = {}":
            memo_names.add("taxon_mapping_memo")
    for s in ast.walk(fn):
        if isinstance(s, ast.Assign) and _u(s.value) == "{}" and len(s.targets) == 1 and isinstance(s.targets[0], ast.Name):
            inside_loop = any(s in ast.walk(l) for l in ast.walk(fn) if isinstance(l, (ast.For, ast.While)))
            if not inside_loop:
                memo_names.add(s.targets[0].id)
    calls = [c for l in ast.walk(fn) if isinstance(l, ast.For) for c in _calls(l.body, loop_targets)]
    if not calls:
        raise Unsupported("%s: no member call `%s` inside a loop" % (where, loop_targets))
    shared, flags = True, set()
    for c in calls:
        m = _kw(c, "taxon_mapping_memo")
        if m is None or not isinstance(m, ast.Name) or m.id not in memo_names:
            shared = False
        f = _kw(c, "unify_taxa_by_label")
        flags.add("<default>" if f is None else _u(f))
    if len({_u(_kw(c, "taxon_mapping_memo")) for c in calls if _kw(c, "taxon_mapping_memo") is not None}) > 1:
        shared = False
    if len(flags) != 1:
        raise Unsupported("%s: member calls hand on different unify flags %r" % (where, sorted(flags)))
    return shared, flags.pop()


def k5(repo):
    lfn = find_function(_parse(repo, TL_PY), "TreeList.reconstruct_taxon_namespace")
    lshared, lflag = _one_memo(lfn, "TreeList.reconstruct_taxon_namespace", "reconstruct_taxon_namespace")
    loops = [s for s in _body(lfn) if isinstance(s, ast.For)]
    if len(loops) != 1 or not any(isinstance(s, ast.Assign) and _u(s.targets[0]) == "tree.taxon_namespace" and _u(s.value) == "self.taxon_namespace"
                                  for s in loops[0].body):
        raise Unsupported("TreeList.reconstruct_taxon_namespace does not re-bind every tree to self.taxon_namespace")
    dfn = find_function(_parse(repo, DS_PY), "DataSet.unify_taxon_namespaces")
    dshared, dflag = _one_memo(dfn, "DataSet.unify_taxon_namespaces", "migrate_taxon_namespace")
    if dflag not in ("True", "False"):
        raise Unsupported("DataSet.unify_taxon_namespaces hands on a non-literal unify flag `%s`" % dflag)
    return lshared, lflag == "unify_taxa_by_label", dshared, dflag == "True"


def _b(x):
    return "true" if x else "false"


def generate(repo):
    imp, dflt = k1(repo)
    mig, rec = k2(repo)
    node, key = k3(repo)
    setter = k4(repo)
    lshared, lpass, dshared, dunify = k5(repo)
    out = ["namespace DendroModel.Gen.C11Kernels", "",
           "inductive ImportAct where | keep | migrate | add | refuse", "deriving DecidableEq, Repr", "",
           "/-- K1 `TreeList._import_tree_to_taxon_namespace`: `same` = the tree refers to the list's namespace object -/",
           "def importAct (same : Bool) (strategy : String) : ImportAct :=", "  " + imp, "",
           "/-- the default `taxon_import_strategy` of `_import_tree_to_taxon_namespace`, `insert` and `append` -/",
           "def importDefault : String := " + lean_string(dflt), "",
           "/-- K2 default `unify_taxa_by_label` of `migrate_taxon_namespace` (handed on unchanged to the reconstruction) -/",
           "def migrateUnifyDefault : Bool := " + _b(mig),
           "/-- ... and of every `reconstruct_taxon_namespace` -/",
           "def reconstructUnifyDefault : Bool := " + _b(rec), "",
           "/-- K3 `Tree.reconstruct_taxon_namespace`: is this node's taxon re-mapped? -/",
           "def nodeGuard (hasTaxon unify member : Bool) : Bool :=", "  " + node, "",
           "/-- K3 `CharacterMatrix.reconstruct_taxon_namespace`: is this sequence key re-mapped? -/",
           "def keyGuard (unify member : Bool) : Bool :=", "  " + key, "",
           "inductive SetAct where | keep | migrate | unbind | rebind", "deriving DecidableEq, Repr", "",
           "/-- K4 the `taxon_namespace` setter: `auto` = automigrate_taxon_namespace_on_assignment, `isNone` = `None` is assigned,",
           "`same` = the object already bound is assigned -/",
           "def setterAct (auto isNone same : Bool) : SetAct :=", "  " + setter, "",
           "/-- K5 `TreeList.reconstruct_taxon_namespace`: one memo for all trees; its own flag handed on -/",
           "def listMemoShared : Bool := " + _b(lshared), "def listPassesUnify : Bool := " + _b(lpass),
           "/-- K5 `DataSet.unify_taxon_namespaces`: one memo for all tree lists and matrices; the literal flag -/",
           "def dsMemoShared : Bool := " + _b(dshared), "def dsUnify : Bool := " + _b(dunify), "",
           "end DendroModel.Gen.C11Kernels"]
    return "\n".join(out) + "\n"
