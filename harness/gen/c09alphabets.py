"""Gen/Alphabets.lean: the symbol tables of the fixed state alphabets (DNA, RNA, nucleotide, protein, binary =
restriction = infinite sites) and of the default standard alphabet, read off charstatemodel.py, plus the FORMAT
terms NexusWriter._compose_format_terms emits for the fixed data types.  Only literal tables are accepted."""
import ast
import os
from extract import Unsupported, find_function

NAME = "Alphabets"

CLASSES = [("dna", "DnaStateAlphabet"), ("rna", "RnaStateAlphabet"), ("nucleotide", "NucleotideStateAlphabet"),
           ("protein", "ProteinStateAlphabet"), ("binary", "BinaryStateAlphabet")]
KEYS = ("fundamental_states", "ambiguous_states", "polymorphic_states", "symbol_synonyms", "no_data_symbol",
        "gap_symbol", "case_sensitive")


def _is_base_init(call, base):
    f = call.func
    return (isinstance(f, ast.Attribute) and f.attr == "__init__" and isinstance(f.value, ast.Name) and f.value.id == base)


def _eval_init(fn, base="StateAlphabet", given=None):
    """run the straight-line prefix of an alphabet __init__ (literal assignments, `if <param>:` on parameters at their
    defaults) up to the call `StateAlphabet.__init__(self, **literals-or-locals)`; returns the keyword values"""
    env = {}
    args = [a.arg for a in fn.args.args][1:]
    defaults = fn.args.defaults
    for a, d in zip(args[len(args) - len(defaults):], defaults):
        env[a] = ast.literal_eval(d)
    if len(defaults) != len(args):
        raise Unsupported("%s: parameter without default" % fn.name)
    env.update(given or {})

    def val(e):
        if isinstance(e, ast.Name):
            if e.id not in env:
                raise Unsupported("unknown name %s" % e.id)
            return env[e.id]
        try:
            return ast.literal_eval(e)
        except Exception:
            raise Unsupported("non-literal %s" % ast.dump(e)[:80])

    def run(stmts):
        for i, s in enumerate(stmts):
            if isinstance(s, ast.Expr) and isinstance(s.value, ast.Constant):
                continue
            if isinstance(s, ast.Assign) and len(s.targets) == 1 and isinstance(s.targets[0], ast.Name):
                env[s.targets[0].id] = val(s.value)
                continue
            if isinstance(s, ast.If) and isinstance(s.test, ast.Name):
                r = run(s.body if env.get(s.test.id) else s.orelse)
                if r is not None:
                    raise Unsupported("base __init__ called inside a branch")
                continue
            if isinstance(s, ast.Expr) and isinstance(s.value, ast.Call) and _is_base_init(s.value, base):
                kw = {k.arg: val(k.value) for k in s.value.keywords}
                if len(s.value.args) != 1:
                    raise Unsupported("positional arguments to %s.__init__" % base)
                for later in stmts[i + 1:]:
                    for n in ast.walk(later):
                        if isinstance(n, ast.Call) and isinstance(n.func, ast.Attribute) and n.func.attr.startswith("new_"):
                            raise Unsupported("alphabet modified after construction (%s)" % n.func.attr)
                return kw
            raise Unsupported("statement outside the supported subset in %s: %s" % (fn.name, ast.dump(s)[:80]))
        return None

    kw = run(fn.body)
    if kw is None:
        raise Unsupported("%s never calls %s.__init__" % (fn.name, base))
    return kw


def _c(c):
    if not isinstance(c, str) or len(c) != 1:
        raise Unsupported("symbol %r is not a single character" % (c,))
    return "Char.ofNat %d" % ord(c)


def _chars(s):
    return "[" + ", ".join(_c(c) for c in s) + "]"


def _pairs(ps):
    return "[" + ", ".join("(%s, %s)" % (_c(a), _chars(b)) for a, b in ps) + "]"


def _opt(c):
    return "none" if c is None else "some (%s)" % _c(c)


def _spec(name, kw):
    for k in kw:
        if k not in KEYS + ("label",):
            raise Unsupported("unexpected keyword %s" % k)
    syn = kw.get("symbol_synonyms") or {}
    return ("def %s : Spec :=\n  { fund := %s\n    ambig := %s\n    poly := %s\n    syn := %s\n    gap := %s\n    missing := %s\n    caseSensitive := %s }\n"
            % (name, _chars(kw.get("fundamental_states") or ""), _pairs(kw.get("ambiguous_states") or ()),
               _pairs(kw.get("polymorphic_states") or ()),
               "[" + ", ".join("(%s, %s)" % (_c(k), _c(v)) for k, v in syn.items()) + "]",
               _opt(kw.get("gap_symbol")), _opt(kw.get("no_data_symbol")),
               "true" if kw.get("case_sensitive", True) else "false"))


def _format_terms(tree):
    """data_type -> list of FORMAT terms appended in the literal `if char_matrix.data_type == "x":` chain"""
    fn = find_function(tree, "NexusWriter._compose_format_terms")
    out = {}
    node = None
    for s in fn.body:
        if isinstance(s, ast.If):
            node = s
            break
    while node is not None:
        t = node.test
        if not (isinstance(t, ast.Compare) and isinstance(t.left, ast.Attribute) and t.left.attr == "data_type"
                and len(t.comparators) == 1 and isinstance(t.comparators[0], ast.Constant)):
            raise Unsupported("_compose_format_terms: unexpected test")
        terms = []
        for s in node.body:
            if (isinstance(s, ast.Expr) and isinstance(s.value, ast.Call) and getattr(s.value.func, "attr", None) == "append"
                    and len(s.value.args) == 1 and isinstance(s.value.args[0], ast.Constant)):
                terms.append(s.value.args[0].value)
            else:
                raise Unsupported("_compose_format_terms: non-literal term for %s" % t.comparators[0].value)
        out[t.comparators[0].value] = " ".join(terms)
        if len(node.orelse) == 1 and isinstance(node.orelse[0], ast.If):
            node = node.orelse[0]
        else:
            node = None
    for k in ("dna", "rna", "protein"):
        if k not in out:
            raise Unsupported("_compose_format_terms: no branch for %s" % k)
    return out


def generate(repo):
    path = os.path.join(repo, "src/dendropy/datamodel/charstatemodel.py")
    tree = ast.parse(open(path).read())
    out = ["namespace DendroModel.Alphabets", "",
           "structure Spec where", "  fund : List Char", "  ambig : List (Char × List Char)", "  poly : List (Char × List Char)",
           "  syn : List (Char × Char)", "  gap : Option Char", "  missing : Option Char", "  caseSensitive : Bool", ""]
    for name, cls in CLASSES:
        out.append(_spec(name, _eval_init(find_function(tree, cls + ".__init__"))))
    # restriction / infinite sites: thin subclasses of the binary alphabet, instantiated without arguments
    for cls in ("RestrictionSitesStateAlphabet", "InfiniteSitesStateAlphabet"):
        kw = _eval_init(find_function(tree, cls + ".__init__"), base="BinaryStateAlphabet")
        if kw != {"allow_gaps": False, "allow_missing": False}:
            raise Unsupported("%s changes the binary alphabet's defaults" % cls)
    for n in tree.body:
        if isinstance(n, ast.Assign) and isinstance(n.value, ast.Call) and getattr(n.value.func, "id", "").endswith("StateAlphabet"):
            if n.value.args or n.value.keywords:
                raise Unsupported("global alphabet instantiated with arguments")
    # default standard alphabet
    fn = find_function(tree, "new_standard_state_alphabet")
    std = None
    for n in ast.walk(fn):
        if isinstance(n, ast.Call) and getattr(n.func, "id", None) == "StateAlphabet":
            std = {}
            for k in n.keywords:
                if isinstance(k.value, ast.Name):
                    continue
                std[k.arg] = ast.literal_eval(k.value)
    dflt = None
    for s in fn.body:
        if isinstance(s, ast.If) and isinstance(s.test, ast.Compare) and getattr(s.test.left, "id", None) == "fundamental_state_symbols":
            dflt = ast.literal_eval(s.body[0].value)
    if std is None or dflt is None:
        raise Unsupported("new_standard_state_alphabet left the supported subset")
    args = [a.arg for a in fn.args.args]
    cs = dict(zip(args[len(args) - len(fn.args.defaults):], fn.args.defaults)).get("case_sensitive")
    std["fundamental_states"] = dflt
    std["case_sensitive"] = ast.literal_eval(cs)
    out.append(_spec("standardDefault", std))
    nw = ast.parse(open(os.path.join(repo, "src/dendropy/dataio/nexuswriter.py")).read())
    ft = _format_terms(nw)
    from extract import lean_string
    out.append("def formatTerms : List (String × String) := [" + ", ".join(
        "(%s, %s)" % (lean_string(k), lean_string(v)) for k, v in sorted(ft.items())) + "]")
    out += ["", "end DendroModel.Alphabets"]
    return "\n".join(out) + "\n"
