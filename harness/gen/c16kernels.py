"""Gen/C16Kernels.lean: the per-character set kernels of `dendropy.model.parsimony`, regenerated from the *current* source by
symbolic execution of the two inner loops (tie A of property C16):

* `fitch_down_pass`, body of `for n, ssp in enumerate(zip(left_ssl, right_ssl))`:
    `downSet l r`      the set appended to `result` (intersection / union choice),
    `downChanges l r`  how many times `score += wt` runs for this character (the `+1`),
    `downByChar l r`   how many times `score_by_character_list[n] += wt` runs,
    `unitWeight`       the constant `wt` takes when `weights is None`;
* `fitch_up_pass`, body of `for n, ssp in enumerate(zip(par_ssl, curr_ssl, left_ssl, right_ssl))`:
    `upFinal p c l r`  the final set appended to `result`.

State sets are `Nat` bit masks (`&&&` intersection, `|||` union, `!= 0` truthiness of a set).  Straight-line temporaries are inlined,
`a.intersection(b)`, `a & b`, `a.union(b, c)`, `a | b`, `set(a)`, `a.issubset(b)`, `a <= b`, `a.isdisjoint(b)`, `not a`, `a == b`, `len(a) == 0`
are understood; the operands are emitted in source order (the bridge theorems absorb commuted operands).  Anything else raises
`Unsupported`.  The generated file imports nothing."""
import ast
import os

from extract import Unsupported, find_function

NAME = "C16Kernels"


def _is_doc(s):
    return isinstance(s, ast.Expr) and isinstance(s.value, ast.Constant) and isinstance(s.value.value, str)


class Sym(object):
    """symbolic execution of one loop body over set-valued names"""

    def __init__(self, flags):
        self.flags = flags          # {"weights_none": bool, "by_none": bool}

    # ---- set expressions -> Lean Nat
    def sexpr(self, e, env):
        if isinstance(e, ast.Name):
            if e.id in env and env[e.id][0] == "set":
                return env[e.id][1]
            raise Unsupported("name %s is not a state set here" % e.id)
        if isinstance(e, ast.BinOp) and isinstance(e.op, (ast.BitAnd, ast.BitOr)):
            op = "&&&" if isinstance(e.op, ast.BitAnd) else "|||"
            return "(%s %s %s)" % (self.sexpr(e.left, env), op, self.sexpr(e.right, env))
        if isinstance(e, ast.Call) and not e.keywords:
            f = e.func
            if isinstance(f, ast.Attribute) and f.attr in ("intersection", "union"):
                op = "&&&" if f.attr == "intersection" else "|||"
                parts = [self.sexpr(f.value, env)] + [self.sexpr(a, env) for a in e.args]
                out = parts[0]
                for q in parts[1:]:
                    out = "(%s %s %s)" % (out, op, q)
                return out
            if isinstance(f, ast.Attribute) and f.attr == "copy" and not e.args:
                return self.sexpr(f.value, env)
            if isinstance(f, ast.Name) and f.id in ("set", "frozenset") and len(e.args) == 1:
                return self.sexpr(e.args[0], env)
        raise Unsupported("set expression %s" % ast.dump(e)[:120])

    # ---- conditions -> ("lean", text) or ("flag", bool)
    def cond(self, e, env):
        if isinstance(e, ast.UnaryOp) and isinstance(e.op, ast.Not):
            k, v = self.cond(e.operand, env)
            return (k, (not v) if k == "flag" else "(!%s)" % v)
        if isinstance(e, ast.Compare) and len(e.ops) == 1:
            l, r, op = e.left, e.comparators[0], e.ops[0]
            if isinstance(op, (ast.Is, ast.IsNot)) and isinstance(r, ast.Constant) and r.value is None and isinstance(l, ast.Name):
                if l.id == "weights":
                    v = self.flags["weights_none"]
                elif l.id == "score_by_character_list":
                    v = self.flags["by_none"]
                else:
                    raise Unsupported("None test on %s inside the per-character loop" % l.id)
                return ("flag", v if isinstance(op, ast.Is) else not v)
            if isinstance(op, (ast.Eq, ast.NotEq)):
                if isinstance(l, ast.Call) and isinstance(l.func, ast.Name) and l.func.id == "len" and isinstance(r, ast.Constant) and r.value == 0:
                    t = "(%s == 0)" % self.sexpr(l.args[0], env)
                else:
                    t = "(%s == %s)" % (self.sexpr(l, env), self.sexpr(r, env))
                return ("lean", t if isinstance(op, ast.Eq) else "(!%s)" % t)
            if isinstance(op, ast.LtE):
                a, b = self.sexpr(l, env), self.sexpr(r, env)
                return ("lean", "((%s &&& %s) == %s)" % (a, b, a))
            if isinstance(op, ast.GtE):
                a, b = self.sexpr(l, env), self.sexpr(r, env)
                return ("lean", "((%s &&& %s) == %s)" % (b, a, b))
        if isinstance(e, ast.Call) and isinstance(e.func, ast.Attribute) and len(e.args) == 1 and not e.keywords:
            a, b = self.sexpr(e.func.value, env), self.sexpr(e.args[0], env)
            if e.func.attr == "issubset":
                return ("lean", "((%s &&& %s) == %s)" % (a, b, a))
            if e.func.attr == "issuperset":
                return ("lean", "((%s &&& %s) == %s)" % (b, a, b))
            if e.func.attr == "isdisjoint":
                return ("lean", "((%s &&& %s) == 0)" % (a, b))
        return ("lean", "(%s != 0)" % self.sexpr(e, env))       # truthiness of a set

    # ---- weights
    def wexpr(self, e, env, idx):
        """value added to the score: ("const", k) or ("weight",)"""
        if isinstance(e, ast.Constant) and isinstance(e.value, int) and not isinstance(e.value, bool) and e.value >= 0:
            return ("const", e.value)
        if isinstance(e, ast.Name) and e.id in env and env[e.id][0] == "wt":
            return env[e.id][1]
        if isinstance(e, ast.Subscript) and isinstance(e.value, ast.Name) and e.value.id == "weights" \
                and isinstance(e.slice, ast.Name) and e.slice.id == idx:
            if self.flags["weights_none"]:
                raise Unsupported("weights[n] is evaluated when weights is None")
            return ("weight",)
        if isinstance(e, ast.IfExp):
            k, v = self.cond(e.test, env)
            if k != "flag":
                raise Unsupported("weight chosen by a set test")
            return self.wexpr(e.body if v else e.orelse, env, idx)
        raise Unsupported("weight expression %s" % ast.dump(e)[:120])

    # ---- statements; returns a tree: ("leaf", out, scores, bys) | ("if", cond, t, f)
    def run(self, stmts, env, st, idx, roles):
        if not stmts:
            return ("leaf", st)
        s, rest = stmts[0], stmts[1:]
        if _is_doc(s) or isinstance(s, ast.Pass):
            return self.run(rest, env, st, idx, roles)
        if isinstance(s, ast.Assign) and len(s.targets) == 1:
            t = s.targets[0]
            if isinstance(t, ast.Tuple) and isinstance(s.value, ast.Name) and s.value.id == roles["tuple"]:
                names = [x.id for x in t.elts]
                if len(names) != len(roles["vars"]):
                    raise Unsupported("tuple unpacking of the zipped sets")
                env = dict(env)
                for nm, v in zip(names, roles["vars"]):
                    env[nm] = ("set", v)
                return self.run(rest, env, st, idx, roles)
            if isinstance(t, ast.Name):
                env = dict(env)
                try:
                    env[t.id] = ("set", self.sexpr(s.value, env))
                except Unsupported:
                    env[t.id] = ("wt", self.wexpr(s.value, env, idx))
                return self.run(rest, env, st, idx, roles)
        if isinstance(s, ast.AugAssign) and isinstance(s.op, ast.Add):
            if isinstance(s.target, ast.Name) and s.target.id == "score":
                st = dict(st, scores=st["scores"] + [self.wexpr(s.value, env, idx)])
                return self.run(rest, env, st, idx, roles)
            if isinstance(s.target, ast.Subscript) and isinstance(s.target.value, ast.Name) and s.target.value.id == "score_by_character_list" \
                    and isinstance(s.target.slice, ast.Name) and s.target.slice.id == idx:
                if self.flags["by_none"]:
                    raise Unsupported("score_by_character_list[n] is written when the list is None")
                st = dict(st, bys=st["bys"] + [self.wexpr(s.value, env, idx)])
                return self.run(rest, env, st, idx, roles)
        if isinstance(s, ast.Expr) and isinstance(s.value, ast.Call) and isinstance(s.value.func, ast.Attribute) \
                and s.value.func.attr == "append" and isinstance(s.value.func.value, ast.Name) and s.value.func.value.id == "result" \
                and len(s.value.args) == 1:
            if st["out"] is not None:
                raise Unsupported("two sets appended to result for one character")
            st = dict(st, out=self.sexpr(s.value.args[0], env))
            return self.run(rest, env, st, idx, roles)
        if isinstance(s, ast.If):
            k, v = self.cond(s.test, env)
            if k == "flag":
                return self.run((s.body if v else s.orelse) + rest, env, st, idx, roles)
            return ("if", v, self.run(s.body + rest, env, st, idx, roles), self.run(s.orelse + rest, env, st, idx, roles))
        raise Unsupported("statement in the per-character loop: %s" % ast.dump(s)[:160])


def _render(tree, leaf, ind=1):
    pad = "  " * ind
    if tree[0] == "leaf":
        return pad + leaf(tree[1])
    return "%sif %s then\n%s\n%selse\n%s" % (pad, tree[1], _render(tree[2], leaf, ind + 1), pad, _render(tree[3], leaf, ind + 1))


def _zip_loop(fn, nargs):
    """the unique `for n, ssp in enumerate(zip(a, b, ...))` with `nargs` zipped lists"""
    found = []
    for node in ast.walk(fn):
        if isinstance(node, ast.For) and isinstance(node.iter, ast.Call) and isinstance(node.iter.func, ast.Name) \
                and node.iter.func.id == "enumerate" and len(node.iter.args) == 1:
            z = node.iter.args[0]
            if isinstance(z, ast.Call) and isinstance(z.func, ast.Name) and z.func.id == "zip" and len(z.args) == nargs \
                    and all(isinstance(a, ast.Name) for a in z.args):
                found.append(node)
    if len(found) != 1:
        raise Unsupported("%s: expected one enumerate(zip(...)) loop over %d lists, found %d" % (fn.name, nargs, len(found)))
    loop = found[0]
    if loop.orelse:
        raise Unsupported("for/else")
    t = loop.target
    if not (isinstance(t, ast.Tuple) and len(t.elts) == 2 and isinstance(t.elts[0], ast.Name)):
        raise Unsupported("loop target")
    return loop, t.elts[0].id, t.elts[1], [a.id for a in loop.iter.args[0].args]


def _roles_down(fn, lists):
    """which zipped list is the accumulated left list and which the next child's: `left_ssl = get(left_c)` / `right_ssl = get(right_c)`
    with `left_c, right_c = c[:2]` (positions decide, not names)"""
    order = None
    for node in ast.walk(fn):
        if isinstance(node, ast.Assign) and len(node.targets) == 1 and isinstance(node.targets[0], ast.Tuple) \
                and isinstance(node.value, ast.Subscript) and isinstance(node.value.slice, ast.Slice):
            sl = node.value.slice
            if sl.lower is None and isinstance(sl.upper, ast.Constant) and sl.upper.value == 2:
                order = [x.id for x in node.targets[0].elts]
    if order is None or len(order) != 2:
        raise Unsupported("fitch_down_pass: cannot find `left_c, right_c = c[:2]`")
    src = {}
    for node in ast.walk(fn):
        if isinstance(node, ast.Assign) and len(node.targets) == 1 and isinstance(node.targets[0], ast.Name) \
                and isinstance(node.value, ast.Call) and len(node.value.args) == 1 and isinstance(node.value.args[0], ast.Name) \
                and isinstance(node.value.func, ast.Name) and node.value.func.id == "get_node_state_sets":
            src.setdefault(node.targets[0].id, node.value.args[0].id)
    out = []
    for l in lists:
        if src.get(l) == order[0]:
            out.append("l")
        elif src.get(l) == order[1]:
            out.append("r")
        else:
            raise Unsupported("fitch_down_pass: list %s is not read from one of the first two children" % l)
    if sorted(out) != ["l", "r"]:
        raise Unsupported("fitch_down_pass: zipped lists are not (left, right)")
    return out


def _roles_up(fn, lists):
    """par / curr / left / right by where each list is read from: getattr(<node var>, name) with the node var being the loop node,
    its `.parent_node`, or one of the two unpacked `.child_nodes()`"""
    loopvar = None
    for node in ast.walk(fn):
        if isinstance(node, ast.For) and isinstance(node.iter, ast.Name) and node.iter.id == "preorder_node_iter" and isinstance(node.target, ast.Name):
            loopvar = node.target.id
    if loopvar is None:
        raise Unsupported("fitch_up_pass: no `for nd in preorder_node_iter`")
    role_of_node = {loopvar: "c"}
    kids = None
    for node in ast.walk(fn):
        if isinstance(node, ast.Assign) and len(node.targets) == 1:
            t, v = node.targets[0], node.value
            if isinstance(t, ast.Name) and isinstance(v, ast.Attribute) and v.attr == "parent_node" and isinstance(v.value, ast.Name) and v.value.id == loopvar:
                role_of_node[t.id] = "p"
            if isinstance(t, ast.Name) and isinstance(v, ast.Call) and isinstance(v.func, ast.Attribute) and v.func.attr == "child_nodes" \
                    and isinstance(v.func.value, ast.Name) and v.func.value.id == loopvar:
                kids = t.id
    for node in ast.walk(fn):
        if isinstance(node, ast.Assign) and len(node.targets) == 1 and isinstance(node.targets[0], ast.Tuple) \
                and isinstance(node.value, ast.Name) and node.value.id == kids and len(node.targets[0].elts) == 2:
            role_of_node[node.targets[0].elts[0].id] = "l"
            role_of_node[node.targets[0].elts[1].id] = "r"
    src = {}
    for node in ast.walk(fn):
        if isinstance(node, ast.Assign) and len(node.targets) == 1 and isinstance(node.targets[0], ast.Name) \
                and isinstance(node.value, ast.Call) and isinstance(node.value.func, ast.Name) and node.value.func.id == "getattr" \
                and len(node.value.args) >= 2 and isinstance(node.value.args[0], ast.Name):
            src.setdefault(node.targets[0].id, node.value.args[0].id)
    out = []
    for l in lists:
        r = role_of_node.get(src.get(l))
        if r is None:
            raise Unsupported("fitch_up_pass: cannot tell which node list %s is read from" % l)
        out.append(r)
    if sorted(out) != ["c", "l", "p", "r"]:
        raise Unsupported("fitch_up_pass: zipped lists are not (parent, node, left child, right child) in some order")
    return out


def _exec(fn, nargs, roles_fn, flags):
    loop, idx, tup, lists = _zip_loop(fn, nargs)
    roles = roles_fn(fn, lists)
    env = {}
    if isinstance(tup, ast.Tuple):
        for nm, v in zip([x.id for x in tup.elts], roles):
            env[nm] = ("set", v)
        r = {"tuple": None, "vars": roles}
    else:
        r = {"tuple": tup.id, "vars": roles}
    tree = Sym(flags).run(loop.body, env, {"out": None, "scores": [], "bys": []}, idx, r)
    return tree


def _leaves(tree):
    if tree[0] == "leaf":
        return [tree[1]]
    return _leaves(tree[2]) + _leaves(tree[3])


def generate(repo):
    path = os.path.join(repo, "src/dendropy/model/parsimony.py")
    mod = ast.parse(open(path).read())
    down = find_function(mod, "fitch_down_pass")
    up = find_function(mod, "fitch_up_pass")
    runs = {}
    for wn in (True, False):
        for bn in (True, False):
            runs[(wn, bn)] = _exec(down, 2, _roles_down, {"weights_none": wn, "by_none": bn})
    sets = {k: _render(t, lambda st: st["out"] if st["out"] is not None else "MISSING") for k, t in runs.items()}
    if len(set(sets.values())) != 1 or "MISSING" in sets[(True, True)]:
        raise Unsupported("fitch_down_pass: the set appended for a character depends on weights / score_by_character_list being None, or is missing on a path")
    # the score: constants when weights is None, weights[n] otherwise, the same number of additions either way
    units = set()
    for bn in (True, False):
        for st in _leaves(runs[(True, bn)]):
            for w in st["scores"] + st["bys"]:
                if w[0] != "const":
                    raise Unsupported("weights is None but the score is increased by weights[n]")
                units.add(w[1])
        for st in _leaves(runs[(False, bn)]):
            for w in st["scores"] + st["bys"]:
                if w != ("weight",):
                    raise Unsupported("weights are given but the score is increased by a constant")
    if len(units) > 1:
        raise Unsupported("several different constants are added to the score when weights is None")
    unit = units.pop() if units else 1
    cnt = {k: _render(t, lambda st: str(len(st["scores"]))) for k, t in runs.items()}
    if len(set(cnt.values())) != 1:
        raise Unsupported("the number of score increments depends on weights / score_by_character_list being None")
    for wn in (True, False):
        if any(st["bys"] for st in _leaves(runs[(wn, True)])):
            raise Unsupported("score_by_character_list is written although it is None")
    bys = {wn: _render(runs[(wn, False)], lambda st: str(len(st["bys"]))) for wn in (True, False)}
    if bys[True] != bys[False]:
        raise Unsupported("per-character increments depend on weights being None")
    uptree = _exec(up, 4, _roles_up, {"weights_none": True, "by_none": True})
    for st in _leaves(uptree):
        if st["out"] is None or st["scores"] or st["bys"]:
            raise Unsupported("fitch_up_pass: a path appends no set / touches a score")
    out = ["namespace DendroModel.C16Kernels", "",
           "/-- fitch_down_pass, one character of one (left, right) pair: the set appended to `result` -/",
           "def downSet (l r : Nat) : Nat :=", sets[(True, True)], "",
           "/-- how many times `score += wt` runs for this character at this pair -/",
           "def downChanges (l r : Nat) : Nat :=", cnt[(True, True)], "",
           "/-- how many times `score_by_character_list[n] += wt` runs (when a list is given) -/",
           "def downByChar (l r : Nat) : Nat :=", bys[True], "",
           "/-- `wt` when `weights is None` -/",
           "def unitWeight : Nat := %d" % unit, "",
           "/-- fitch_up_pass, one character of one node: parent's final set `p`, the node's own set `c`, its children's sets `l`, `r` -/",
           "def upFinal (p c l r : Nat) : Nat :=", _render(uptree, lambda st: st["out"]), "",
           "end DendroModel.C16Kernels"]
    return "\n".join(out) + "\n"
