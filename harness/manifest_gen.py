"""Regenerates MANIFEST.json from the property modules present in harness/props (keeps it valid at all times)."""
import json
import os
import sys

HERE = os.path.dirname(os.path.abspath(__file__))
sys.path.insert(0, HERE)
VERIF = os.path.dirname(HERE)
ALL = ["C%02d" % i for i in range(1, 21)]
BASELINE = json.load(open("/root/.vp/BASELINE.json"))["cmd"] if os.path.exists("/root/.vp/BASELINE.json") else ""


def main():
    import importlib
    checks, na = [], []
    extra_na = {}
    p = os.path.join(VERIF, "not_applicable.json")
    if os.path.exists(p):
        extra_na = json.load(open(p))
    for pid in ALL:
        path = os.path.join(HERE, "props", pid.lower() + ".py")
        claimed = json.load(open(os.path.join(VERIF, "claimed.json")))
        if not os.path.exists(path) or pid in extra_na or pid not in claimed:
            na.append({"property_id": pid, "reason": extra_na.get(pid, "check not built yet (work in progress); no claim is made for this property")})
            continue
        mod = importlib.import_module("props." + pid.lower())
        checks.append({
            "property_id": pid,
            "quick_cmd": "./check %s --tier quick" % pid,
            "thorough_cmd": "./check %s --tier thorough" % pid,
            "evidence_file": "evidence/%s.json" % pid,
            "replay_cmd_template": "./check %s --replay {path}" % pid,
            "engine": "lean4-model+correspondence",
            "level_claimed": {
                "category": getattr(mod, "LEVEL", "proof"),
                "text": getattr(mod, "LEVEL_TEXT", getattr(mod, "EXPLANATION", "")),
                "design_ref": "DESIGN.md §4 %s" % pid,
            },
            "level_note": getattr(mod, "LEVEL_NOTE", "Trusted base: DESIGN.md §2.10 (Lean kernel; axioms propext/Classical.choice/Quot.sound only; the translator; the correspondence harness). "
                                  + " ".join(getattr(mod, "MODELLED_NOT_VERIFIED", []))),
            "technique": getattr(mod, "TECHNIQUE", "Lean 4 theorems about an executable model (hand-written loops and object graphs; closed-form kernels, tables and constants regenerated from the source on every run with bridge theorems) + differential correspondence check against the implementation + independent property oracle for failing inputs and replays"),
        })
    man = {
        "version": 1,
        "setup_cmd": "./check --setup",
        "hooks": {
            "guard": "DENDROPY_VERIF",
            "enable": "none needed: all instrumentation is installed at run time by the harness through attribute assignment on imported modules; /repo carries no hook code",
            "baseline_off_cmd": BASELINE.replace(" --junitxml=<file>", ""),
            "source_commits": [],
            "add_only": True,
        },
        "engines": [{"name": "lean4-model+correspondence", "path": "lean/ + harness/",
                     "serves_properties": [c["property_id"] for c in checks],
                     "kind_free_text": "Lean 4 models and theorems (lean/DendroModel), translator (harness/extract.py and 26 plug-ins under harness/gen regenerating lean/DendroModel/Gen on every run), line-protocol drivers (lean/Driver), Python correspondence harness and oracles (harness/props)"}],
        "checks": checks,
        "not_applicable": na,
        "notes": "See DESIGN.md. Exit codes: 0 held / only known findings, 1 VIOLATION, 2 infrastructure error.",
    }
    with open(os.path.join(VERIF, "MANIFEST.json"), "w") as f:
        json.dump(man, f, indent=1)
    print("MANIFEST.json: %d checks, %d not_applicable" % (len(checks), len(na)))


if __name__ == "__main__":
    main()
