"""Lean side: regeneration of Gen/*.lean, lake builds under a lock, axiom audit, forbidden-token grep, drivers."""
import fcntl
import os
import re
import subprocess
import sys
import time

from common import LEAN_DIR, VERIF, ALLOWED_AXIOMS, REPO

LOCK = os.path.join(LEAN_DIR, ".build.lock")
BIN = os.path.join(LEAN_DIR, ".lake", "build", "bin")

FORBIDDEN = re.compile(r"\bsorry\b|\badmit\b|^\s*axiom\s|native_decide|bv_decide|implemented_by|\bunsafe\s|maxHeartbeats\s+0\b|@\[extern", re.M)


class lock(object):
    """exclusive, re-entrant (per process) lock over regenerate + build + audit + driver snapshot, so that
    concurrent checks (possibly against different $DENDROPY_REPO) never see each other's Gen/*.lean"""
    depth = 0
    f = None

    def __enter__(self):
        if lock.depth == 0:
            lock.f = open(LOCK, "w")
            fcntl.flock(lock.f, fcntl.LOCK_EX)
        lock.depth += 1

    def __exit__(self, *a):
        lock.depth -= 1
        if lock.depth == 0:
            fcntl.flock(lock.f, fcntl.LOCK_UN)
            lock.f.close()
        return False


def run(cmd, timeout=3600, cwd=LEAN_DIR, input=None):
    """run a command in its own process group; on timeout the whole group (lake AND the lean processes it spawned) is killed
    and a non-zero code is returned, so that a runaway elaboration is a failed build, never a hang that keeps the lock"""
    import signal
    p = subprocess.Popen(cmd, cwd=cwd, stdout=subprocess.PIPE, stderr=subprocess.STDOUT, text=True,
                         stdin=subprocess.PIPE if input is not None else None, start_new_session=True)
    try:
        out, _ = p.communicate(input=input, timeout=timeout)
        return p.returncode, out
    except subprocess.TimeoutExpired:
        try:
            os.killpg(p.pid, signal.SIGKILL)
        except OSError:
            pass
        out, _ = p.communicate()
        return 124, (out or "") + "\nTIMEOUT after %ss: %s" % (timeout, " ".join(cmd))


def regenerate():
    """re-run the translator on the current $DENDROPY_REPO sources.
    returns {gen_module: error-or-None}; files are rewritten only when their text changes."""
    import extract
    return extract.regenerate(REPO, os.path.join(LEAN_DIR, "DendroModel", "Gen"))


def build(targets, timeout=1500):
    with lock():
        rc, out = run(["lake", "build"] + list(targets), timeout=timeout)
    return rc == 0, out


def strip_comments(text):
    # nested block comments /- -/ and line comments --
    out = []
    i, depth, n = 0, 0, len(text)
    while i < n:
        if text.startswith("/-", i):
            depth += 1
            i += 2
        elif depth and text.startswith("-/", i):
            depth -= 1
            i += 2
        elif depth:
            if text[i] == "\n":
                out.append("\n")
            i += 1
        elif text.startswith("--", i):
            while i < n and text[i] != "\n":
                i += 1
        else:
            out.append(text[i])
            i += 1
    return "".join(out)


def module_path(mod):
    return os.path.join(LEAN_DIR, *mod.split(".")) + ".lean"


def import_closure(mod, seen=None):
    """DendroModel.* modules reachable from `mod` through imports"""
    seen = seen if seen is not None else set()
    if mod in seen:
        return seen
    p = module_path(mod)
    if not os.path.exists(p):
        return seen
    seen.add(mod)
    with open(p) as f:
        for line in f:
            m = re.match(r"\s*(?:public\s+)?import\s+(DendroModel[\w.]*)", line)
            if m:
                import_closure(m.group(1), seen)
    return seen


def external_imports(mods):
    ext = set()
    for mod in mods:
        with open(module_path(mod)) as f:
            for line in f:
                m = re.match(r"\s*(?:public\s+)?import\s+([\w.]+)", line)
                if m and not m.group(1).startswith("DendroModel"):
                    ext.add(m.group(1))
    return sorted(ext)


def grep_forbidden(mods):
    hits = []
    for mod in sorted(mods):
        text = strip_comments(open(module_path(mod)).read())
        for m in FORBIDDEN.finditer(text):
            line = text.count("\n", 0, m.start()) + 1
            hits.append("%s:%d:%s" % (mod, line, m.group(0).strip()))
    return hits


def theorem_names(mod, namespace):
    """property theorems of a Props module: every `theorem NAME` declared directly inside `namespace <namespace>`
    (helper lemmas live in other namespaces, e.g. `<namespace>.Aux`, and are not obligations themselves)"""
    text = strip_comments(open(module_path(mod)).read())
    stack, names = [], []
    for line in text.split("\n"):
        m = re.match(r"\s*namespace\s+(\S+)", line)
        if m:
            stack.append(m.group(1))
            continue
        m = re.match(r"\s*end\s+(\S+)", line)
        if m and stack and stack[-1] == m.group(1):
            stack.pop()
            continue
        m = re.match(r"\s*(?:@\[[^\]]*\]\s*)?(?:protected\s+|private\s+)?theorem\s+([^\s:({\[]+)", line)
        if m and ".".join(stack) == namespace:
            names.append("%s.%s" % (namespace, m.group(1)))
    return names


def audit(prop, mods, theorems):
    """#print axioms on every theorem. returns {theorem: (ok, axioms-or-error)}"""
    d = os.path.join(LEAN_DIR, ".audit")
    os.makedirs(d, exist_ok=True)
    path = os.path.join(d, "Audit_%s_%d.lean" % (prop, os.getpid()))
    with open(path, "w") as f:
        for m in mods:
            f.write("import %s\n" % m)
        for t in theorems:
            f.write("#print axioms %s\n" % t)
    rc, out = run(["lake", "env", "lean", path], timeout=1800)
    try:
        os.remove(path)
    except OSError:
        pass
    res = {}
    for m in re.finditer(r"'([^']+)' (does not depend on any axioms|depends on axioms:\s*\[([^\]]*)\])", out, re.S):
        name = m.group(1)
        axs = set() if m.group(3) is None else {a.strip() for a in m.group(3).replace("\n", " ").split(",") if a.strip()}
        bad = sorted(axs - ALLOWED_AXIOMS)
        res[name] = (not bad, sorted(axs))
    for t in theorems:
        if t not in res:
            res[t] = (False, "not found / did not elaborate: " + out[-400:])
    return res, out


def snapshot_driver(exe):
    """private copy of a freshly built driver (taken inside the lock), removed at interpreter exit"""
    import atexit
    import shutil
    src = os.path.join(BIN, exe)
    if not os.path.exists(src):
        return None
    d = os.path.join(LEAN_DIR, ".lake", "drv-snap")
    os.makedirs(d, exist_ok=True)
    dst = os.path.join(d, "%s.%d" % (exe, os.getpid()))
    shutil.copy2(src, dst)
    atexit.register(lambda: os.path.exists(dst) and os.remove(dst))
    return dst


class Driver(object):
    """batch line-protocol client of a compiled Lean driver"""

    def __init__(self, exe, path=None):
        self.exe = path or os.path.join(BIN, exe)
        self.name = exe

    def available(self):
        return os.path.exists(self.exe)

    def ask(self, lines, timeout=1800):
        if not lines:
            return []
        for l in lines:
            if "\n" in l:
                raise ValueError("newline in protocol line")
        p = subprocess.run([self.exe], input="\n".join(lines) + "\n", stdout=subprocess.PIPE,
                           stderr=subprocess.PIPE, text=True, timeout=timeout)
        out = p.stdout.split("\n")
        if out and out[-1] == "":
            out.pop()
        if p.returncode != 0 or len(out) != len(lines):
            raise RuntimeError("driver %s: rc=%s, %d lines in, %d lines out; stderr: %s" % (
                self.name, p.returncode, len(lines), len(out), p.stderr[-500:]))
        return out
