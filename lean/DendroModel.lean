-- Root of the `DendroModel` library: shared basics only.  Property modules are built by name
-- (`lake build DendroModel.Props.Cxx`) so that one broken property never blocks another.
import DendroModel.Basic.Frac
import DendroModel.Basic.Tree
