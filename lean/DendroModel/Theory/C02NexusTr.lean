import DendroModel.Theory.C02Nexus
/-! token chains (`Pre`), the TRANSLATE statement of a TREES block (writer text → tokens → `nexusTranslate`), and the
    command loop of the block on the TREE lines for an arbitrary mapper -/
namespace DendroModel.C02
open DendroModel.Tables
namespace Aux

/-- tokenizing `inp` yields the tokens `ts` and then whatever tokenizing `inp'` yields -/
def Pre (pu : Bool) (inp : Str) (ts : List TokE) (inp' : Str) : Prop :=
  tokenizeAll pu inp = ⟨ts ++ (tokenizeAll pu inp').toks, (tokenizeAll pu inp').ok, (tokenizeAll pu inp').atEof⟩

theorem Pre.trans {pu : Bool} {a b c : Str} {ts us : List TokE} (h1 : Pre pu a ts b) (h2 : Pre pu b us c) :
    Pre pu a (ts ++ us) c := by
  unfold Pre at *
  rw [h1, h2]
  simp

theorem Pre.of_next {pu : Bool} {inp t : Str} {q : Bool} {cm : List Str} {rest : Str}
    (h : nextTok pu inp = .tok t q cm rest) : Pre pu inp [⟨t, q, cm⟩] rest := by
  unfold Pre
  rw [tokenizeAll_step pu _ _ _ _ _ h]
  rfl

theorem Pre.final {pu : Bool} {a b : Str} {ts us : List TokE} {ok eof : Bool} (h1 : Pre pu a ts b)
    (h2 : tokenizeAll pu b = ⟨us, ok, eof⟩) : tokenizeAll pu a = ⟨ts ++ us, ok, eof⟩ := by
  unfold Pre at h1
  rw [h1, h2]

/-- a keyword / number / plain token after white space -/
theorem pre_word (pu : Bool) (ws w suf : Str) (hws : ∀ c ∈ ws, isUncap c = true) (hw : PlainWord w) (hs : Stop suf) :
    Pre pu (ws ++ (w ++ suf)) [⟨w, false, []⟩] (plainAfter suf) := by
  apply Pre.of_next
  unfold nextTok
  exact next_word pu _ ws w suf [] hws hw hs

/-- a captured delimiter after white space -/
theorem pre_punct (pu : Bool) (ws : Str) (p : Char) (rest : Str) (hws : ∀ c ∈ ws, isUncap c = true) (hp : p ∈ tokCaptured) :
    Pre pu (ws ++ p :: rest) [⟨[p], false, []⟩] rest := by
  apply Pre.of_next
  unfold nextTok
  rw [next_skip pu _ ws _ [] hws]
  exact next_punct pu _ p hp rest []

/-- an escaped label (default protect class) after white space, followed by white space: the token is the label; what is
    left is white space and the rest.  `q` = quoted; an unquoted token has no protected character. -/
theorem pre_label_ws (ps uu pu : Bool) (hc : Consistent ps uu pu) (ws l : Str) (hws : ∀ c ∈ ws, isUncap c = true)
    (hne : l ≠ []) (hdom : ∀ c ∈ l, labelChar c = true) (d : Char) (hd : d ∈ tokUncaptured) (rest : Str) :
    ∃ q ws', (∀ c ∈ ws', isUncap c = true) ∧ (q = true ∨ ∀ c ∈ l, protectDefault.contains c = false) ∧
      Pre pu (ws ++ (escape ps (!uu) protectDefault l ++ d :: rest)) [⟨l, q, []⟩] (ws' ++ rest) := by
  obtain ⟨hfo, hpa⟩ := follower_ws d hd rest
  obtain ⟨q, hq, hqk⟩ := next_escape_gen protectDefault covers_default ps uu pu hc l hne hdom (d :: rest) hfo
  have hdu : isUncap d = true := by simpa [isUncap] using hd
  cases q with
  | true =>
    refine ⟨true, [d], by simpa using hdu, hqk, ?_⟩
    apply Pre.of_next
    unfold nextTok
    rw [next_skip pu _ ws _ [] hws, hq _ []]
    simp
  | false =>
    refine ⟨false, [], by simp, hqk, ?_⟩
    apply Pre.of_next
    unfold nextTok
    rw [next_skip pu _ ws _ [] hws, hq _ [], hpa]
    simp

/-- …followed by a captured delimiter: the delimiter stays -/
theorem pre_label_cap (ps uu pu : Bool) (hc : Consistent ps uu pu) (ws l : Str) (hws : ∀ c ∈ ws, isUncap c = true)
    (hne : l ≠ []) (hdom : ∀ c ∈ l, labelChar c = true) (d : Char) (hd : d ∈ tokCaptured) (rest : Str) :
    ∃ q, (q = true ∨ ∀ c ∈ l, protectDefault.contains c = false) ∧
      Pre pu (ws ++ (escape ps (!uu) protectDefault l ++ d :: rest)) [⟨l, q, []⟩] (d :: rest) := by
  obtain ⟨hfo, hpa⟩ := follower_cap d hd rest
  obtain ⟨q, hq, hqk⟩ := next_escape_gen protectDefault covers_default ps uu pu hc l hne hdom (d :: rest) hfo
  refine ⟨q, hqk, ?_⟩
  apply Pre.of_next
  unfold nextTok
  rw [next_skip pu _ ws _ [] hws, hq _ [], hpa]
  cases q <;> simp

/-! ### the TRANSLATE statement -/

/-- the token texts of the entry list: `token label , token label , …` -/
def entryTexts : List (Str × Str) → List Str
  | [] => []
  | [p] => [p.1, p.2]
  | p :: q :: r => p.1 :: p.2 :: [','] :: entryTexts (q :: r)

theorem entryTexts_len : ∀ (tm : List (Str × Str)), tm.length ≤ (entryTexts tm).length
  | [] => by simp
  | [_] => by simp [entryTexts]
  | _ :: q :: r => by
    have := entryTexts_len (q :: r)
    simp only [entryTexts, List.length_cons] at this ⊢
    omega

theorem ws13 : ∀ c ∈ indent8 ++ [' ', ' ', ' ', ' ', ' '], isUncap c = true := by decide

theorem stop_nl (r : Str) : Stop ('\n' :: r) ∧ plainAfter ('\n' :: r) = r := by
  have h : isUncap '\n' = true := by decide
  exact ⟨Or.inl h, by simp [plainAfter, h]⟩

/-- tokens of the entries of a TRANSLATE statement followed by any text `T`: their texts are `entryTexts tm`, and what
    is left is white space and `T`.  Translation tokens are plain words (digit strings in the default table). -/
theorem entries_tokens (o : WOpts) (pu : Bool) (hc : Consistent o.ps o.uu pu) (T : Str) : ∀ (tm : List (Str × Str)), tm ≠ [] →
    (∀ p ∈ tm, PlainWord p.1 ∧ p.2 ≠ [] ∧ ∀ c ∈ p.2, labelChar c = true) → ∀ (ws : Str), (∀ c ∈ ws, isUncap c = true) →
    ∃ es ws', (∀ c ∈ ws', isUncap c = true) ∧ es.map (·.text) = entryTexts tm ∧
      Pre pu (ws ++ (translateEntries o tm ++ T)) es (ws' ++ T) := by
  intro tm
  induction tm with
  | nil => intro h; exact absurd rfl h
  | cons p tm ih =>
    intro _ hall ws hws
    obtain ⟨hp1, hp2, hp3⟩ := hall p (by simp)
    have hws' : ∀ c ∈ ws ++ (indent8 ++ [' ', ' ', ' ', ' ', ' ']), isUncap c = true := by
      intro c hcm
      rcases List.mem_append.mp hcm with h | h
      · exact hws c h
      · exact ws13 c h
    cases tm with
    | nil =>
      have e : ws ++ (translateEntries o [p] ++ T) =
          (ws ++ (indent8 ++ [' ', ' ', ' ', ' ', ' '])) ++ (p.1 ++ (' ' :: (escape o.ps (!o.uu) protectDefault p.2 ++ '\n' :: T))) := by
        simp [translateEntries, translateEntry]
      have h1 := pre_word pu _ p.1 _ hws' hp1 (stop_space (escape o.ps (!o.uu) protectDefault p.2 ++ '\n' :: T)).1
      rw [(stop_space _).2] at h1
      obtain ⟨q, ws', hw', _, h2⟩ := pre_label_ws o.ps o.uu pu hc [] p.2 (by simp) hp2 hp3 '\n' (by decide) T
      rw [List.nil_append] at h2
      refine ⟨[⟨p.1, false, []⟩, ⟨p.2, q, []⟩], ws', hw', by simp [entryTexts], ?_⟩
      rw [e]
      exact h1.trans h2
    | cons p2 tm' =>
      obtain ⟨es, ws', hw', hes, hpre⟩ := ih (by simp) (fun x hx => hall x (by simp [hx])) ['\n'] (by decide)
      have e : ws ++ (translateEntries o (p :: p2 :: tm') ++ T) =
          (ws ++ (indent8 ++ [' ', ' ', ' ', ' ', ' '])) ++
            (p.1 ++ (' ' :: (escape o.ps (!o.uu) protectDefault p.2 ++ ',' :: (['\n'] ++ (translateEntries o (p2 :: tm') ++ T))))) := by
        simp [translateEntries, translateEntry]
      have h1 := pre_word pu _ p.1 _ hws' hp1
        (stop_space (escape o.ps (!o.uu) protectDefault p.2 ++ ',' :: (['\n'] ++ (translateEntries o (p2 :: tm') ++ T)))).1
      rw [(stop_space _).2] at h1
      obtain ⟨q, _, h2⟩ := pre_label_cap o.ps o.uu pu hc [] p.2 (by simp) hp2 hp3 ',' (by decide)
        (['\n'] ++ (translateEntries o (p2 :: tm') ++ T))
      rw [List.nil_append] at h2
      have h3 := pre_punct pu [] ',' (['\n'] ++ (translateEntries o (p2 :: tm') ++ T)) (by simp) (by decide)
      rw [List.nil_append] at h3
      refine ⟨[⟨p.1, false, []⟩] ++ [⟨p.2, q, []⟩] ++ [⟨[','], false, []⟩] ++ es, ws', hw', by simp [entryTexts, hes], ?_⟩
      rw [e]
      exact ((h1.trans h2).trans h3).trans hpre

theorem find_ci_mem (cf : Char → Char) (ns : List Str) (hU : CaseCons cf ns) (l : Str) (hl : l ∈ ns) :
    ns.find? (fun x => lowerWith cf x == lowerWith cf l) = some l := by
  cases hf : ns.find? (fun x => lowerWith cf x == lowerWith cf l) with
  | none =>
    rw [List.find?_eq_none] at hf
    exact absurd (by simp) (hf l hl)
  | some x =>
    have hx := List.mem_of_find?_eq_some hf
    have hxl : lowerWith cf x = lowerWith cf l := by simpa using List.find?_some hf
    rw [hU x hx l hl hxl]

theorem map_text_cons {es : List TokE} {a : Str} {r : List Str} (h : es.map (·.text) = a :: r) :
    ∃ t es', es = t :: es' ∧ t.text = a ∧ es'.map (·.text) = r := by
  cases es with
  | nil => simp at h
  | cons t es' =>
    simp only [List.map_cons, List.cons.injEq] at h
    exact ⟨t, es', rfl, h.1, h.2⟩

/-- `_parse_translate_statement` on the tokens of a written TRANSLATE statement: the table comes back as written, and
    the tokens after the closing `;` are left.  Translation tokens are not `;`; labels are namespace members. -/
theorem translate_reads (cf : Char → Char) (ns : List Str) (hU : CaseCons cf ns) (semi : TokE) (hsemi : semi.text = [';'])
    (more : List TokE) : ∀ (tm : List (Str × Str)), tm ≠ [] → (∀ p ∈ tm, p.1 ≠ [';'] ∧ p.2 ∈ ns) →
    ∀ (es : List TokE), es.map (·.text) = entryTexts tm → ∀ (acc : List (Str × Str)) (f : Nat), tm.length ≤ f →
    nexusTranslate cf ns f (es ++ semi :: more) acc = some (acc ++ tm, more) := by
  intro tm
  induction tm with
  | nil => intro h; exact absurd rfl h
  | cons p tm ih =>
    intro _ hall es hes acc f hf
    obtain ⟨hp1, hp2⟩ := hall p (by simp)
    obtain ⟨f', rfl⟩ : ∃ f', f = f' + 1 := ⟨f - 1, by simp at hf; omega⟩
    have hfind := find_ci_mem cf ns hU p.2 hp2
    cases tm with
    | nil =>
      simp only [entryTexts] at hes
      obtain ⟨t, es1, rfl, ht, hes1⟩ := map_text_cons hes
      obtain ⟨l, es2, rfl, hl, hes2⟩ := map_text_cons hes1
      have : es2 = [] := by simpa using hes2
      subst this
      have hne : (t.text == [';']) = false := by rw [ht]; simpa using hp1
      simp only [List.cons_append, List.nil_append, nexusTranslate, hne, Bool.false_and, Bool.false_eq_true, if_false, hl, hfind,
        hsemi, beq_self_eq_true, if_true]
      rw [ht]
    | cons p2 tm' =>
      simp only [entryTexts] at hes
      obtain ⟨t, es1, rfl, ht, hes1⟩ := map_text_cons hes
      obtain ⟨l, es2, rfl, hl, hes2⟩ := map_text_cons hes1
      obtain ⟨c, es', rfl, hcomma, hes'⟩ := map_text_cons hes2
      have hne : (t.text == [';']) = false := by rw [ht]; simpa using hp1
      have hc1 : (([','] : Str) == [';']) = false := by decide
      have := ih (by simp) (fun x hx => hall x (by simp [hx])) es' hes' (acc ++ [(t.text, p.2)]) f' (by simp at hf ⊢; omega)
      simp only [List.cons_append, nexusTranslate, hne, Bool.false_and, Bool.false_eq_true, if_false, hl, hfind, hcomma, hc1,
        beq_self_eq_true, if_true]
      rw [this, ht]
      simp

/-! ### the command loop on the TREE lines -/

theorem ucase_END : ucase ['E', 'N', 'D'] = ['E', 'N', 'D'] := by decide

/-- `_parse_trees_block`'s loop on the tokens of the TREE lines followed by `END ;`, for a mapper `m` that every
    statement leaves unchanged and trees given by `nt` -/
theorem block_loop_trees (o : WOpts) (ro : ROpts) (m : Mapper) (nt : Str × WT → NT) (trees : List (Str × WT))
    (gs : List (List TokE)) (hgs : LineGroups o trees gs)
    (hassign : ∀ x ∈ trees, isBlank (toRT o x.2.2.2) = false ∧
      ∃ seen, assign ro (toRT o x.2.2.2) ⟨m, []⟩ = some (nt x, ⟨m, seen⟩)) (f : Nat) :
    nexusBlockLoop ro false (f + 1) (gs.flatten ++ [⟨['E', 'N', 'D'], false, []⟩, ⟨[';'], false, []⟩]) m [] =
      some (trees.map (namedWith nt o ro), m) := by
  cases trees with
  | nil =>
    cases gs with
    | cons g gs' => exact absurd hgs (by simp [LineGroups])
    | nil => simp [nexusBlockLoop, ucase_END]
  | cons x xs =>
    cases gs with
    | nil => exact absurd hgs (by simp [LineGroups])
    | cons g gs' =>
      obtain ⟨⟨kw, nm, eq, first, rest, hg, hkw, hrestg⟩, hgs'⟩ := hgs
      subst hg
      have hts := tree_stmts o ro m nt [⟨['E', 'N', 'D'], false, []⟩, ⟨[';'], false, []⟩]
        ⟨by simp [skipSemis, kind], by intro t r h; cases h; rw [ucase_END]; decide⟩ (by simp)
        (x :: xs) ((kw :: nm :: eq :: first :: rest) :: gs') ⟨⟨kw, nm, eq, first, rest, rfl, hkw, hrestg⟩, hgs'⟩ hassign
        kw (nm :: eq :: first :: rest) gs' rfl (by simp) []
      have hu : ucase kw.text = ['T', 'R', 'E', 'E'] := by rw [hkw]; exact ucase_TREE
      have hfl : ((kw :: nm :: eq :: first :: rest) :: gs').flatten ++ [⟨['E', 'N', 'D'], false, []⟩, ⟨[';'], false, []⟩] =
          kw :: ((nm :: eq :: first :: rest) ++ (gs'.flatten ++ [(⟨['E', 'N', 'D'], false, []⟩ : TokE), ⟨[';'], false, []⟩])) := by simp
      rw [hfl]
      simp only [nexusBlockLoop, hu]
      have d1 : ((['T', 'R', 'E', 'E'] : Str) == ['E', 'N', 'D']) = false := by decide
      have d2 : ((['T', 'R', 'E', 'E'] : Str) == ['E', 'N', 'D', 'B', 'L', 'O', 'C', 'K']) = false := by decide
      have d3 : ((['T', 'R', 'E', 'E'] : Str) == ['T', 'R', 'A', 'N', 'S', 'L', 'A', 'T', 'E']) = false := by decide
      simp only [d1, d2, d3, Bool.or_self, Bool.false_eq_true, if_false, beq_self_eq_true, if_true]
      have hll := linegroups_len o xs gs' hgs'
      rw [hts _ (by simp only [List.length_append, List.length_cons]; omega)]
      simp

end Aux
end DendroModel.C02
