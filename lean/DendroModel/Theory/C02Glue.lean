import DendroModel.Theory.C02Tok
import DendroModel.Theory.C02Parse
/-! character level ↔ token level: tokenizing what the writer renders gives back the token kinds it emitted -/
namespace DendroModel.C02
open DendroModel.Tables

/-- characters of an edge-length text (`repr` of a Python float or int) -/
def lenChar (c : Char) : Bool :=
  c.isDigit || c == '.' || c == 'e' || c == 'E' || c == '+' || c == '-' || c == 'i' || c == 'n' || c == 'f' || c == 'a' || c == 'N'

def LenOk (s : Str) : Prop := s ≠ [] ∧ ∀ c ∈ s, lenChar c = true

/-- a tree-weight text: a number text or a fraction of two (`"{}".format(tree.weight)` for int, float or Fraction weights) -/
def WeightOk (s : Str) : Prop := s ≠ [] ∧ ∀ c ∈ s, (lenChar c = true ∨ c = '/')

/-- an admissible label: non-empty, over the label domain -/
def Adm (s : Str) : Prop := s ≠ [] ∧ ∀ c ∈ s, labelChar c = true

namespace Aux

theorem lenChar_not_special : ∀ c ∈ tokSpecial, lenChar c = false := by decide
theorem lenChar_not_underscore : lenChar '_' = false := by decide
theorem punct_protected : ∀ c ∈ ['(', ')', ',', ':', ';'], protectNewick.contains c = true := by decide
theorem punct_captured : ∀ c ∈ ['(', ')', ',', ':', ';'], c ∈ tokCaptured := by decide
theorem punct_special : ∀ c ∈ ['(', ')', ',', ':', ';'], c ∈ tokSpecial := by decide

theorem not_special_ordinary (c : Char) (key : c ∈ tokSpecial → False) : ordinary c = true ∧ isQuote c = false := by
  have a : isUncap c = false := by
    cases h : isUncap c with
    | false => rfl
    | true => exact absurd (by simp [isUncap] at h; simp [tokSpecial, h]) key
  have b : isCap c = false := by
    cases h : isCap c with
    | false => rfl
    | true => exact absurd (by simp [isCap] at h; simp [tokSpecial, h]) key
  have d : isCB c = false := by
    cases h : isCB c with
    | false => rfl
    | true => exact absurd (by simp [isCB] at h; simp [tokSpecial, h]) key
  have e : isQuote c = false := by
    cases h : isQuote c with
    | false => rfl
    | true => exact absurd (by simp [isQuote] at h; simp [tokSpecial, h]) key
  simp [ordinary, a, b, d, e]

theorem lenChar_ordinary (c : Char) (h : lenChar c = true) : ordinary c = true ∧ isQuote c = false :=
  not_special_ordinary c (fun hm => by have := lenChar_not_special c hm; rw [h] at this; cases this)

theorem cap_facts (d : Char) (hd : d ∈ tokCaptured) : isCap d = true ∧ isUncap d = false := by
  refine ⟨by simpa [isCap] using hd, ?_⟩
  have := cap_not_uncap d hd
  cases h : isUncap d with
  | false => rfl
  | true => exact absurd (by simpa [isUncap] using h) this

/-- `__next__` on a captured delimiter -/
theorem next_punct (pu : Bool) (f : Nat) (p : Char) (hp : p ∈ tokCaptured) (rest : Str) (cm0 : List Str) :
    next pu (f + 1) (p :: rest) cm0 = .tok [p] false cm0 rest := by
  obtain ⟨h1, h2⟩ := cap_facts p hp
  rw [next]
  simp [skipWs, h1, h2]

/-- `__next__` on an edge-length text followed by a captured delimiter -/
theorem next_raw (pu : Bool) (f : Nat) (s : Str) (hs : LenOk s) (d : Char) (hd : d ∈ tokCaptured) (rest : Str) (cm0 : List Str) :
    next pu (f + 1) (s ++ d :: rest) cm0 = .tok s false cm0 (d :: rest) := by
  obtain ⟨hdc, hdu⟩ := cap_facts d hd
  obtain ⟨hne, hall⟩ := hs
  cases s with
  | nil => exact absurd rfl hne
  | cons c cs =>
    have h1 : ∀ x ∈ c :: cs, ordinary x = true := fun x hx => (lenChar_ordinary x (hall x hx)).1
    have h2 : isQuote c = false := (lenChar_ordinary c (hall c (by simp))).2
    obtain ⟨hfo, hpa⟩ := follower_cap d hd rest
    rw [next_plain pu f c cs (d :: rest) h1 h2 hfo.1 cm0, hpa]
    have : (c :: cs).map (conv pu) = c :: cs := by
      conv => rhs; rw [← List.map_id (c :: cs)]
      apply List.map_congr_left
      intro x hx
      have : x ≠ '_' := by
        intro he; subst he
        have := hall _ hx; rw [lenChar_not_underscore] at this; cases this
      simp [conv, this]
    rw [this]

/-! ### writer items, one per token -/

inductive XTok where
  | p (c : Char)      -- a structural character
  | esc (s : Str)     -- a tag, written through `escape_nexus_token`
  | raw (s : Str)     -- an edge-length text, written as is

def xrender (o : WOpts) : XTok → Str
  | .p c => [c]
  | .esc s => escape o.ps (!o.uu) protectNewick s
  | .raw s => s

def xrenderL (o : WOpts) : List XTok → Str
  | [] => []
  | x :: xs => xrender o x ++ xrenderL o xs

def xsTok : WTok → List XTok
  | .lp => [.p '(']
  | .rp => [.p ')']
  | .comma => [.p ',']
  | .tag s => [.esc s]
  | .len s => [.p ':', .raw s]

def xs : List WTok → List XTok
  | [] => []
  | w :: ws => xsTok w ++ xs ws

theorem xrenderL_append (o : WOpts) (a b : List XTok) : xrenderL o (a ++ b) = xrenderL o a ++ xrenderL o b := by
  induction a with
  | nil => rfl
  | cons x l ih => simp [xrenderL, ih]

theorem xs_append (a b : List WTok) : xs (a ++ b) = xs a ++ xs b := by
  induction a with
  | nil => rfl
  | cons x l ih => simp [xs, ih]

theorem render_xs (o : WOpts) (ws : List WTok) : render o ws = xrenderL o (xs ws) := by
  induction ws with
  | nil => rfl
  | cons w ws ih => cases w <;> simp [render, renderTok, xs, xsTok, xrenderL, xrender, xrenderL_append, ih]

def kindX : XTok → Tok
  | .p c => kind ⟨[c], false, []⟩
  | .esc s => .word s
  | .raw s => .word s

theorem view_xs (ws : List WTok) : view ws = (xs ws).map kindX := by
  induction ws with
  | nil => rfl
  | cons w ws ih => cases w <;> simp [view, viewTok, xs, xsTok, kindX, kind, ih]

def headIsP : List XTok → Prop
  | [] => True
  | .p _ :: _ => True
  | _ :: _ => False

/-- every word-like item is admissible and is followed by a structural character (or the end) -/
def XSep : List XTok → Prop
  | [] => True
  | .p c :: r => c ∈ ['(', ')', ',', ':', ';'] ∧ XSep r
  | .esc s :: r => Adm s ∧ headIsP r ∧ XSep r
  | .raw s :: r => LenOk s ∧ headIsP r ∧ XSep r

/-- what follows the items `r` starts with a captured delimiter -/
theorem head_cap (o : WOpts) (r : List XTok) (hr : XSep r) (hp : headIsP r) (d : Char) (hd : d ∈ tokCaptured) (rest : Str) :
    ∃ d' rest', xrenderL o r ++ d :: rest = d' :: rest' ∧ d' ∈ tokCaptured := by
  cases r with
  | nil => exact ⟨d, rest, rfl, hd⟩
  | cons x r' =>
    cases x with
    | p c => exact ⟨c, xrenderL o r' ++ d :: rest, by simp [xrenderL, xrender], punct_captured c hr.1⟩
    | esc s => exact absurd hp (by simp [headIsP])
    | raw s => exact absurd hp (by simp [headIsP])

theorem kind_word_of_unprotected (s : Str) (q : Bool) (cm : List Str) (hne : s ≠ [])
    (h : q = true ∨ ∀ c ∈ s, protectNewick.contains c = false) : kind ⟨s, q, cm⟩ = .word s := by
  rcases h with h | h
  · simp [kind, h]
  · cases q with
    | true => simp [kind]
    | false =>
      cases s with
      | nil => exact absurd rfl hne
      | cons c cs =>
        have hc := h c (by simp)
        have hne' : ∀ p ∈ ['(', ')', ',', ':', ';'], c ≠ p := by
          intro p hp he; subst he
          have := punct_protected c hp; rw [hc] at this; cases this
        have h1 := hne' '(' (by simp)
        have h2 := hne' ')' (by simp)
        have h3 := hne' ',' (by simp)
        have h4 := hne' ':' (by simp)
        have h5 := hne' ';' (by simp)
        simp [kind, h1, h2, h3, h4, h5]

theorem kind_word_of_len (s : Str) (cm : List Str) (hs : LenOk s) : kind ⟨s, false, cm⟩ = .word s := by
  obtain ⟨hne, hall⟩ := hs
  cases s with
  | nil => exact absurd rfl hne
  | cons c cs =>
    have hne' : ∀ p ∈ ['(', ')', ',', ':', ';'], c ≠ p := by
      intro p hp he; subst he
      have := lenChar_not_special c (punct_special c hp); rw [hall c (by simp)] at this; cases this
    have h1 := hne' '(' (by simp)
    have h2 := hne' ')' (by simp)
    have h3 := hne' ',' (by simp)
    have h4 := hne' ':' (by simp)
    have h5 := hne' ';' (by simp)
    simp [kind, h1, h2, h3, h4, h5]

/-- the first `__next__` call on rendered items, uniformly in fuel and pending comments -/
theorem next_first (o : WOpts) (pu : Bool) (hc : Consistent o.ps o.uu pu) (x : XTok) (r : List XTok)
    (hs : XSep (x :: r)) (d : Char) (hd : d ∈ tokCaptured) (rest : Str) :
    ∃ t q, (∀ f cm0, next pu (f + 1) (xrenderL o (x :: r) ++ d :: rest) cm0 = .tok t q cm0 (xrenderL o r ++ d :: rest)) ∧
      (∀ cm, kind ⟨t, q, cm⟩ = kindX x) := by
  cases x with
  | p c =>
    refine ⟨[c], false, ?_, ?_⟩
    · intro f cm0
      simpa [xrenderL, xrender] using next_punct pu f c (punct_captured c hs.1) (xrenderL o r ++ d :: rest) cm0
    · intro cm; simp [kindX, kind]
  | esc s =>
    obtain ⟨⟨hne, hdom⟩, hp, hr⟩ := hs
    obtain ⟨d', rest', he, hd'⟩ := head_cap o r hr hp d hd rest
    obtain ⟨q, hq, hk⟩ := next_escape o.ps o.uu pu hc s hne hdom d' hd' rest'
    refine ⟨s, q, ?_, ?_⟩
    · intro f cm0
      have e1 : xrenderL o (.esc s :: r) ++ d :: rest = escape o.ps (!o.uu) protectNewick s ++ d' :: rest' := by
        simp [xrenderL, xrender, he]
      rw [e1, hq f cm0, ← he]
    · intro cm; simpa [kindX] using kind_word_of_unprotected s q cm hne hk
  | raw s =>
    obtain ⟨hl, hp, hr⟩ := hs
    obtain ⟨d', rest', he, hd'⟩ := head_cap o r hr hp d hd rest
    refine ⟨s, false, ?_, ?_⟩
    · intro f cm0
      have e1 : xrenderL o (.raw s :: r) ++ d :: rest = s ++ d' :: rest' := by
        simp [xrenderL, xrender, he]
      rw [e1, next_raw pu f s hl d' hd' rest' cm0, ← he]
    · intro cm; simpa [kindX] using kind_word_of_len s cm hl


theorem XSep_tail (x : XTok) (r : List XTok) (h : XSep (x :: r)) : XSep r := by
  cases x with
  | p c => exact h.2
  | esc s => exact h.2.2
  | raw s => exact h.2.2

theorem toks_eta (r : Toks) : (⟨r.toks, r.ok, r.atEof⟩ : Toks) = r := by cases r; rfl

/-- tokenizing rendered items followed by a captured delimiter: one token per item, kinds as emitted, no comments -/
theorem tokenize_items (o : WOpts) (pu : Bool) (hc : Consistent o.ps o.uu pu) :
    ∀ (l : List XTok), XSep l → ∀ (d : Char), d ∈ tokCaptured → ∀ (rest : Str) (f : Nat),
    ∃ ts, tokenize pu (f + l.length) (xrenderL o l ++ d :: rest) =
        ⟨ts ++ (tokenize pu f (d :: rest)).toks, (tokenize pu f (d :: rest)).ok, (tokenize pu f (d :: rest)).atEof⟩
      ∧ ts.map kind = l.map kindX ∧ ∀ t ∈ ts, t.cm = [] := by
  intro l
  induction l with
  | nil =>
    intro _ d _ rest f
    exact ⟨[], by simp [xrenderL, toks_eta], rfl, by simp⟩
  | cons x r ih =>
    intro hs d hd rest f
    obtain ⟨t, q, hn, hk⟩ := next_first o pu hc x r hs d hd rest
    obtain ⟨ts, h1, h2, h3⟩ := ih (XSep_tail x r hs) d hd rest f
    refine ⟨⟨t, q, []⟩ :: ts, ?_, ?_, ?_⟩
    · have : f + (x :: r).length = (f + r.length) + 1 := by simp; omega
      rw [this, tokenize]
      simp only [nextTok]
      rw [hn _ []]
      dsimp only
      rw [h1]
      simp
    · simp [h2, hk]
    · intro t' ht'
      simp at ht'
      rcases ht' with rfl | h
      · rfl
      · exact h3 t' h

theorem escape_ne (ps qu : Bool) (p : List Char) (s : Str) (h : s ≠ []) : escape ps qu p s ≠ [] := by
  unfold escape
  split
  · simpa using h
  · split
    · simp
    · exact h

theorem len_xrenderL (o : WOpts) : ∀ (l : List XTok), XSep l → l.length ≤ (xrenderL o l).length := by
  intro l
  induction l with
  | nil => intro _; simp
  | cons x r ih =>
    intro hs
    have := ih (XSep_tail x r hs)
    have hx : 1 ≤ (xrender o x).length := by
      cases x with
      | p c => simp [xrender]
      | esc s =>
        have := escape_ne o.ps (!o.uu) protectNewick s hs.1.1
        simp only [xrender]
        cases h : escape o.ps (!o.uu) protectNewick s with
        | nil => exact absurd h this
        | cons a b => simp
      | raw s =>
        have := hs.1.1
        simp only [xrender]
        cases s with
        | nil => exact absurd rfl this
        | cons a b => simp
    simp [xrenderL]
    omega

/-! ### the comment prefix (`[&R] `, `[&W w] `) -/

def NoBracket (c : Str) : Prop := ∀ x ∈ c, isCE x = false ∧ isCB x = false

def pre : List Str → Str
  | [] => []
  | c :: cs => '[' :: (c ++ ']' :: ' ' :: pre cs)

theorem readComment_plain (c : Str) : ∀ (acc r : Str), NoBracket c →
    readComment (c ++ ']' :: r) 1 acc = (acc ++ c, r) := by
  induction c with
  | nil =>
    intro acc r _
    have : isCE ']' = true := by decide
    simp [readComment, this]
  | cons x xs ih =>
    intro acc r h
    have hx := h x (by simp)
    simp only [List.cons_append, readComment, hx.1, hx.2, Bool.false_eq_true, if_false]
    rw [ih _ _ (fun y hy => h y (by simp [hy]))]
    simp

theorem next_pre (pu : Bool) : ∀ (cs : List Str), (∀ c ∈ cs, NoBracket c) → ∀ (f : Nat) (cm0 : List Str) (inp : Str),
    inp ≠ [] → next pu (f + cs.length + 1) (pre cs ++ inp) cm0 = next pu (f + 1) inp (cm0 ++ cs) := by
  intro cs
  induction cs with
  | nil => intro _ f cm0 inp _; simp [pre]
  | cons c cs ih =>
    intro h f cm0 inp hne
    have e : f + (c :: cs).length + 1 = (f + cs.length + 1) + 1 := by simp; omega
    have h1 : isUncap '[' = false := by decide
    have h2 : isCap '[' = false := by decide
    have h3 : isQuote '[' = false := by decide
    have h4 : isCB '[' = true := by decide
    have h5 : isUncap ' ' = true := by decide
    have hrest : pre cs ++ inp ≠ [] := by
      cases cs with
      | nil => simpa [pre] using hne
      | cons a b => simp [pre]
    rw [e, next]
    simp only [pre, List.cons_append, skipWs, h1, h2, h3, Bool.false_eq_true, if_false]
    rw [readPlain]
    simp only [h1, h2, h4, Bool.false_eq_true, if_false, if_true]
    have hc : c ++ ']' :: ' ' :: pre cs ++ inp = c ++ ']' :: (' ' :: (pre cs ++ inp)) := by simp
    rw [List.append_assoc] at *
    simp only [List.cons_append] at *
    rw [readComment_plain c [] _ (h c (by simp))]
    simp only [List.nil_append]
    rw [readPlain]
    simp only [h5, if_true]
    have : (pre cs ++ inp).isEmpty = false := by
      cases hh : pre cs ++ inp with
      | nil => exact absurd hh hrest
      | cons a b => rfl
    simp only [List.isEmpty_nil, if_true, this, Bool.false_eq_true, if_false]
    rw [ih (fun c' hc' => h c' (by simp [hc'])) f (cm0 ++ [c]) inp hne]
    simp

theorem len_pre (cs : List Str) : cs.length ≤ (pre cs).length := by
  induction cs with
  | nil => simp
  | cons c cs ih => simp [pre]; omega

end Aux

mutual
/-- every tag the writer composes is over the label domain and every edge-length text is a number text -/
def OkT (o : WOpts) : NT → Prop
  | .node tx lb ln cs =>
    (∀ c ∈ rawTag o cs.isEmpty tx lb, labelChar c = true) ∧
    (match ln with | some l => LenOk l | none => True) ∧ OkL o cs
def OkL (o : WOpts) : List NT → Prop
  | [] => True
  | c :: cs => OkT o c ∧ OkL o cs
end

namespace Aux

theorem XSep_append_p (a : List XTok) (tail : List XTok) (ha : ∀ x ∈ a, ∃ c, x = .p c ∧ c ∈ ['(', ')', ',', ':', ';'])
    (ht : XSep tail) : XSep (a ++ tail) := by
  induction a with
  | nil => exact ht
  | cons x r ih =>
    obtain ⟨c, rfl, hc⟩ := ha x (by simp)
    exact ⟨hc, ih (fun y hy => ha y (by simp [hy]))⟩

def lenPart (o : WOpts) : Option Str → List WTok
  | some l => if o.sel then [] else [WTok.len l]
  | none => []

theorem body_eq (o : WOpts) (leaf : Bool) (tx lb ln : Option Str) :
    body o leaf tx lb ln = (if (rawTag o leaf tx lb).isEmpty then [] else [.tag (rawTag o leaf tx lb)]) ++ lenPart o ln := by
  cases ln <;> rfl

theorem sep_body (o : WOpts) (leaf : Bool) (tx lb ln : Option Str)
    (htag : ∀ c ∈ rawTag o leaf tx lb, labelChar c = true) (hlen : ∀ l, ln = some l → LenOk l)
    (tail : List XTok) (ht : XSep tail) (hp : headIsP tail) : XSep (xs (body o leaf tx lb ln) ++ tail) := by
  rw [body_eq]
  have hlenpart : XSep (xs (lenPart o ln) ++ tail) ∧ headIsP (xs (lenPart o ln) ++ tail) := by
    cases ln with
    | none => exact ⟨ht, hp⟩
    | some l =>
      unfold lenPart
      cases o.sel with
      | true => exact ⟨ht, hp⟩
      | false =>
        simp only [Bool.false_eq_true, if_false, xs, xsTok, List.append_nil, List.cons_append, List.nil_append]
        exact ⟨⟨by simp, hlen l rfl, hp, ht⟩, trivial⟩
  cases h : (rawTag o leaf tx lb).isEmpty with
  | true => simpa using hlenpart.1
  | false =>
    simp only [Bool.false_eq_true, if_false, xs_append, xs, xsTok, List.append_nil, List.cons_append, List.nil_append, List.append_assoc]
    refine ⟨⟨?_, htag⟩, hlenpart.2, hlenpart.1⟩
    intro he; rw [he] at h; simp at h

mutual
theorem okLen {ln : Option Str} (h : match ln with | some l => LenOk l | none => True) : ∀ l, ln = some l → LenOk l := by
  intro l hl; subst hl; exact h

theorem sep_node (o : WOpts) : ∀ (t : NT) (first : Bool) (tail : List XTok), OkT o t → XSep tail → headIsP tail →
    XSep (xs (wrNode o first t) ++ tail) ∧ (first = false → headIsP (xs (wrNode o first t) ++ tail))
  | .node tx lb ln [], first, tail, hok, ht, hp => by
    simp only [OkT] at hok
    have hb := sep_body o true tx lb ln (by simpa using hok.1) (okLen hok.2.1) tail ht hp
    cases first with
    | true => simpa [wrNode] using hb
    | false =>
      simp only [wrNode, Bool.false_eq_true, if_false, xs_append, xs, xsTok, List.append_nil, List.cons_append, List.nil_append, List.append_assoc]
      exact ⟨⟨by simp, hb⟩, fun _ => trivial⟩
  | .node tx lb ln (c :: cs), first, tail, hok, ht, hp => by
    simp only [OkT] at hok
    have hb := sep_body o false tx lb ln (by simpa using hok.1) (okLen hok.2.1) tail ht hp
    have hk := sep_kids o (c :: cs) true (.p ')' :: (xs (body o false tx lb ln) ++ tail)) hok.2.2 ⟨by simp, hb⟩ trivial
    cases first with
    | true =>
      refine ⟨?_, fun h => by cases h⟩
      have : xs (wrNode o true (.node tx lb ln (c :: cs))) ++ tail =
          .p '(' :: (xs (wrKids o true (c :: cs)) ++ .p ')' :: (xs (body o false tx lb ln) ++ tail)) := by
        simp [wrNode, xs_append, xs, xsTok]
      rw [this]
      exact ⟨by simp, hk.1⟩
    | false =>
      have : xs (wrNode o false (.node tx lb ln (c :: cs))) ++ tail =
          .p ',' :: .p '(' :: (xs (wrKids o true (c :: cs)) ++ .p ')' :: (xs (body o false tx lb ln) ++ tail)) := by
        simp [wrNode, xs_append, xs, xsTok]
      rw [this]
      exact ⟨⟨by simp, by simp, hk.1⟩, fun _ => trivial⟩
theorem sep_kids (o : WOpts) : ∀ (cs : List NT) (first : Bool) (tail : List XTok), OkL o cs → XSep tail → headIsP tail →
    XSep (xs (wrKids o first cs) ++ tail) ∧ (first = false → headIsP (xs (wrKids o first cs) ++ tail))
  | [], first, tail, _, ht, hp => by
    simp only [wrKids, xs, List.nil_append]
    exact ⟨ht, fun _ => hp⟩
  | c :: cs, first, tail, hok, ht, hp => by
    simp only [OkL] at hok
    have h2 := sep_kids o cs false tail hok.2 ht hp
    have h1 := sep_node o c first (xs (wrKids o false cs) ++ tail) hok.1 h2.1 (h2.2 rfl)
    simp only [wrKids, xs_append, List.append_assoc]
    exact h1
end

end Aux
end DendroModel.C02
