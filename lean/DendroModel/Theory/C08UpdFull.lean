import DendroModel.Theory.C08Upd
import DendroModel.Theory.Lsb
/-! C08 — `update_bipartitions=True` on trees that are NOT rooted, in full: the tree the re-encoding leaves behind, the complete
(leafset, split) list in closed form on naturals, and that re-encoding the result once more changes nothing (the stored encoding
IS a fresh encoding of the pruned tree as it now stands). -/
namespace DendroModel.C08.Aux
open DendroModel

/-! ### the split mask in closed form (local copy of the C01 bridge: the generated integer functions on naturals) -/
theorem pyAnd_cast' (a b : Nat) : pyAnd (a : Int) (b : Int) = ((a &&& b : Nat) : Int) := rfl
theorem pyAnd_not_cast' (b f : Nat) : pyAnd (pyNot (b : Int)) (f : Int) = ((Hier.sdiff f b : Nat) : Int) := rfl
theorem pyXor_cast' (a b : Nat) : pyXor (a : Int) (b : Int) = ((a ^^^ b : Nat) : Int) := rfl

theorem normalize_nat (m L lo : Nat) :
    PyBits.normalize_bitmask (m : Int) (L : Int) (lo : Int) = ((Hier.norm L lo m : Nat) : Int) := by
  unfold PyBits.normalize_bitmask Hier.norm
  simp only [pyAnd_cast', pyAnd_not_cast']
  by_cases h : m &&& lo = 0
  · simp [h]
  · simp [h]

theorem lsb_nat (n : Nat) : PyBits.least_significant_set_bit (n : Int) = ((Lsb.lsb n : Nat) : Int) := by
  unfold PyBits.least_significant_set_bit Lsb.lsb
  by_cases h : n = 0
  · subst h; decide
  · have e : ((n : Int) - 1) = ((n - 1 : Nat) : Int) := by omega
    rw [e, pyAnd_cast', pyXor_cast']

/-- what `Bipartition.compile_split_bitmask` stores on a tree that is not rooted: the leafset normalised within the tree's own
    leafset `L` on `L`'s lowest set bit -/
theorem split_unrooted (L m : Nat) : C01.splitOf false L m = ((Hier.norm L (Lsb.lsb L) m : Nat) : Int) := by
  unfold C01.splitOf C01.lsbOf
  simp only [Bool.false_eq_true, if_false]
  rw [lsb_nat, normalize_nat]

/-! ### the basal collapse on a tree without unary nodes -/
theorem noUnaryL_append : ∀ (a b : List T), NoUnaryL a → NoUnaryL b → NoUnaryL (a ++ b)
  | [], _, _, hb => hb
  | c :: cs, b, ha, hb => by
    simp only [NoUnaryL] at ha
    simp only [List.cons_append, NoUnaryL]
    exact ⟨ha.1, noUnaryL_append cs b ha.2 hb⟩

theorem noUnary_cs (t : T) (h : NoUnary t) : NoUnaryL t.cs := by
  obtain ⟨i, x, l, s, cs⟩ := t
  simp only [NoUnary] at h
  exact h.2

/-- collapsing the basal bifurcation creates no unary node (the seed ends with ≥ 3 children or is left alone) -/
theorem collapse_noUnary (t : T) (h : NoUnary t) : NoUnary t.collapseBasal := by
  obtain ⟨i, x, l, s, cs⟩ := t
  match cs, h with
  | [], h => exact h
  | [a], h => exact h
  | a :: b :: c :: r, h => exact h
  | [a, b], h =>
    simp only [NoUnary, NoUnaryL] at h
    obtain ⟨_, ha, hb, _⟩ := h
    simp only [T.collapseBasal]
    by_cases hb2 : b.cs.length ≥ 2
    · simp only [hb2, if_true, NoUnary, NoUnaryL, List.length_cons]
      refine ⟨by omega, noUnary_withLen a _ ha, noUnary_cs b hb⟩
    · simp only [hb2, if_false]
      by_cases ha2 : a.cs.length ≥ 2
      · simp only [ha2, if_true, NoUnary, List.length_append, List.length_cons, List.length_nil]
        refine ⟨by omega, noUnaryL_append _ _ (noUnary_cs a ha) ?_⟩
        simp only [NoUnaryL]
        exact ⟨noUnary_withLen b _ hb, trivial⟩
      · simp only [ha2, if_false, NoUnary, NoUnaryL]
        exact ⟨by simp, ha, hb, trivial⟩

theorem cs_withLen (t : T) (a : Option Frac) : (t.withLen a).cs = t.cs := by
  cases t; rfl

/-- the basal collapse is idempotent on ANY tree -/
theorem collapse_idem (t : T) : t.collapseBasal.collapseBasal = t.collapseBasal := by
  obtain ⟨i, x, l, s, cs⟩ := t
  match cs with
  | [] => rfl
  | [a] => rfl
  | a :: b :: c :: r => rfl
  | [a, b] =>
    simp only [T.collapseBasal]
    by_cases hb2 : b.cs.length ≥ 2
    · simp only [hb2, if_true]
      obtain ⟨j, y, m, u, ds⟩ := b
      simp only [T.cs] at hb2 ⊢
      match ds, hb2 with
      | d1 :: d2 :: dr, _ => rfl
    · simp only [hb2, if_false]
      by_cases ha2 : a.cs.length ≥ 2
      · simp only [ha2, if_true]
        obtain ⟨j, y, m, u, ds⟩ := a
        simp only [T.cs] at ha2 ⊢
        match ds, ha2 with
        | d1 :: d2 :: dr, _ => cases dr <;> rfl
      · simp only [ha2, if_false, hb2]

/-- the tree `encode_bipartitions` leaves behind when the tree is not rooted and has no unary node (or suppression is declined):
    the basal collapse and nothing else -/
theorem encodeTree_unrooted (rooted : Option Bool) (hr : rooted ≠ some true) (sup : Bool) (r : T)
    (hn : sup = true → NoUnary r) : C01.encodeTree rooted sup true r = r.collapseBasal := by
  have h := (reencode_not_rooted rooted hr sup r).1
  simp only [reencode] at h
  rw [h]
  cases sup with
  | false => rfl
  | true => exact sup_of_noUnary _ (collapse_noUnary r (hn rfl))

theorem rooted_beq_false (rooted : Option Bool) (hr : rooted ≠ some true) : (rooted == some true) = false := by
  cases rooted with
  | none => rfl
  | some b => cases b with
    | true => exact absurd rfl hr
    | false => rfl

/-- the whole result of the re-encoding of a not-rooted tree, tree and (leafset, split) list, in closed form -/
theorem reencode_unrooted_full (rooted : Option Bool) (hr : rooted ≠ some true) (sup : Bool) (r : T)
    (hn : sup = true → NoUnary r) :
    reencode rooted sup r =
      (r.collapseBasal, r.collapseBasal.masksPost.map (fun m => (m, ((Hier.norm r.mask (Lsb.lsb r.mask) m : Nat) : Int)))) := by
  have ht := encodeTree_unrooted rooted hr sup r hn
  simp only [reencode, C01.encode, ht, rooted_beq_false rooted hr, (collapse_masks r).1]
  congr 1
  apply List.map_congr_left
  intro m _
  rw [split_unrooted]

/-- re-encoding once more changes nothing: the encoding stored by `update_bipartitions=True` is exactly what a fresh
    `encode_bipartitions` of the tree as it now stands yields, and that fresh pass leaves the tree alone -/
theorem reencode_unrooted_idem (rooted : Option Bool) (hr : rooted ≠ some true) (sup : Bool) (r : T)
    (hn : sup = true → NoUnary r) :
    reencode rooted sup (reencode rooted sup r).1 = reencode rooted sup r := by
  have h1 := reencode_unrooted_full rooted hr sup r hn
  have h2 := reencode_unrooted_full rooted hr sup r.collapseBasal (fun h => collapse_noUnary r (hn h))
  rw [h1]
  simp only
  rw [h2, collapse_idem, (collapse_masks r).1]

end DendroModel.C08.Aux
