import DendroModel.Theory.C02List
/-! the NEXUS TREES block: tokenizing the writer's text and running the block reader on it -/
namespace DendroModel.C02
open DendroModel.Tables
namespace Aux

/-- a keyword-like word: ordinary characters, no underscore, does not start with a quote -/
def PlainWord (w : Str) : Prop :=
  w ≠ [] ∧ (∀ x ∈ w, ordinary x = true ∧ x ≠ '_') ∧ (∀ c cs, w = c :: cs → isQuote c = false)

theorem next_word (pu : Bool) (f : Nat) (ws w suf : Str) (cm : List Str) (hws : ∀ c ∈ ws, isUncap c = true)
    (hw : PlainWord w) (hs : Stop suf) :
    next pu (f + 1) (ws ++ (w ++ suf)) cm = .tok w false cm (plainAfter suf) := by
  obtain ⟨hne, hall, hq⟩ := hw
  rw [next_skip pu f ws _ cm hws]
  cases w with
  | nil => exact absurd rfl hne
  | cons c cs =>
    rw [next_plain pu f c cs suf (fun x hx => (hall x hx).1) (hq c cs rfl) hs cm]
    have : (c :: cs).map (conv pu) = c :: cs := by
      conv => rhs; rw [← List.map_id (c :: cs)]
      apply List.map_congr_left
      intro x hx
      simp [conv, (hall x hx).2]
    rw [this]

theorem kw_TREE : PlainWord ['T', 'R', 'E', 'E'] := ⟨by simp, by decide, by intro c cs h; cases h; decide⟩
theorem kw_BEGIN : PlainWord ['B', 'E', 'G', 'I', 'N'] := ⟨by simp, by decide, by intro c cs h; cases h; decide⟩
theorem kw_TREES : PlainWord ['T', 'R', 'E', 'E', 'S'] := ⟨by simp, by decide, by intro c cs h; cases h; decide⟩
theorem kw_END : PlainWord ['E', 'N', 'D'] := ⟨by simp, by decide, by intro c cs h; cases h; decide⟩

theorem stop_space (r : Str) : Stop (' ' :: r) ∧ plainAfter (' ' :: r) = r := by
  have h : isUncap ' ' = true := by decide
  exact ⟨Or.inl h, by simp [plainAfter, h]⟩

theorem stop_semi (r : Str) : Stop (';' :: r) ∧ plainAfter (';' :: r) = ';' :: r := by
  have h1 : isCap ';' = true := by decide
  have h2 : isUncap ';' = false := by decide
  exact ⟨Or.inr h1, by simp [plainAfter, h2]⟩

/-- `stmt_tokens` with any white-space prefix -/
theorem stmt_tokens_ws (o : WOpts) (pu : Bool) (hc : Consistent o.ps o.uu pu) (x : WT) (hx : OkX o x) (ws : Str)
    (hws : ∀ c ∈ ws, isUncap c = true) (tailText : Str) :
    ∃ g, StmtToks o x g ∧
      tokenizeAll pu (ws ++ (stmtText o x ++ tailText)) =
        ⟨g ++ (tokenizeAll pu tailText).toks, (tokenizeAll pu tailText).ok, (tokenizeAll pu tailText).atEof⟩ := by
  obtain ⟨rooting, weight, t⟩ := x
  obtain ⟨hok, hll, hw⟩ := hx
  simp only at hok hll hw
  have hsep := (sep_node o t true [] hok trivial trivial).1
  rw [List.append_nil] at hsep
  cases hl : xs (wrNode o true t) with
  | nil => exact absurd hl (xs_ne_nil o t hll)
  | cons x r =>
    rw [hl] at hsep
    have hsemi : (';' : Char) ∈ tokCaptured := by decide
    obtain ⟨tx, q, hn, hk⟩ := next_first o pu hc x r hsep ';' hsemi tailText
    have hinp : stmtText o (rooting, weight, t) ++ tailText =
        pre (comments o rooting weight) ++ (xrenderL o (x :: r) ++ ';' :: tailText) := by
      unfold stmtText writeTree
      simp only
      rw [← prefix_eq, render_xs, hl]
      simp
    have hlen1 := len_pre (comments o rooting weight)
    have hne : xrenderL o (x :: r) ++ ';' :: tailText ≠ [] := by simp
    have hfirst : nextTok pu (ws ++ (pre (comments o rooting weight) ++ (xrenderL o (x :: r) ++ ';' :: tailText))) =
        .tok tx q (comments o rooting weight) (xrenderL o r ++ ';' :: tailText) := by
      unfold nextTok
      rw [next_skip pu _ ws _ [] hws]
      obtain ⟨f0, hf0⟩ : ∃ f0, (ws ++ (pre (comments o rooting weight) ++ (xrenderL o (x :: r) ++ ';' :: tailText))).length + 1 =
          f0 + (comments o rooting weight).length + 1 :=
        ⟨(ws ++ (pre (comments o rooting weight) ++ (xrenderL o (x :: r) ++ ';' :: tailText))).length - (comments o rooting weight).length,
          by simp at hlen1 ⊢; omega⟩
      rw [hf0, next_pre pu _ (noBracket_comments o rooting weight hw) f0 [] _ hne, hn]
      simp
    obtain ⟨ts, h1, h2, h3⟩ := tokenizeAll_items o pu hc r (XSep_tail x r hsep) ';' hsemi tailText
    have hsemiTok : nextTok pu (';' :: tailText) = .tok [';'] false [] tailText := by
      unfold nextTok
      exact next_punct pu _ ';' hsemi tailText []
    refine ⟨⟨tx, q, comments o rooting weight⟩ :: (ts ++ [⟨[';'], false, []⟩]), ⟨_, _, rfl, ?_, rfl⟩, ?_⟩
    · have hv := view_xs (wrNode o true t)
      rw [hl] at hv
      have hs : kind ⟨[';'], false, []⟩ = .semi := by simp [kind]
      simp only
      rw [hv]
      simp only [List.map_cons, List.map_append, List.map_nil, hk, h2, hs, List.cons_append]
    · rw [hinp, tokenizeAll_step pu _ _ _ _ _ hfirst, h1, tokenizeAll_step pu _ _ _ _ _ hsemiTok]
      simp

/-- the tokens of one `TREE name = statement` line -/
def LineToks (o : WOpts) (x : Str × WT) (g : List TokE) : Prop :=
  ∃ kw nm eq first rest, g = kw :: nm :: eq :: first :: rest ∧ kw.text = ['T', 'R', 'E', 'E'] ∧ nm.text = x.1 ∧
    (nm.text = ['*'] → nm.quoted = true) ∧ eq.text = ['='] ∧
    (first :: rest).map kind = view (wrNode o true x.2.2.2) ++ [.semi] ∧ first.cm = comments o x.2.1 x.2.2.1

def LineGroups (o : WOpts) : List (Str × WT) → List (List TokE) → Prop
  | [], [] => True
  | x :: xs, g :: gs => LineToks o x g ∧ LineGroups o xs gs
  | _, _ => False

theorem star_protected : protectDefault.contains '*' = true := by decide

theorem tokenizeAll_end (pu : Bool) (ws : Str) (hws : ∀ c ∈ ws, isUncap c = true) :
    tokenizeAll pu (ws ++ endBlock) = ⟨[⟨['E', 'N', 'D'], false, []⟩, ⟨[';'], false, []⟩], true, false⟩ := by
  have e : ws ++ endBlock = ws ++ (['E', 'N', 'D'] ++ (';' :: ['\n', '\n'])) := by simp [endBlock]
  have h1 : nextTok pu (ws ++ (['E', 'N', 'D'] ++ (';' :: ['\n', '\n']))) = .tok ['E', 'N', 'D'] false [] (';' :: ['\n', '\n']) := by
    unfold nextTok
    rw [next_word pu _ ws _ _ [] hws kw_END (stop_semi _).1, (stop_semi _).2]
  have h2 : nextTok pu (';' :: ['\n', '\n']) = .tok [';'] false [] ['\n', '\n'] := by
    unfold nextTok
    exact next_punct pu _ ';' (by decide) _ []
  have h3 : tokenizeAll pu ['\n', '\n'] = ⟨[], true, false⟩ := by
    have h : isUncap '\n' = true := by decide
    simp [tokenizeAll, tokenize, nextTok, next, skipWs, h]
  rw [e, tokenizeAll_step pu _ _ _ _ _ h1, tokenizeAll_step pu _ _ _ _ _ h2, h3]

theorem lines_tokens (o : WOpts) (pu : Bool) (hc : Consistent o.ps o.uu pu) : ∀ (trees : List (Str × WT)),
    (∀ x ∈ trees, (x.1 ≠ [] ∧ ∀ c ∈ x.1, labelChar c = true) ∧ OkX o x.2) → ∀ (ws : Str), (∀ c ∈ ws, isUncap c = true) →
    ∃ gs, LineGroups o trees gs ∧
      tokenizeAll pu (ws ++ (treeLines o trees ++ endBlock)) =
        ⟨gs.flatten ++ [⟨['E', 'N', 'D'], false, []⟩, ⟨[';'], false, []⟩], true, false⟩ := by
  intro trees
  induction trees with
  | nil =>
    intro _ ws hws
    exact ⟨[], trivial, by simpa [treeLines] using tokenizeAll_end pu ws hws⟩
  | cons x xs ih =>
    intro hall ws hws
    obtain ⟨⟨hne, hdom⟩, hx⟩ := hall x (by simp)
    obtain ⟨gs, hgs, hrest⟩ := ih (fun y hy => hall y (by simp [hy])) ['\n'] (by decide)
    -- the text, regrouped
    let S := stmtText o x.2
    let TAIL := '\n' :: (treeLines o xs ++ endBlock)
    have hsp4 : ∀ c ∈ ws ++ [' ', ' ', ' ', ' '], isUncap c = true := by
      intro c hcm
      simp only [List.mem_append, List.mem_cons, List.mem_nil_iff, or_false] at hcm
      rcases hcm with h | rfl | rfl | rfl | rfl
      · exact hws c h
      all_goals decide
    have e0 : ws ++ (treeLines o (x :: xs) ++ endBlock) =
        (ws ++ [' ', ' ', ' ', ' ']) ++ (['T', 'R', 'E', 'E'] ++ (' ' :: (escape o.ps (!o.uu) protectDefault x.1 ++ (' ' :: '=' :: ' ' :: (S ++ TAIL))))) := by
      simp [treeLines, treeLine, S, TAIL, stmtText]
    have h1 : nextTok pu ((ws ++ [' ', ' ', ' ', ' ']) ++ (['T', 'R', 'E', 'E'] ++ (' ' :: (escape o.ps (!o.uu) protectDefault x.1 ++ (' ' :: '=' :: ' ' :: (S ++ TAIL)))))) =
        .tok ['T', 'R', 'E', 'E'] false [] (escape o.ps (!o.uu) protectDefault x.1 ++ (' ' :: '=' :: ' ' :: (S ++ TAIL))) := by
      unfold nextTok
      rw [next_word pu _ _ _ _ [] hsp4 kw_TREE (stop_space _).1, (stop_space _).2]
    obtain ⟨hfo, hpa⟩ := follower_ws ' ' (by decide) ('=' :: ' ' :: (S ++ TAIL))
    obtain ⟨q, hq, hqk⟩ := next_escape_gen protectDefault covers_default o.ps o.uu pu hc x.1 hne hdom (' ' :: '=' :: ' ' :: (S ++ TAIL)) hfo
    have h2 : nextTok pu (escape o.ps (!o.uu) protectDefault x.1 ++ (' ' :: '=' :: ' ' :: (S ++ TAIL))) =
        .tok x.1 q [] (if q then ' ' :: '=' :: ' ' :: (S ++ TAIL) else plainAfter (' ' :: '=' :: ' ' :: (S ++ TAIL))) := by
      unfold nextTok; exact hq _ []
    have hstar : x.1 = ['*'] → q = true := by
      intro hs
      rcases hqk with h | h
      · exact h
      · have := h '*' (by rw [hs]; simp); rw [star_protected] at this; cases this
    obtain ⟨g, hg, hst⟩ := stmt_tokens_ws o pu hc x.2 hx [' '] (by decide) TAIL
    have hrest' : tokenizeAll pu TAIL = ⟨gs.flatten ++ [⟨['E', 'N', 'D'], false, []⟩, ⟨[';'], false, []⟩], true, false⟩ := by
      simpa [TAIL] using hrest
    have heq : ∀ (pre : Str), (∀ c ∈ pre, isUncap c = true) →
        tokenizeAll pu (pre ++ ('=' :: ' ' :: (S ++ TAIL))) =
          ⟨⟨['='], false, []⟩ :: (g ++ (gs.flatten ++ [⟨['E', 'N', 'D'], false, []⟩, ⟨[';'], false, []⟩])), true, false⟩ := by
      intro pre hpre
      have h3 : nextTok pu (pre ++ ('=' :: ' ' :: (S ++ TAIL))) = .tok ['='] false [] (' ' :: (S ++ TAIL)) := by
        unfold nextTok
        rw [next_skip pu _ pre _ [] hpre]
        exact next_punct pu _ '=' (by decide) _ []
      have : ' ' :: (S ++ TAIL) = [' '] ++ (stmtText o x.2 ++ TAIL) := by simp [S]
      rw [tokenizeAll_step pu _ _ _ _ _ h3, this, hst, hrest']
    obtain ⟨first, rest, hgeq, hk, hcm⟩ := hg
    subst hgeq
    refine ⟨(⟨['T', 'R', 'E', 'E'], false, []⟩ :: ⟨x.1, q, []⟩ :: ⟨['='], false, []⟩ :: first :: rest) :: gs,
      ⟨⟨⟨['T', 'R', 'E', 'E'], false, []⟩, ⟨x.1, q, []⟩, ⟨['='], false, []⟩, first, rest, rfl, rfl, rfl, ?_, rfl, hk, hcm⟩, hgs⟩, ?_⟩
    · intro hs; exact hstar hs
    · rw [e0, tokenizeAll_step pu _ _ _ _ _ h1, tokenizeAll_step pu _ _ _ _ _ h2]
      cases q with
      | true =>
        have := heq [' '] (by decide)
        simp only [if_true, List.cons_append, List.nil_append] at this ⊢
        rw [this]
        simp
      | false =>
        have := heq [] (by simp)
        simp only [Bool.false_eq_true, if_false, hpa, List.nil_append] at this ⊢
        rw [this]
        simp

/-- one TREE statement body read by `nexusOneTree`, given what `assign` does on its raw tree -/
theorem one_tree (o : WOpts) (ro : ROpts) (x : WT) (hb : isBlank (toRT o x.2.2) = false) (first : TokE) (rest more : List TokE)
    (hk : (first :: rest).map kind = view (wrNode o true x.2.2) ++ [.semi]) (hcm : first.cm = comments o x.1 x.2.1)
    (hmore : skipSemis false more = more) (m m' : Mapper) (nt : NT) (seen : List Str)
    (hassign : assign ro (toRT o x.2.2) ⟨m, []⟩ = some (nt, ⟨m', seen⟩)) :
    nexusOneTree ro false ((first :: rest) ++ more) m =
      some (⟨(treeComments ro (comments o x.1 x.2.1) none none).1, (treeComments ro (comments o x.1 x.2.1) none none).2, nt⟩, more, m') := by
  have hsemi := stmt_first_not_semi o x hb first rest hk
  have hv := view_wrNode o x.2.2 true
  simp only [if_true, List.nil_append] at hv
  have hlen : (first :: rest).length = (wr (toRT o x.2.2)).length + 1 := by
    have := congrArg List.length hk
    rw [hv] at this
    simpa using this
  have hparse : parseNode (stmtFuel ((first :: rest) ++ more)) (((first :: rest) ++ more).map kind) =
      some (toRT o x.2.2, more.map kind, true) := by
    have := rt (toRT o x.2.2) (stmtFuel ((first :: rest) ++ more))
      (Nat.le_trans (need_le _) (by simp only [stmtFuel, List.length_append, hlen]; omega)) .semi (more.map kind)
    rw [List.map_append, hk, hv]
    simpa [Follow.tok, Follow.after] using this
  have hdrop : List.drop (((first :: rest) ++ more).length - (more.map kind).length) ((first :: rest) ++ more) = more := by
    have : ((first :: rest) ++ more).length - (more.map kind).length = (first :: rest).length := by
      simp only [List.length_append, List.length_map]; omega
    rw [this, List.drop_left]
  have hne : kind first ≠ .semi := by simpa using hsemi
  have e : (first :: rest) ++ more = first :: (rest ++ more) := rfl
  unfold nexusOneTree
  rw [e]
  dsimp only
  rw [← e, hparse]
  simp only [hassign, hdrop, hmore, hcm, hsemi, Bool.false_eq_true, if_false]

theorem ucase_TREE : ucase ['T', 'R', 'E', 'E'] = ['T', 'R', 'E', 'E'] := by decide

/-- what reading one named line yields -/
def namedResult (o : WOpts) (ro : ROpts) (x : Str × WT) : Str × PT := (x.1, resultOf o ro x.2)

/-- …with the tree given by `nt` (e.g. taxon tags sent through the TRANSLATE table) -/
def namedWith (nt : Str × WT → NT) (o : WOpts) (ro : ROpts) (x : Str × WT) : Str × PT :=
  (x.1, ⟨(treeComments ro (comments o x.2.1 x.2.2.1) none none).1, (treeComments ro (comments o x.2.1 x.2.2.1) none none).2, nt x⟩)

theorem namedResult_eq (o : WOpts) (ro : ROpts) :
    namedResult o ro = namedWith (fun x => decode ro (toRT o x.2.2.2)) o ro := rfl

/-- the `TREE` commands of a block, for a mapper that every statement leaves unchanged -/
theorem tree_stmts (o : WOpts) (ro : ROpts) (m : Mapper) (nt : Str × WT → NT) (tailToks : List TokE)
    (htail : skipSemis false tailToks = tailToks ∧ ∀ t r, tailToks = t :: r → ucase t.text ≠ ['T', 'R', 'E', 'E']) (htne : tailToks ≠ []) :
    ∀ (trees : List (Str × WT)) (gs : List (List TokE)), LineGroups o trees gs →
    (∀ x ∈ trees, isBlank (toRT o x.2.2.2) = false ∧
      ∃ seen, assign ro (toRT o x.2.2.2) ⟨m, []⟩ = some (nt x, ⟨m, seen⟩)) →
    ∀ (kw : TokE) (body : List TokE) (gs' : List (List TokE)), gs = (kw :: body) :: gs' → trees ≠ [] →
    ∀ (acc : List (Str × PT)) (f : Nat), trees.length ≤ f →
    nexusTreeStmts ro false f (body ++ (gs'.flatten ++ tailToks)) m acc =
      some (acc ++ trees.map (namedWith nt o ro), tailToks, m) := by
  intro trees
  induction trees with
  | nil => intro gs _ _ kw body gs' _ hne; exact absurd rfl hne
  | cons x xs ih =>
    intro gs hg hx kw body gs' hgs _ acc f hf
    subst hgs
    obtain ⟨⟨kw', nm, eq, first, rest, hgeq, _, hnm, hstar, heq, hk, hcm⟩, hrestg⟩ := hg
    have hbody : body = nm :: eq :: first :: rest := by
      have := List.cons.inj hgeq; exact this.2
    subst hbody
    obtain ⟨hb, seen, hassign⟩ := hx x (by simp)
    obtain ⟨f', rfl⟩ : ∃ f', f = f' + 1 := ⟨f - 1, by simp at hf; omega⟩
    -- what follows this statement
    have hmore : skipSemis false (gs'.flatten ++ tailToks) = gs'.flatten ++ tailToks := by
      cases xs with
      | nil =>
        cases gs' with
        | nil => simpa using htail.1
        | cons g' gs'' => exact absurd hrestg (by simp [LineGroups])
      | cons y ys =>
        cases gs' with
        | nil => exact absurd hrestg (by simp [LineGroups])
        | cons g' gs'' =>
          obtain ⟨⟨kw2, nm2, eq2, f2, r2, hg2, hkw2, _⟩, _⟩ := hrestg
          subst hg2
          have : kind kw2 ≠ .semi := by
            cases kw2 with
            | mk t q c =>
              simp only at hkw2; subst hkw2
              cases q <;> simp [kind]
          simp [skipSemis, this]
    have hone := one_tree o ro x.2 hb first rest (gs'.flatten ++ tailToks) hk hcm hmore m m
      (nt x) seen hassign
    have hnstar : ¬ (nm.text = ['*'] ∧ nm.quoted = false) := by
      intro ⟨h1, h2⟩; rw [hstar h1] at h2; cases h2
    have hl : (nm :: eq :: first :: rest) ++ (gs'.flatten ++ tailToks) = nm :: eq :: ((first :: rest) ++ (gs'.flatten ++ tailToks)) := rfl
    rw [hl, nexusTreeStmts]
    have hstar' : (nm.text == ['*'] && !nm.quoted) = false := by
      cases h1 : (nm.text == ['*']) with
      | false => rfl
      | true =>
        have : nm.text = ['*'] := by simpa using h1
        simp [hstar this]
    simp only [hstar', Bool.false_eq_true, if_false, heq, beq_self_eq_true, if_true, hone]
    cases xs with
    | nil =>
      cases gs' with
      | cons g' gs'' => exact absurd hrestg (by simp [LineGroups])
      | nil =>
        simp only [List.flatten_nil, List.nil_append]
        cases htl : tailToks with
        | nil => exact absurd htl htne
        | cons t r =>
          have := htail.2 t r htl
          simp [this, namedWith, hnm]
    | cons y ys =>
      cases gs' with
      | nil => exact absurd hrestg (by simp [LineGroups])
      | cons g' gs'' =>
        obtain ⟨hg2, hrest2⟩ := hrestg
        obtain ⟨kw2, nm2, eq2, f2, r2, hg2e, hkw2, hrest3⟩ := hg2
        subst hg2e
        have hu : ucase kw2.text = ['T', 'R', 'E', 'E'] := by rw [hkw2]; exact ucase_TREE
        have hih := ih ((kw2 :: nm2 :: eq2 :: f2 :: r2) :: gs'') ⟨⟨kw2, nm2, eq2, f2, r2, rfl, hkw2, hrest3⟩, hrest2⟩
          (fun z hz => hx z (by simp [hz])) kw2 (nm2 :: eq2 :: f2 :: r2) gs'' rfl (by simp)
          (acc ++ [namedWith nt o ro x]) f' (by simp at hf ⊢; omega)
        have hfl : ((kw2 :: nm2 :: eq2 :: f2 :: r2) :: gs'').flatten ++ tailToks =
            kw2 :: ((nm2 :: eq2 :: f2 :: r2) ++ (gs''.flatten ++ tailToks)) := by simp
        rw [hfl]
        simp only [hu, beq_self_eq_true, if_true]
        have hres : (nm.text, (⟨(treeComments ro (comments o x.2.1 x.2.2.1) none none).1, (treeComments ro (comments o x.2.1 x.2.2.1) none none).2,
            nt x⟩ : PT)) = namedWith nt o ro x := by rw [hnm]; rfl
        rw [hres, hih]
        simp

theorem linegroups_len (o : WOpts) : ∀ (xs : List (Str × WT)) (gs : List (List TokE)), LineGroups o xs gs → xs.length ≤ gs.flatten.length
  | [], [], _ => by simp
  | [], _ :: _, h => absurd h (by simp [LineGroups])
  | _ :: _, [], h => absurd h (by simp [LineGroups])
  | x :: xs, g :: gs, h => by
    obtain ⟨⟨kw, nm, eq, first, rest, rfl, _⟩, hg⟩ := h
    have := linegroups_len o xs gs hg
    simp only [List.flatten_cons, List.length_append, List.length_cons]; omega

end Aux
end DendroModel.C02
