import DendroModel.Theory.C10More
/-! C10 — extension round: the constructor over mixed iterables, op-level specifications of the remaining operations. -/
namespace DendroModel.C10.Aux
open DendroModel DendroModel.C10

/-! ### the constructor over an iterable of label strings and `Taxon` objects -/

/-- the `Taxon` each item of the iterable stands for: the object itself, or the next new object -/
def ctorIds (base : Nat) : List Item → List Nat
  | [] => []
  | .tax t :: r => t :: ctorIds base r
  | .lab _ :: r => base :: ctorIds (base + 1) r

/-- the labels of the new `Taxon` objects the constructor creates, in order -/
def labsOf : List Item → List String
  | [] => []
  | .tax _ :: r => labsOf r
  | .lab l :: r => l :: labsOf r

/-- bits are handed out densely: the `k`-th member has bit `k` and the counter is the number of members -/
def Dense (s : NS) : Prop := s.count = s.taxa.length ∧ ∀ k t, s.taxa[k]? = some t → s.t2a.get t = some k

theorem dense_empty (cs : Bool) : Dense (NS.empty cs) := by
  constructor <;> simp [NS.empty]

theorem addTaxon_mutable {s : NS} (hi : Inv s) (hm : s.mutable_ = true) (t : Nat) :
    ∃ s', s.addTaxon t = .ok s' ∧ s'.taxa = (if s.taxa.contains t then s.taxa else s.taxa ++ [t]) ∧
      s'.mutable_ = true ∧ s'.caseSens = s.caseSens ∧ (Dense s → Dense s') := by
  by_cases hc : s.contains t = true
  · have hmem : t ∈ s.taxa := (hi.dom t).2 ((contains_iff s t).1 hc)
    refine ⟨s, by simp [NS.addTaxon, hc], by simp [hmem], hm, rfl, fun h => h⟩
  · simp only [Bool.not_eq_true] at hc
    have hnot : t ∉ s.taxa := fun h => by
      have := (contains_iff s t).2 ((hi.dom t).1 h); rw [hc] at this; cases this
    refine ⟨{ s with taxa := s.taxa ++ [t], a2t := s.a2t.put s.count t, t2a := s.t2a.put t s.count, count := s.count + 1 },
      by simp [NS.addTaxon, hc, hm], by simp [hnot], hm, rfl, ?_⟩
    rintro ⟨h1, h2⟩
    refine ⟨by simp [h1], ?_⟩
    intro k x hx
    simp only at hx
    by_cases hk : k < s.taxa.length
    · rw [List.getElem?_append_left hk] at hx
      have hxm : x ∈ s.taxa := List.mem_of_getElem? hx
      have : x ≠ t := fun e => hnot (e ▸ hxm)
      simp [get_put_ne _ _ _ _ this, h2 k x hx]
    · rw [List.getElem?_append_right (by omega)] at hx
      have hk0 : k - s.taxa.length = 0 := by
        cases hd : k - s.taxa.length with
        | zero => rfl
        | succ d => rw [hd] at hx; simp at hx
      rw [hk0] at hx; simp at hx; subst hx
      have : k = s.taxa.length := by omega
      simp [get_put_self, h1, this]

theorem ctorLoop_mixed : ∀ (items : List Item) (w : World) (s : NS), Inv s → (∀ t ∈ s.taxa, t < w.labels.length) →
    s.mutable_ = true → Dense s → items.all (Item.refOk w.labels.length) = true →
    (ctorLoop w s items).1.labels = w.labels ++ labsOf items ∧ (ctorLoop w s items).1.nss = w.nss ∧
    (ctorLoop w s items).2.taxa =
      (ctorIds w.labels.length items).foldl (fun a t => if a.contains t then a else a ++ [t]) s.taxa ∧
    Dense (ctorLoop w s items).2 ∧ (ctorLoop w s items).2.mutable_ = true ∧
    (ctorLoop w s items).2.caseSens = s.caseSens := by
  intro items
  induction items with
  | nil => intro w s _ _ hm hd _; simp [ctorLoop, labsOf, ctorIds, hm, hd]
  | cons it items ih =>
    intro w s hi hf hm hd hr
    simp only [List.all_cons, Bool.and_eq_true] at hr
    cases it with
    | tax t =>
      have ht : t < w.labels.length := by simpa [Item.refOk] using hr.1
      obtain ⟨s1, hadd, htaxa, hm1, hcs1, hd1⟩ := addTaxon_mutable hi hm t
      have hi1 := inv_addTaxon hi hadd
      have hf1 := prim_fresh (c := ⟨false, true, w.labels.length⟩) (.add t rfl ht hadd) hf
      simp only [ctorLoop, hadd, labsOf, ctorIds, List.foldl_cons]
      obtain ⟨a, b, c, d, e, f⟩ := ih w s1 hi1 hf1 hm1 (hd1 hd) hr.2
      exact ⟨a, b, by rw [c, htaxa], d, e, by rw [f, hcs1]⟩
    | lab l =>
      obtain ⟨s1, hadd, htaxa, hm1, hcs1, hd1⟩ := addTaxon_mutable hi hm w.labels.length
      have hi1 := inv_addTaxon hi hadd
      have hf1 := prim_fresh (c := ⟨false, true, (w.labels ++ [l]).length⟩) (.add w.labels.length rfl (by simp) hadd)
        (fun t ht => by have := hf t ht; simp; omega)
      have hr2 : (items.all (Item.refOk (w.labels ++ [l]).length) = true) := by
        rw [List.all_eq_true] at hr ⊢
        intro x hx
        have := hr.2 x hx
        cases x with
        | tax t => simp [Item.refOk] at this ⊢; omega
        | lab _ => rfl
      simp only [ctorLoop, hadd, labsOf, ctorIds, List.foldl_cons]
      obtain ⟨a, b, c, d, e, f⟩ := ih { w with labels := w.labels ++ [l] } s1 hi1 hf1 hm1 (hd1 hd) hr2
      refine ⟨by rw [a]; simp, b, ?_, d, e, by rw [f, hcs1]⟩
      rw [c, htaxa]; simp

end DendroModel.C10.Aux

namespace DendroModel.C10.Aux
open DendroModel DendroModel.C10

theorem step_at {w : World} {op : Op} {n : Nat} {s : NS} (hr : op.refsOk w.labels.length = true) (hn : op.ns = some n)
    (hs : w.nss[n]? = some s) : step w op = stepNs w n s op := by
  rw [step_ns hr hn, hs]

/-- `add_taxa` on a mutable namespace -/
theorem addTaxa_mutable : ∀ (ts : List Nat) (s : NS), Inv s → s.mutable_ = true →
    (s.addTaxa ts).2 = none ∧
    (s.addTaxa ts).1.taxa = ts.foldl (fun a t => if a.contains t then a else a ++ [t]) s.taxa ∧
    (∀ x i, s.t2a.get x = some i → (s.addTaxa ts).1.t2a.get x = some i) ∧
    (s.addTaxa ts).1.mutable_ = true ∧ (s.addTaxa ts).1.caseSens = s.caseSens := by
  intro ts
  induction ts with
  | nil => intro s _ hm; simp [NS.addTaxa, hm]
  | cons t ts ih =>
    intro s hi hm
    obtain ⟨s1, hadd, htaxa, hm1, hcs1, _⟩ := addTaxon_mutable hi hm t
    simp only [NS.addTaxa, hadd, List.foldl_cons]
    obtain ⟨a, b, c, d, e⟩ := ih s1 (inv_addTaxon hi hadd) hm1
    refine ⟨a, by rw [b, htaxa], ?_, d, by rw [e, hcs1]⟩
    intro x i hx
    exact c x i (prim_grow (c := ⟨false, true, t + 1⟩) (.add t rfl (by simp) hadd) rfl hx)

/-- `add_taxa` on an immutable namespace: nothing changes; it succeeds exactly when every taxon is already a member -/
theorem addTaxa_immutable : ∀ (ts : List Nat) (s : NS), s.mutable_ = false →
    (s.addTaxa ts).1 = s ∧ ((s.addTaxa ts).2 = none ↔ ∀ t ∈ ts, s.contains t = true) ∧
    ((s.addTaxa ts).2 = none ∨ (s.addTaxa ts).2 = some .immutable) := by
  intro ts
  induction ts with
  | nil => intro s _; simp [NS.addTaxa]
  | cons t ts ih =>
    intro s hm
    by_cases hc : s.contains t = true
    · have hadd : s.addTaxon t = .ok s := by simp [NS.addTaxon, hc]
      simp only [NS.addTaxa, hadd]
      obtain ⟨a, b, c⟩ := ih s hm
      refine ⟨a, ?_, c⟩
      rw [b]; simp [hc]
    · have hadd : s.addTaxon t = .error .immutable := by simp [NS.addTaxon, hc, hm]
      simp [NS.addTaxa, hadd, hc]

theorem set_self {w : World} {n : Nat} {s : NS} (hs : w.nss[n]? = some s) : w.setNs n s = w := by
  cases w with
  | mk labels nss =>
    simp only [World.setNs, World.mk.injEq, true_and]
    simp only at hs
    apply List.ext_getElem?
    intro j
    by_cases e : n = j
    · subst e
      obtain ⟨hlt, hget⟩ := List.getElem?_eq_some_iff.1 hs
      simp [hlt, hget]
    · simp [List.getElem?_set_ne e]

/-- the loop of `new_taxa` on a mutable namespace -/
theorem newTaxaLoop_spec (n : Nat) : ∀ (ls : List String) (w : World) (s : NS) (acc : List Nat), w.nss[n]? = some s →
    Inv s → (∀ t ∈ s.taxa, t < w.labels.length) → s.mutable_ = true →
    ∃ s', newTaxaLoop w n ls acc =
        (⟨w.labels ++ ls, w.nss.set n s'⟩, .ids (acc ++ (List.range ls.length).map (w.labels.length + ·))) ∧
      s'.taxa = s.taxa ++ (List.range ls.length).map (w.labels.length + ·) ∧ s'.count = s.count + ls.length ∧
      (∀ k, k < ls.length → s'.t2a.get (w.labels.length + k) = some (s.count + k)) ∧
      (∀ t, t < w.labels.length → s'.t2a.get t = s.t2a.get t) ∧ s'.mutable_ = true ∧ s'.caseSens = s.caseSens := by
  intro ls
  induction ls with
  | nil =>
    intro w s acc hs _ _ hm
    refine ⟨s, ?_, by simp, by simp, by simp, by simp, hm, rfl⟩
    have := set_self hs
    simp only [World.setNs] at this
    cases w; simp_all [newTaxaLoop]
  | cons l ls ih =>
    intro w s acc hs hi hf hm
    have hlt : n < w.nss.length := (List.getElem?_eq_some_iff.1 hs).1
    have hfresh : s.contains w.labels.length = false := by
      cases hc : s.contains w.labels.length with
      | false => rfl
      | true => have := hf _ ((hi.dom _).2 ((contains_iff s _).1 hc)); omega
    have hadd : s.addTaxon w.labels.length = .ok
        { s with taxa := s.taxa ++ [w.labels.length], a2t := s.a2t.put s.count w.labels.length,
                 t2a := s.t2a.put w.labels.length s.count, count := s.count + 1 } := by
      simp [NS.addTaxon, hfresh, hm]
    have hi1 := inv_addTaxon hi hadd
    have hf1 := prim_fresh (c := ⟨false, true, (w.labels ++ [l]).length⟩) (.add w.labels.length rfl (by simp) hadd)
      (fun t ht => by have := hf t ht; simp; omega)
    have hnt : newTaxon w n s l = (⟨w.labels ++ [l], w.nss.set n
        { s with taxa := s.taxa ++ [w.labels.length], a2t := s.a2t.put s.count w.labels.length,
                 t2a := s.t2a.put w.labels.length s.count, count := s.count + 1 }⟩, .ok w.labels.length) := by
      unfold newTaxon
      rw [if_neg (by simp [hm])]
      simp only [hadd, World.setNs]
    simp only [newTaxaLoop, hs, hnt]
    obtain ⟨s', e, a, b, c, d, g, h⟩ := ih ⟨w.labels ++ [l], w.nss.set n
        { s with taxa := s.taxa ++ [w.labels.length], a2t := s.a2t.put s.count w.labels.length,
                 t2a := s.t2a.put w.labels.length s.count, count := s.count + 1 }⟩
        { s with taxa := s.taxa ++ [w.labels.length], a2t := s.a2t.put s.count w.labels.length,
                 t2a := s.t2a.put w.labels.length s.count, count := s.count + 1 } (acc ++ [w.labels.length])
      (by simp [hlt]) hi1 hf1 hm
    refine ⟨s', ?_, ?_, by rw [b]; simp; omega, ?_, ?_, g, h⟩
    · rw [e]
      simp only [List.set_set, List.append_assoc, List.singleton_append, List.length_append, List.length_cons,
        List.length_nil]
      congr 2
      rw [List.range_succ_eq_map]
      simp [Function.comp_def, Nat.add_assoc, Nat.add_comm 1]
    · rw [a]
      simp only [List.length_append, List.length_cons, List.length_nil, List.append_assoc, List.singleton_append]
      rw [List.range_succ_eq_map]
      simp [Function.comp_def, Nat.add_assoc, Nat.add_comm 1]
    · intro k hk
      cases k with
      | zero =>
        rw [Nat.add_zero, d _ (by simp)]
        simp [get_put_self]
      | succ k =>
        have := c k (by simpa using hk)
        simp only [List.length_append, List.length_cons, List.length_nil] at this
        rw [show w.labels.length + (k + 1) = w.labels.length + 0 + 1 + k by omega, this]
        simp; omega
    · intro t ht
      rw [d t (by simp; omega)]
      have : t ≠ w.labels.length := by omega
      simp [get_put_ne _ _ _ _ this]

end DendroModel.C10.Aux

namespace DendroModel.C10.Aux
open DendroModel DendroModel.C10

/-! ### an operation on one namespace leaves the others alone -/
theorem setNs_frame {w : World} {n n' : Nat} {s' : NS} (h : n' ≠ n) : (w.setNs n' s').nss[n]? = w.nss[n]? := by
  simp [World.setNs, List.getElem?_set_ne h]

theorem newTaxon_frame {w : World} {n n' : Nat} {s : NS} (l : String) (h : n' ≠ n) :
    (newTaxon w n' s l).1.nss[n]? = w.nss[n]? := by
  unfold newTaxon
  split
  · rfl
  · simp only
    split
    · simp [World.setNs, List.getElem?_set_ne h]
    · rfl

theorem newTaxaLoop_frame {n n' : Nat} (h : n' ≠ n) : ∀ (ls : List String) (w : World) (acc : List Nat),
    (newTaxaLoop w n' ls acc).1.nss[n]? = w.nss[n]? := by
  intro ls
  induction ls with
  | nil => intro w acc; rfl
  | cons l ls ih =>
    intro w acc
    unfold newTaxaLoop
    cases hs : w.nss[n']? with
    | none => rfl
    | some s =>
      simp only
      have key := newTaxon_frame (w := w) (s := s) l h
      rcases hnt : newTaxon w n' s l with ⟨w', r⟩
      rw [hnt] at key
      cases r with
      | error e => exact key
      | ok t => simp only; rw [ih w' _]; exact key

theorem stepNs_frame {w : World} {n n' : Nat} {s x : NS} (h : n' ≠ n) (hx : w.nss[n]? = some x) (op : Op) :
    (stepNs w n' s op).1.nss[n]? = some x := by
  have hlt : n < w.nss.length := (List.getElem?_eq_some_iff.1 hx).1
  cases op <;> simp only [stepNs] <;> (repeat' split) <;>
    first
    | exact hx
    | (rw [setNs_frame h]; exact hx)
    | (simp only; rw [List.getElem?_append_left hlt]; exact hx)
    | (rw [List.getElem?_append_left hlt]; exact hx)
    | (rw [newTaxon_frame _ h]; exact hx)
    | (dsimp only; rw [newTaxon_frame _ h]; exact hx)
    | (rw [newTaxaLoop_frame h]; exact hx)

end DendroModel.C10.Aux

namespace DendroModel.C10.Aux
open DendroModel DendroModel.C10

/-! ### refusals -/
theorem btl_dead (a2t : Map) : ∀ (m index : Nat), (∃ i, m.testBit i = true ∧ a2t.get (index + i) = none) →
    btl a2t m index = .error .keyError := by
  intro m
  induction m using Nat.strongRecOn with
  | _ m ih =>
    intro index hex
    obtain ⟨i, hi, hg⟩ := hex
    rw [btl]
    by_cases h0 : m = 0
    · subst h0; simp at hi
    · have hlt : m / 2 < m := by omega
      simp only [h0, dite_false]
      by_cases h1 : m % 2 = 1
      · simp only [h1, if_true]
        cases hget : a2t.get index with
        | none => rfl
        | some t =>
          simp only
          cases i with
          | zero => simp only [Nat.add_zero] at hg; rw [hg] at hget; cases hget
          | succ j =>
            have := ih (m / 2) hlt (index + 1) ⟨j, by rw [Nat.testBit_succ] at hi; exact hi,
              by rwa [show index + (j + 1) = index + 1 + j by omega] at hg⟩
            rw [this]
      · simp only [h1, if_false]
        cases i with
        | zero => rw [Nat.testBit_zero] at hi; simp [h1] at hi
        | succ j =>
          exact ih (m / 2) hlt (index + 1) ⟨j, by rw [Nat.testBit_succ] at hi; exact hi,
            by rwa [show index + (j + 1) = index + 1 + j by omega] at hg⟩

theorem taxaBitmask_nonmember : ∀ (ts : List Nat) (s : NS) (acc : Nat), Inv s → (∃ t ∈ ts, t ∉ s.taxa) →
    (s.taxaBitmask ts acc).2 = .error .keyError := by
  intro ts
  induction ts with
  | nil => intro s acc _ h; obtain ⟨t, ht, _⟩ := h; cases ht
  | cons t ts ih =>
    intro s acc hi hex
    unfold NS.taxaBitmask
    by_cases hm : t ∈ s.taxa
    · obtain ⟨i, _, h2⟩ := taxonBitmask_ok hi hm
      obtain ⟨f1, _, _, _⟩ := taxonBitmask_frame s t
      have hi1 : Inv (s.taxonBitmask t).1 := rel_inv (taxonBitmask_rel (c := ⟨false, false, 0⟩) s t) hi
      rcases hx : s.taxonBitmask t with ⟨s1, r⟩
      rw [hx] at h2 f1 hi1
      simp only at h2 f1 hi1
      subst h2
      simp only
      apply ih s1 _ hi1
      obtain ⟨x, hx1, hx2⟩ := hex
      rcases List.mem_cons.1 hx1 with e | e
      · subst e; exact absurd hm hx2
      · exact ⟨x, e, by rw [f1]; exact hx2⟩
    · have hnone : s.t2a.get t = none := by
        cases h : s.t2a.get t with
        | none => rfl
        | some i => exact absurd ((hi.dom t).2 (by simp [h])) hm
      have hbm : s.bm.get t = none := by
        cases h : s.bm.get t with
        | none => rfl
        | some m => obtain ⟨i, h1, _⟩ := hi.memo t m h; rw [hnone] at h1; cases h1
      simp [NS.taxonBitmask, hbm, hnone]

end DendroModel.C10.Aux

namespace DendroModel.C10.Aux
open DendroModel DendroModel.C10

/-! ### `bitmask_taxa_list` lists the taxa in ascending bit order -/
theorem btl_sorted (a2t : Map) : ∀ (m index : Nat) (L : List Nat), btl a2t m index = .ok L →
    L.Pairwise (fun a b => ∃ i j, i < j ∧ a2t.get (index + i) = some a ∧ a2t.get (index + j) = some b) ∧
    ∀ t ∈ L, ∃ i, a2t.get (index + i) = some t := by
  intro m
  induction m using Nat.strongRecOn with
  | _ m ih =>
    intro index L hL
    rw [btl] at hL
    by_cases h0 : m = 0
    · subst h0; simp at hL; subst hL; simp
    · have hlt : m / 2 < m := by omega
      simp only [h0, dite_false] at hL
      have lift : ∀ L', btl a2t (m / 2) (index + 1) = .ok L' →
          L'.Pairwise (fun a b => ∃ i j, i < j ∧ a2t.get (index + i) = some a ∧ a2t.get (index + j) = some b) ∧
          ∀ t ∈ L', ∃ i, 0 < i ∧ a2t.get (index + i) = some t := by
        intro L' h'
        obtain ⟨p, q⟩ := ih (m / 2) hlt (index + 1) L' h'
        constructor
        · refine p.imp ?_
          rintro a b ⟨i, j, hij, ha, hb⟩
          exact ⟨i + 1, j + 1, by omega, by rwa [show index + (i + 1) = index + 1 + i by omega],
            by rwa [show index + (j + 1) = index + 1 + j by omega]⟩
        · intro t ht
          obtain ⟨i, hi⟩ := q t ht
          exact ⟨i + 1, by omega, by rwa [show index + (i + 1) = index + 1 + i by omega]⟩
      by_cases h1 : m % 2 = 1
      · simp only [h1, if_true] at hL
        cases hget : a2t.get index with
        | none => rw [hget] at hL; cases hL
        | some t0 =>
          rw [hget] at hL
          simp only at hL
          cases hrec : btl a2t (m / 2) (index + 1) with
          | error e => rw [hrec] at hL; cases hL
          | ok L' =>
            rw [hrec] at hL
            simp only [Except.ok.injEq] at hL
            subst hL
            obtain ⟨p, q⟩ := lift L' hrec
            constructor
            · rw [List.pairwise_cons]
              refine ⟨?_, p⟩
              intro b hb
              obtain ⟨j, hj, hg⟩ := q b hb
              exact ⟨0, j, hj, by simpa using hget, hg⟩
            · intro t ht
              rcases List.mem_cons.1 ht with e | e
              · subst e; exact ⟨0, by simpa using hget⟩
              · obtain ⟨i, _, hi⟩ := q t e; exact ⟨i, hi⟩
      · simp only [h1, if_false] at hL
        obtain ⟨p, q⟩ := lift L hL
        exact ⟨p, fun t ht => by obtain ⟨i, _, hi⟩ := q t ht; exact ⟨i, hi⟩⟩

theorem labelMatches_self (lab : Nat → String) (cs : Bool) (t : Nat) : labelMatches lab cs (lab t) t = true := by
  unfold labelMatches labelMatchesO; cases cs <;> simp [pyStr]

end DendroModel.C10.Aux
