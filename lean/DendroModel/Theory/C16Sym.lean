import DendroModel.Theory.C16Fitch
/-! C16 theory, part 2: the Fitch count does not depend on child order nor on the position of the root. -/
namespace DendroModel.C16

/-- equal up to exchanging the two children at any set of nodes -/
inductive Sw {α : Type} : Bt α → Bt α → Prop
  | leaf (a : α) : Sw (.leaf a) (.leaf a)
  | same {l l' r r' : Bt α} : Sw l l' → Sw r r' → Sw (.node l r) (.node l' r')
  | swap {l l' r r' : Bt α} : Sw l l' → Sw r r' → Sw (.node l r) (.node r' l')

/-- the root (a node of degree two on an edge of the unrooted tree) slides onto one of the four neighbouring edges -/
inductive Rot {α : Type} : Bt α → Bt α → Prop
  | refl (t : Bt α) : Rot t t
  | ll (a1 a2 b : Bt α) : Rot (.node (.node a1 a2) b) (.node a1 (.node a2 b))
  | lr (a1 a2 b : Bt α) : Rot (.node (.node a1 a2) b) (.node (.node a1 b) a2)
  | rl (a b1 b2 : Bt α) : Rot (.node a (.node b1 b2)) (.node (.node a b2) b1)
  | rr (a b1 b2 : Bt α) : Rot (.node a (.node b1 b2)) (.node (.node a b1) b2)

namespace Aux

theorem Sw.refl {α : Type} : ∀ t : Bt α, Sw t t
  | .leaf a => .leaf a
  | .node l r => .same (Sw.refl l) (Sw.refl r)

theorem Sw.map {α β : Type} (f : α → β) {t t' : Bt α} (h : Sw t t') : Sw (t.map f) (t'.map f) := by
  induction h with
  | leaf a => exact .leaf _
  | same _ _ ihl ihr => exact .same ihl ihr
  | swap _ _ ihl ihr => exact .swap ihl ihr

theorem Rot.map {α β : Type} (f : α → β) {t t' : Bt α} (h : Rot t t') : Rot (t.map f) (t'.map f) := by
  cases h with
  | refl => exact .refl _
  | ll => exact .ll _ _ _
  | lr => exact .lr _ _ _
  | rl => exact .rl _ _ _
  | rr => exact .rr _ _ _

theorem Sw.all {α : Type} (p : α → Prop) {t t' : Bt α} (h : Sw t t') : t.All p → t'.All p := by
  induction h with
  | leaf a => exact id
  | same _ _ ihl ihr => exact fun ⟨a, b⟩ => ⟨ihl a, ihr b⟩
  | swap _ _ ihl ihr => exact fun ⟨a, b⟩ => ⟨ihr b, ihl a⟩

theorem Rot.all {α : Type} (p : α → Prop) {t t' : Bt α} (h : Rot t t') : t.All p → t'.All p := by
  cases h with
  | refl => exact id
  | ll => exact fun ⟨⟨a, b⟩, c⟩ => ⟨a, b, c⟩
  | lr => exact fun ⟨⟨a, b⟩, c⟩ => ⟨⟨a, c⟩, b⟩
  | rl => exact fun ⟨a, b, c⟩ => ⟨⟨a, c⟩, b⟩
  | rr => exact fun ⟨a, b, c⟩ => ⟨⟨a, b⟩, c⟩

/-- child order: state set and count are both unchanged -/
theorem fitch_sw {t t' : B} (h : Sw t t') : fitch t = fitch t' := by
  induction h with
  | leaf a => rfl
  | same _ _ ihl ihr => simp [fitch, ihl, ihr]
  | swap _ _ ihl ihr =>
    simp only [fitch, ihl, ihr]
    rw [comb_comm]
    simp [Nat.add_comm]

/-- half of the root-slide invariance, from minimality: an optimal assignment of `a1 (a2 b)` yields one of
    `(a1 a2) b` that is not more expensive (give both upper nodes the state of the inner node) -/
theorem rot_le (a1 a2 b : B) (h1 : NonEmptyLeaves a1) (h2 : NonEmptyLeaves a2) (hb : NonEmptyLeaves b) :
    (fitch (.node (.node a1 a2) b)).2 ≤ (fitch (.node a1 (.node a2 b))).2 := by
  obtain ⟨asg, hv, hc⟩ := (fitch_minimal (.node a1 (.node a2 b)) ⟨h1, h2, hb⟩).2
  cases asg with
  | leaf s => simp [Valid] at hv
  | node r α1 inner =>
    cases inner with
    | leaf s => simp [Valid] at hv
    | node y α2 β =>
      simp only [Valid] at hv
      have hv' : Valid (.node (.node a1 a2) b) (.node y (.node y α1 α2) β) := ⟨⟨hv.1, hv.2.1⟩, hv.2.2⟩
      have hlow := (fitch_minimal (.node (.node a1 a2) b) ⟨⟨h1, h2⟩, hb⟩).1 _ hv'
      have tri := d_triangle α1.root r y
      have hcomm := d_comm y r
      simp only [changes, root_node, d_self] at hlow hc
      omega

theorem fitch_rot_ll (a1 a2 b : B) (h1 : NonEmptyLeaves a1) (h2 : NonEmptyLeaves a2) (hb : NonEmptyLeaves b) :
    (fitch (.node (.node a1 a2) b)).2 = (fitch (.node a1 (.node a2 b))).2 := by
  apply Nat.le_antisymm (rot_le a1 a2 b h1 h2 hb)
  -- a1 (a2 b)  ~  (b a2) a1  ≤  b (a2 a1)  ~  (a1 a2) b
  have e1 : fitch (.node a1 (.node a2 b)) = fitch (.node (.node b a2) a1) :=
    fitch_sw (.swap (Sw.refl _) (.swap (Sw.refl _) (Sw.refl _)))
  have e2 : fitch (.node b (.node a2 a1)) = fitch (.node (.node a1 a2) b) :=
    fitch_sw (.swap (Sw.refl _) (.swap (Sw.refl _) (Sw.refl _)))
  rw [e1, ← e2]
  exact rot_le b a2 a1 hb h2 h1

/-- root position: the count is unchanged by a root slide -/
theorem fitch_rot {t t' : B} (h : Rot t t') (hne : NonEmptyLeaves t) : (fitch t).2 = (fitch t').2 := by
  cases h with
  | refl => rfl
  | ll a1 a2 b => exact fitch_rot_ll a1 a2 b hne.1.1 hne.1.2 hne.2
  | lr a1 a2 b =>
    -- (a1 a2) b ~ (a2 a1) b = a2 (a1 b) ~ (a1 b) a2
    have e1 : fitch (.node (.node a1 a2) b) = fitch (.node (.node a2 a1) b) :=
      fitch_sw (.same (.swap (Sw.refl _) (Sw.refl _)) (Sw.refl _))
    have e2 : fitch (.node a2 (.node a1 b)) = fitch (.node (.node a1 b) a2) :=
      fitch_sw (.swap (Sw.refl _) (Sw.refl _))
    rw [e1, fitch_rot_ll a2 a1 b hne.1.2 hne.1.1 hne.2, e2]
  | rl a b1 b2 =>
    -- a (b1 b2) ~ (b1 b2)... : (a b2) b1 = a (b2 b1) ~ a (b1 b2)
    have e1 : fitch (.node a (.node b2 b1)) = fitch (.node a (.node b1 b2)) :=
      fitch_sw (.same (Sw.refl _) (.swap (Sw.refl _) (Sw.refl _)))
    rw [fitch_rot_ll a b2 b1 hne.1 hne.2.2 hne.2.1, e1]
  | rr a b1 b2 =>
    rw [fitch_rot_ll a b1 b2 hne.1 hne.2.1 hne.2.2]

end Aux
end DendroModel.C16
