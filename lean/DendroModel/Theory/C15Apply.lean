import DendroModel.Theory.C15Build
import DendroModel.Theory.C15Ptr
import DendroModel.Theory.C15Level
/-! C15 — the pointer-level loop of `Node.apply` (`applyPtrRun`/`climbPtr` over the parent array) refines to the zipper
machine on every subtree that is faithful to the array, and `buildTree` with enough fuel is faithful. -/
namespace DendroModel.C15.ApplyAux
open DendroModel DendroModel.C15 DendroModel.C15.BuildAux DendroModel.C15.PtrAux

/-- the zipper context of a node, read off the array: parent pointer, the code's last-child test, up to the start -/
def Ctx (par : Array Int) (start : Nat) : Nat → List (Nat × Bool) → Prop
  | node, [] => node = start
  | node, (p, l) :: up => node ≠ start ∧ par[node]! = (p : Int) ∧ l = ((kidsOf par p).getLast? == some node)
      ∧ Ctx par start p up

theorem climbPtr_eq (par : Array Int) (start : Nat) : ∀ (ctx : List (Nat × Bool)) (node fuel : Nat),
    Ctx par start node ctx → ctx.length < fuel → climbPtr par start fuel node = climbZip ctx
  | [], node, fuel, h, hf => by
    obtain ⟨f, rfl⟩ : ∃ f, fuel = f + 1 := ⟨fuel - 1, by simp at hf; omega⟩
    simp only [Ctx] at h
    simp [climbPtr, climbZip, h]
  | (p, l) :: up, node, fuel, h, hf => by
    obtain ⟨f, rfl⟩ : ∃ f, fuel = f + 1 := ⟨fuel - 1, by simp at hf; omega⟩
    obtain ⟨hne, hp, hl, hup⟩ := h
    have ih := climbPtr_eq par start up p f hup (by simp at hf; omega)
    have hb : (node == start) = false := by simpa using hne
    simp only [climbPtr, hb, hp, Int.toNat_natCast, Bool.false_eq_true, if_false, ← hl, climbZip, ih]

/-- where an entry of `pushZip` sits in the child list, and its flag -/
theorem mem_pushZip (i : Nat) (ctx : List (Nat × Bool)) : ∀ (cs : List T) (e : T × List (Nat × Bool)),
    e ∈ pushZip i ctx cs → ∃ l1 l2, cs = l1 ++ e.1 :: l2 ∧ e.2 = (i, l2.isEmpty) :: ctx
  | [], e, h => by simp [pushZip] at h
  | [c], e, h => by
    simp [pushZip] at h; subst h
    exact ⟨[], [], rfl, rfl⟩
  | c :: d :: cs, e, h => by
    simp only [pushZip, List.mem_cons] at h
    rcases h with rfl | h
    · exact ⟨[], d :: cs, rfl, rfl⟩
    · obtain ⟨l1, l2, h1, h2⟩ := mem_pushZip i ctx (d :: cs) e h
      exact ⟨c :: l1, l2, by rw [h1]; rfl, h2⟩

theorem pushZip_ids (i : Nat) (ctx : List (Nat × Bool)) : ∀ cs : List T,
    (pushZip i ctx cs).map (fun e => e.1.id) = cs.map T.id
  | [] => rfl
  | [c] => rfl
  | c :: d :: cs => by
    have := pushZip_ids i ctx (d :: cs)
    simp only [pushZip, List.map_cons] at this ⊢
    rw [this]

/-- in a duplicate-free list the last-element test singles out exactly the last position -/
theorem last_test (l1 l2 : List Nat) (a : Nat) (h : (l1 ++ a :: l2).Nodup) :
    ((l1 ++ a :: l2).getLast? == some a) = l2.isEmpty := by
  rw [List.getLast?_append_of_ne_nil _ (by simp)]
  cases l2 with
  | nil => simp
  | cons z l2' =>
    have hnd := (List.nodup_append.mp h).2.1
    have ha : a ∉ z :: l2' := (List.nodup_cons.mp hnd).1
    rw [List.getLast?_cons_cons]
    simp only [List.isEmpty_cons, beq_eq_false_iff_ne, ne_eq]
    intro hlast
    exact ha (List.mem_of_getLast? hlast)

theorem nodes_subset_nodesL (c : T) : ∀ cs : List T, c ∈ cs → ∀ y ∈ T.nodes c, y ∈ T.nodesL cs
  | [], h, _, _ => by cases h
  | d :: cs, h, y, hy => by
    simp only [T.nodesL, List.mem_append]
    rcases List.mem_cons.mp h with rfl | h
    · left; exact hy
    · right; exact nodes_subset_nodesL c cs h y hy

/-- what the machine needs to know about a stacked entry -/
def Inv (par : Array Int) (start : Nat) (e : T × List (Nat × Bool)) : Prop :=
  (∀ b ∈ T.nodes e.1, b.cs.map T.id = kidsOf par b.id)
  ∧ Ctx par start e.1.id e.2
  ∧ e.2.length + e.1.size ≤ par.size
  ∧ ∀ y ∈ T.nodesL e.1.cs, y.id ≠ start

theorem kidsOf_nodup (par : Array Int) (j : Nat) : (kidsOf par j).Nodup := List.Nodup.filter _ List.nodup_range

theorem inv_pushZip (par : Array Int) (start : Nat) (x : T) (ctx : List (Nat × Bool)) (h : Inv par start (x, ctx)) :
    ∀ e ∈ pushZip x.id ctx x.cs, Inv par start e := by
  obtain ⟨hf, hctx, hsz, hns⟩ := h
  intro e he
  obtain ⟨l1, l2, hcs, hflag⟩ := mem_pushZip x.id ctx x.cs e he
  have hmem : e.1 ∈ x.cs := by rw [hcs]; simp
  have hxn : x ∈ T.nodes x := by rw [nodes_eq']; exact List.mem_cons_self
  have hk : x.cs.map T.id = kidsOf par x.id := hf x hxn
  have hsub : ∀ y ∈ T.nodes e.1, y ∈ T.nodesL x.cs := nodes_subset_nodesL e.1 x.cs hmem
  refine ⟨?_, ?_, ?_, ?_⟩
  · intro b hb
    exact hf b (by rw [nodes_eq']; exact List.mem_cons_of_mem _ (hsub b hb))
  · rw [hflag]
    have hidk : e.1.id ∈ kidsOf par x.id := by rw [← hk]; exact List.mem_map_of_mem hmem
    have hpar : par[e.1.id]! = (x.id : Int) := by
      have := (List.mem_filter.mp hidk).2
      simpa using this
    refine ⟨hns e.1 (mem_nodesL_of_mem e.1 x.cs hmem), hpar, ?_, hctx⟩
    have hnd := kidsOf_nodup par x.id
    rw [← hk, hcs] at hnd ⊢
    simp only [List.map_append, List.map_cons] at hnd ⊢
    rw [last_test _ _ _ hnd]
    simp
  · rw [hflag]
    have := size_lt_of_child e.1 x hmem
    simp only [List.length_cons]
    simp only at hsz
    omega
  · intro y hy
    exact hns y (hsub y (by rw [nodes_eq']; exact List.mem_cons_of_mem _ hy))

theorem applyPtrRun_eq (par : Array Int) (start : Nat) : ∀ (f : Nat) (st : List (T × List (Nat × Bool))),
    (∀ e ∈ st, Inv par start e) → applyPtrRun par start f (st.map (fun e => e.1.id)) = applyZipRun f st
  | 0, st, _ => by simp [applyPtrRun, applyZipRun]
  | f + 1, [], _ => by simp [applyPtrRun, applyZipRun]
  | f + 1, (.node i x l s [], ctx) :: rest, h => by
    have hinv := h _ List.mem_cons_self
    obtain ⟨hf, hctx, hsz, _⟩ := hinv
    have hk : kidsOf par i = [] := by
      have := hf (.node i x l s []) (by simp [T.nodes])
      simpa [T.cs, T.id] using this.symm
    have ih := applyPtrRun_eq par start f rest (fun e he => h e (List.mem_cons_of_mem _ he))
    have hcl := climbPtr_eq par start ctx i par.size hctx (by simp [T.size, T.sizeL] at hsz; omega)
    rw [List.map_cons, show ((T.node i x l s [], ctx) : T × List (Nat × Bool)).1.id = i from rfl]
    simp only [applyPtrRun, hk, List.isEmpty_nil, if_true, applyZipRun, hcl, ih]
  | f + 1, (.node i x l s (c :: cs), ctx) :: rest, h => by
    have hinv := h _ List.mem_cons_self
    have hk : kidsOf par i = (c :: cs).map T.id := by
      have := hinv.1 (.node i x l s (c :: cs)) (by simp [T.nodes])
      simpa [T.cs, T.id] using this.symm
    have hpush := inv_pushZip par start (.node i x l s (c :: cs)) ctx hinv
    simp only [T.id, T.cs] at hpush
    have ih := applyPtrRun_eq par start f (pushZip i ctx (c :: cs) ++ rest) (by
      intro e he
      rcases List.mem_append.mp he with he | he
      · exact hpush e he
      · exact h e (List.mem_cons_of_mem _ he))
    rw [List.map_append, pushZip_ids] at ih
    rw [List.map_cons, show ((T.node i x l s (c :: cs), ctx) : T × List (Nat × Bool)).1.id = i from rfl]
    simp only [applyPtrRun, hk, List.map_cons, List.isEmpty_cons, Bool.false_eq_true, if_false, applyZipRun]
    simp only [List.map_cons] at ih
    rw [ih]


/-! ### fuel adequacy of `buildTree`: with at least `par.size` fuel no node is cut off, so every node lists exactly the
children the array gives it -/

theorem length_le_of_nodup_lt (l : List Nat) (n : Nat) (hnd : l.Nodup) (hlt : ∀ a ∈ l, a < n) : l.length ≤ n := by
  have := (List.subperm_of_subset hnd (fun a ha => List.mem_range.mpr (hlt a ha))).length_le
  simpa using this

theorem build_faithful (par : Array Int) (tax : Array (Option Nat)) (lens : Array (Option Frac)) (labs : Array (Option String)) :
    ∀ (f i : Nat) (seen : List Nat), Acyc par i → (i :: seen).Nodup → (∀ a ∈ i :: seen, a < par.size) →
      (∀ a ∈ seen, ∃ d, (up par)^[d] (i : Int) = (a : Int)) → par.size ≤ f + seen.length →
      ∀ b ∈ T.nodes (buildTree f par tax lens labs i), b.cs.map T.id = kidsOf par b.id
  | 0, i, seen, _, hnd, hlt, _, hsz => by
    have := length_le_of_nodup_lt (i :: seen) par.size hnd hlt
    simp only [List.length_cons] at this
    omega
  | f + 1, i, seen, hac, hnd, hlt, hanc, hsz => by
    intro b hb
    simp only [buildTree, T.nodes, List.mem_cons] at hb
    rcases hb with rfl | hb
    · simp only [T.cs, T.id, kidsOf, List.map_map]
      conv_rhs => rw [← List.map_id ((List.range par.size).filter (fun k => par[k]! == (i : Int)))]
      apply List.map_congr_left
      intro k _
      simp [build_id]
    · obtain ⟨k, hk, hbk⟩ := mem_nodesL_map _ b _ hb
      have hpk : par[k]! = (i : Int) := by
        have := (List.mem_filter.mp hk).2
        simpa using this
      have hklt : k < par.size := List.mem_range.mp (List.mem_filter.mp hk).1
      have hack := acyc_kid par i k hpk hac
      have hupk : up par (k : Int) = (i : Int) := by rw [up_nat, hpk]
      have hanc' : ∀ a ∈ i :: seen, ∃ d, (up par)^[d] (k : Int) = (a : Int) := by
        intro a ha
        rcases List.mem_cons.mp ha with rfl | ha
        · exact ⟨1, by simp [hupk]⟩
        · obtain ⟨d, hd⟩ := hanc a ha
          exact ⟨d + 1, by rw [Function.iterate_succ_apply, hupk, hd]⟩
      have hknot : k ∉ i :: seen := by
        intro hmem
        obtain ⟨d, hd⟩ : ∃ d, (up par)^[d] (i : Int) = (k : Int) := by
          rcases List.mem_cons.mp hmem with rfl | hm
          · exact ⟨0, rfl⟩
          · exact hanc k hm
        apply hack (d + 1) (by omega)
        rw [Function.iterate_succ_apply, hupk, hd]
      refine build_faithful par tax lens labs f k (i :: seen) hack (List.nodup_cons.mpr ⟨hknot, hnd⟩) ?_ hanc' ?_ b hbk
      · intro a ha
        rcases List.mem_cons.mp ha with rfl | ha
        · exact hklt
        · exact hlt a ha
      · simp only [List.length_cons]; omega

theorem ids_lt (par : Array Int) (tax : Array (Option Nat)) (lens : Array (Option Frac)) (labs : Array (Option String)) :
    ∀ (f i m : Nat), m ∈ idsOf (buildTree f par tax lens labs i) → m = i ∨ m < par.size
  | 0, i, m, h => by
    simp [buildTree, idsOf, T.nodes, T.nodesL, T.id] at h
    exact Or.inl h
  | f + 1, i, m, h => by
    rw [idsOf_build_succ] at h
    rcases List.mem_cons.mp h with rfl | h
    · exact Or.inl rfl
    · obtain ⟨k, hk, hm⟩ := List.mem_flatMap.mp h
      have hklt : k < par.size := List.mem_range.mp (List.mem_filter.mp hk).1
      rcases ids_lt par tax lens labs f k m hm with rfl | h'
      · exact Or.inr hklt
      · exact Or.inr h'

mutual
theorem size_eq_length : ∀ t : T, t.size = (T.nodes t).length
  | .node i x l s cs => by simp [T.size, T.nodes, sizeL_eq_length cs]; omega
theorem sizeL_eq_length : ∀ cs : List T, T.sizeL cs = (T.nodesL cs).length
  | [] => by simp [T.sizeL, T.nodesL]
  | c :: cs => by simp [T.sizeL, T.nodesL, size_eq_length c, sizeL_eq_length cs]
end

theorem mapM_length {α β : Type} (g : α → Option β) : ∀ (l : List α) (r : List β), l.mapM g = some r → r.length = l.length
  | [], r, h => by simp at h; subst h; rfl
  | a :: l, r, h => by
    rw [List.mapM_cons] at h
    cases ha : g a with
    | none => rw [ha] at h; simp at h
    | some b =>
      cases hr : l.mapM g with
      | none => rw [ha, hr] at h; simp at h
      | some r0 =>
        rw [ha, hr] at h
        simp at h
        subst h
        simp [mapM_length g l r0 hr]

/-- `parseTree_build` with the two facts fuel adequacy needs: the seed index is inside the array and the fuel is at
least the array size -/
theorem parseTree_build_fuel (toks : List String) (tree : T) (rest : List String) (h : parseTree toks = some (tree, rest)) :
    ∃ (f : Nat) (par : Array Int) (tax : Array (Option Nat)) (lens : Array (Option Frac)) (labs : Array (Option String))
      (r : Nat), parsePar toks = some par ∧ tree = buildTree f par tax lens labs r ∧ par[r]! = -1
        ∧ r < par.size ∧ par.size ≤ f := by
  unfold parseTree at h
  unfold parsePar
  split at h
  · simp at h
  · split at h
    · simp at h
    · rename_i hn
      split at h
      · simp at h
      · rename_i hlen
        simp only [] at h
        split at h
        · rename_i hps _ _ _
          split at h
          · simp at h
          · rename_i root hroot
            simp only [Option.some.injEq, Prod.mk.injEq] at h
            have hsize := mapM_length _ _ _ hps
            simp only [List.length_take] at hsize
            refine ⟨_, _, _, _, _, root, ?_, h.1.symm, ?_, ?_, ?_⟩
            · simp only [hn, hps, Option.map_some]
            · have := List.find?_some hroot
              simpa using this
            · have := List.mem_range.mp (List.mem_of_find?_eq_some hroot)
              simp only [List.size_toArray]
              omega
            · simp only [List.size_toArray]
              omega
        · simp at h

end DendroModel.C15.ApplyAux
