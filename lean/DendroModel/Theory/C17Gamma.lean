import DendroModel.Theory.C17Ext
/-! C17 — child-order independence of the Pybus–Harvey gamma on exactly ultrametric trees. -/
namespace DendroModel.C17.Aux
open DendroModel DendroModel.C17

def isBif (v : T) : Bool := v.cs.length == 2

theorem iso_len {t u : T} (h : Iso t u) : t.len = u.len ∧ t.cs.length = u.cs.length := by
  induction h with
  | refl t => exact ⟨rfl, rfl⟩
  | swap i x l s pre a b post => exact ⟨rfl, by simp [T.cs]⟩
  | child i x l s pre c c' post _ _ => exact ⟨rfl, by simp [T.cs]⟩
  | trans _ _ ih1 ih2 => exact ⟨ih1.1.trans ih2.1, ih1.2.trans ih2.2⟩

theorem tipDistsL_append : ∀ a b : List T, tipDistsL (a ++ b) = tipDistsL a ++ tipDistsL b
  | [], b => by simp [tipDistsL]
  | c :: a, b => by simp [tipDistsL, tipDistsL_append a b]

theorem tipDists_of_ne_nil (i x l s) {cs : List T} (h : cs ≠ []) : tipDists (.node i x l s cs) = tipDistsL cs := by
  cases cs with
  | nil => exact absurd rfl h
  | cons c cs => simp [tipDists]

theorem tipDists_iso {t u : T} (h : Iso t u) : (tipDists t).Perm (tipDists u) := by
  induction h with
  | refl t => exact List.Perm.refl _
  | swap i x l s pre a b post =>
    rw [tipDists_of_ne_nil _ _ _ _ (by simp), tipDists_of_ne_nil _ _ _ _ (by simp)]
    simp only [tipDistsL_append, tipDistsL]
    apply List.Perm.append_left
    simp only [← List.append_assoc]
    exact List.Perm.append_right _ List.perm_append_comm
  | child i x l s pre c c' post hcc ih =>
    rw [tipDists_of_ne_nil _ _ _ _ (by simp), tipDists_of_ne_nil _ _ _ _ (by simp)]
    simp only [tipDistsL_append, tipDistsL, (iso_len hcc).1]
    exact List.Perm.append_left _ (List.Perm.append_right _ (ih.map _))
  | trans _ _ ih1 ih2 => exact ih1.trans ih2

theorem within_of_perm {ε : ℚ} {t u : T} (h : Within ε t) (hp : (tipDists t).Perm (tipDists u)) : Within ε u :=
  fun d hd d' hd' => h d (hp.symm.subset hd) d' (hp.symm.subset hd')

theorem fageQ_eq_of_perm {t u : T} (h : Within 0 t) (hp : (tipDists t).Perm (tipDists u)) : fageQ t = fageQ u := by
  have := h _ (fageQ_mem t) _ (hp.symm.subset (fageQ_mem u))
  have h0 := abs_nonpos_iff.mp this
  linarith

/-- ages (in ℚ) of the nodes with exactly two children -/
def bifAges (t : T) : List ℚ := ((T.nodes t).filter isBif).map fageQ
def bifAgesL (cs : List T) : List ℚ := ((T.nodesL cs).filter isBif).map fageQ

theorem nodesL_append : ∀ a b : List T, T.nodesL (a ++ b) = T.nodesL a ++ T.nodesL b
  | [], b => by simp [T.nodesL]
  | c :: a, b => by simp [T.nodesL, nodesL_append a b]

theorem bifAgesL_append (a b : List T) : bifAgesL (a ++ b) = bifAgesL a ++ bifAgesL b := by
  simp [bifAgesL, nodesL_append, List.filter_append]

theorem bifAgesL_cons (c : T) (cs : List T) : bifAgesL (c :: cs) = bifAges c ++ bifAgesL cs := by
  simp [bifAgesL, bifAges, T.nodesL, List.filter_append]

theorem bifAges_node (i x l s) (cs : List T) :
    bifAges (.node i x l s cs) = (if cs.length == 2 then [fageQ (.node i x l s cs)] else []) ++ bifAgesL cs := by
  have hb : isBif (.node i x l s cs) = (cs.length == 2) := rfl
  simp only [bifAges, bifAgesL, nodes_node, List.filter_cons, hb]
  split <;> simp

theorem bifAges_iso {t u : T} (h : Iso t u) : Within 0 t → (bifAges t).Perm (bifAges u) := by
  induction h with
  | refl t => intro _; exact List.Perm.refl _
  | swap i x l s pre a b post =>
    intro hu
    have hf := fageQ_eq_of_perm hu (tipDists_iso (Iso.swap i x l s pre a b post))
    rw [bifAges_node, bifAges_node, hf]
    have hl : (pre ++ a :: b :: post).length = (pre ++ b :: a :: post).length := by simp
    rw [hl]
    apply List.Perm.append_left
    simp only [bifAgesL_append, bifAgesL_cons]
    apply List.Perm.append_left
    simp only [← List.append_assoc]
    exact List.Perm.append_right _ List.perm_append_comm
  | child i x l s pre c c' post hcc ih =>
    intro hu
    have hf := fageQ_eq_of_perm hu (tipDists_iso (Iso.child i x l s pre c c' post hcc))
    have hc : Within 0 c := Within_child hu (by simp)
    rw [bifAges_node, bifAges_node, hf]
    have hl : (pre ++ c :: post).length = (pre ++ c' :: post).length := by simp
    rw [hl]
    apply List.Perm.append_left
    simp only [bifAgesL_append, bifAgesL_cons]
    exact List.Perm.append_left _ (List.Perm.append_right _ (ih hc))
  | trans h1 _ ih1 ih2 =>
    intro hu
    exact (ih1 hu).trans (ih2 (within_of_perm hu (tipDists_iso h1)))

def nonBifStat : FoldStat Nat Nat where
  f := fun t => ((T.nodes t).filter (fun v => !isBif v)).length
  fL := fun cs => ((T.nodesL cs).filter (fun v => !isBif v)).length
  op := (· + ·)
  fL_cons := fun c cs => by simp [T.nodesL, List.filter_append]
  lcomm := fun a b z => by omega
  f_node := fun i x l s cs cs' hl h => by
    have hb : ∀ cs : List T, isBif (.node i x l s cs) = (cs.length == 2) := fun _ => rfl
    simp only [nodes_node, List.filter_cons, hb, hl]
    split <;> simp [h]

/-! the intervals and the sort depend on the values only -/

def intervalsQ : List ℚ → List ℚ
  | [] => []
  | [a] => [a]
  | a :: b :: r => (a - b) :: intervalsQ (b :: r)

theorem intervals_map : ∀ l : List Frac, (∀ x ∈ l, x.WF) → (intervals l).map Frac.toRat = intervalsQ (l.map Frac.toRat)
  | [], _ => rfl
  | [a], _ => rfl
  | a :: b :: r, h => by
    have ha := h a List.mem_cons_self
    have hb := h b (List.mem_cons_of_mem _ List.mem_cons_self)
    have ih := intervals_map (b :: r) (fun x hx => h x (List.mem_cons_of_mem _ hx))
    simp only [intervals, List.map_cons, intervalsQ, Frac.sub_toRat ha hb] at ih ⊢
    rw [ih]

theorem sortDesc_map_eq {sa sb : List Frac} (ha : ∀ x ∈ sa, x.WF) (hb : ∀ x ∈ sb, x.WF)
    (hp : (sa.map Frac.toRat).Perm (sb.map Frac.toRat)) :
    (sortDesc sa).map Frac.toRat = (sortDesc sb).map Frac.toRat := by
  apply List.Perm.eq_of_pairwise (le := fun a b => b ≤ a)
  · intro a b _ _ h1 h2; exact le_antisymm h2 h1
  · exact List.pairwise_map.mpr (sortDesc_desc sa ha)
  · exact List.pairwise_map.mpr (sortDesc_desc sb hb)
  · exact (((sortDesc_perm sa).map _).trans hp).trans ((sortDesc_perm sb).map _).symm

/-- which branch `gammaParts` takes, and what it returns, in terms of the number of speciation ages, the count of the
    other nodes and the values of the intervals -/
theorem gammaParts_cases (a : AT) (hwf : ∀ x ∈ (specAges a).1, x.WF) :
    ((specAges a).1 = [] ∧ gammaParts a = .error .nonbinary) ∨
    ((specAges a).1 ≠ [] ∧ (specAges a).1.length + 1 ≠ (specAges a).2 ∧ gammaParts a = .error .nonbinary) ∨
    ((specAges a).1 ≠ [] ∧ (specAges a).1.length + 1 = (specAges a).2 ∧ (specAges a).2 = 2 ∧
      gammaParts a = .error .zerodiv) ∨
    ((specAges a).1 ≠ [] ∧ (specAges a).1.length + 1 = (specAges a).2 ∧ (specAges a).2 ≠ 2 ∧
      ∃ num tt, gammaParts a = .ok (num, tt, (specAges a).2) ∧ num.WF ∧ tt.WF ∧
        tt.toRat = wsum 2 ((intervals (sortDesc (specAges a).1)).map Frac.toRat) ∧
        num.toRat = dsum 2 (((intervals (sortDesc (specAges a).1)).dropLast).map Frac.toRat)
          / (((specAges a).2 : ℚ) - 2) - tt.toRat / 2) := by
  have hperm := sortDesc_perm (specAges a).1
  have hlenI := intervals_length (sortDesc (specAges a).1)
  cases hs : sortDesc (specAges a).1 with
  | nil =>
    left
    have : (specAges a).1 = [] := by
      have := hperm.length_eq; rw [hs] at this
      exact List.eq_nil_of_length_eq_zero this.symm
    refine ⟨this, ?_⟩
    unfold gammaParts
    rcases hsa : specAges a with ⟨sa, n0⟩
    rw [hsa] at hs
    simp only at hs ⊢
    rw [hs]
  | cons s ss =>
    right
    have hne : (specAges a).1 ≠ [] := by
      intro h0; rw [h0] at hs; simp [sortDesc] at hs
    have hlen : (intervals (s :: ss)).length = (specAges a).1.length := by
      rw [← hs, hlenI, hperm.length_eq]
    by_cases h1 : (specAges a).1.length + 1 = (specAges a).2
    · right
      by_cases h2 : (specAges a).2 = 2
      · left
        refine ⟨hne, h1, h2, ?_⟩
        unfold gammaParts
        rcases hsa : specAges a with ⟨sa, n0⟩
        rw [hsa] at hs hlen h1 h2
        simp only at hs hlen h1 h2 ⊢
        rw [hs]
        simp only
        have : ((intervals (s :: ss)).length + 1 != n0) = false := by simp [hlen, h1]
        simp only [this, Bool.false_eq_true, if_false]
        simp [h2]
      · right
        have hok : ∃ num tt, gammaParts a = .ok (num, tt, (specAges a).2) := by
          unfold gammaParts
          rcases hsa : specAges a with ⟨sa, n0⟩
          rw [hsa] at hs hlen h1 h2
          simp only at hs hlen h1 h2 ⊢
          rw [hs]
          simp only
          have e1 : ((intervals (s :: ss)).length + 1 != n0) = false := by simp [hlen, h1]
          have e2 : (n0 == 2) = false := by simp [h2]
          simp [e1, e2]
        obtain ⟨num, tt, hg⟩ := hok
        obtain ⟨_, _, _, htt, hnum⟩ := gammaParts_spec a hwf hg
        rw [hs] at htt hnum
        obtain ⟨wn, wt⟩ := gammaParts_wf a hg
        exact ⟨hne, h1, h2, num, tt, hg, wn, wt, htt, hnum⟩
    · left
      refine ⟨hne, h1, ?_⟩
      unfold gammaParts
      rcases hsa : specAges a with ⟨sa, n0⟩
      rw [hsa] at hs hlen h1
      simp only at hs hlen h1 ⊢
      rw [hs]
      simp only
      have : ((intervals (s :: ss)).length + 1 != n0) = true := by simp [hlen, h1]
      simp [this]

theorem gammaSignedSq_cases {num tt : Frac} (n : Nat) (hn : num.WF) (ht : tt.WF) :
    (tt.toRat = 0 ∧ gammaSignedSq (num, tt, n) = .error .zerodiv) ∨
    (tt.toRat ≠ 0 ∧ ∃ r, gammaSignedSq (num, tt, n) = .ok r ∧
      r.toRat = (if num.toRat < 0 then -1 else 1) * (num.toRat ^ 2 * (12 * ((n - 2 : ℕ) : ℚ)) / tt.toRat ^ 2)) := by
  by_cases hz : tt.toRat = 0
  · left
    have : tt.isZero = true := (Frac.isZero_iff ht).mpr hz
    exact ⟨hz, by simp [gammaSignedSq, this]⟩
  · right
    have hzb : tt.isZero = false := by
      cases hb : tt.isZero with
      | false => rfl
      | true => exact absurd ((Frac.isZero_iff ht).mp hb) hz
    have hsq : (Frac.div (num * num * Frac.ofNat (12 * (n - 2))) (tt * tt)).toRat
        = num.toRat ^ 2 * (12 * ((n - 2 : ℕ) : ℚ)) / tt.toRat ^ 2 := by
      rw [Frac.div_toRat (Frac.mul_wf _ _) (Frac.mul_wf _ _), Frac.mul_toRat (Frac.mul_wf _ _) (Frac.ofNat_wf _),
        Frac.mul_toRat hn hn, Frac.mul_toRat ht ht, Frac.ofNat_toRat]
      push_cast; ring
    refine ⟨hz, ?_⟩
    by_cases hlt : Frac.lt num Frac.zero = true
    · have := (Frac.lt_iff hn Frac.zero_wf).mp hlt
      rw [Frac.zero_toRat] at this
      exact ⟨_, by simp [gammaSignedSq, hzb, hlt]; rfl, by rw [Frac.neg_toRat, hsq]; simp [this]⟩
    · have hf : Frac.lt num Frac.zero = false := by simpa using hlt
      have := (Frac.lt_false_iff hn Frac.zero_wf).mp hf
      rw [Frac.zero_toRat] at this
      exact ⟨_, by simp [gammaSignedSq, hzb, hf]; rfl, by rw [hsq]; simp [not_lt.mpr this]⟩

/-! ## the list returned by `calc_node_ages` -/

mutual
/-- `(is_leaf, age)` of every node, pre-order -/
def flagged : AT → List (Bool × Frac)
  | .node _ a _ cs => (cs.isEmpty, a) :: flaggedL cs
def flaggedL : List AT → List (Bool × Frac)
  | [] => []
  | c :: cs => flagged c ++ flaggedL cs
end

mutual
theorem returned_perm (io : Bool) : ∀ a : AT,
    (a.returned io).Perm (((flagged a).filter (fun p => !io || !p.1)).map (·.2))
  | .node _ a _ [] => by
    cases io <;> simp [AT.returned, flagged, flaggedL]
  | .node _ a _ (c :: cs) => by
    have ih := returnedL_perm io (c :: cs)
    simp only [AT.returned, flagged, List.isEmpty_cons, List.filter_cons, Bool.not_false, Bool.or_true, if_true,
      List.map_cons]
    exact (List.perm_append_comm).trans (ih.cons _)
theorem returnedL_perm (io : Bool) : ∀ cs : List AT,
    (AT.returnedL io cs).Perm (((flaggedL cs).filter (fun p => !io || !p.1)).map (·.2))
  | [] => by simp [AT.returnedL, flaggedL]
  | c :: cs => by
    simp only [AT.returnedL, flaggedL, List.filter_append, List.map_append]
    exact (returned_perm io c).append (returnedL_perm io cs)
end

mutual
theorem flagged_annot : ∀ t : T, flagged (annot t) = (T.nodes t).map (fun v => (v.isLeaf, fage v))
  | .node i x l s cs => by
    have hlen : (annotL cs).isEmpty = cs.isEmpty := by cases cs <;> rfl
    simp [annot, flagged, T.nodes, flaggedL_annot cs, T.isLeaf, T.cs, hlen]
theorem flaggedL_annot : ∀ cs : List T, flaggedL (annotL cs) = (T.nodesL cs).map (fun v => (v.isLeaf, fage v))
  | [] => by simp [annotL, flaggedL, T.nodesL]
  | c :: cs => by simp [annotL, flaggedL, T.nodesL, flagged_annot c, flaggedL_annot cs]
end

mutual
theorem flagged_annotP (pick) : ∀ t : T, flagged (annotP pick t) = (T.nodes t).map (fun v => (v.isLeaf, page pick v))
  | .node i x l s cs => by
    have hlen : (annotPL pick cs).isEmpty = cs.isEmpty := by cases cs <;> rfl
    simp [annotP, flagged, T.nodes, flaggedL_annotP pick cs, T.isLeaf, T.cs, hlen]
theorem flaggedL_annotP (pick) : ∀ cs : List T,
    flaggedL (annotPL pick cs) = (T.nodesL cs).map (fun v => (v.isLeaf, page pick v))
  | [] => by simp [annotPL, flaggedL, T.nodesL]
  | c :: cs => by simp [annotPL, flaggedL, T.nodesL, flagged_annotP pick c, flaggedL_annotP pick cs]
end

/-! ## `set_edge_lengths_from_node_ages` on arbitrary ages -/

/-- documented new length: parent age − age, raised to the minimum when there is one -/
def newLenQ (m : Option ℚ) (pa a : ℚ) : ℚ :=
  match m with
  | none => pa - a
  | some m => max m (pa - a)

/-- `(id, documented new length)` of the listed nodes and everything below them, pre-order; `pa` = age of their parent -/
def specLensL (m : Option ℚ) (pa : ℚ) : List AT → List (Nat × ℚ)
  | [] => []
  | .node i a _ cs :: rest => (i, newLenQ m pa a.toRat) :: (specLensL m a.toRat cs ++ specLensL m pa rest)

mutual
/-- every age is a well-formed fraction -/
def AWF : AT → Prop
  | .node _ a _ cs => a.WF ∧ AWFL cs
def AWFL : List AT → Prop
  | [] => True
  | c :: cs => AWF c ∧ AWFL cs
end

def clampF (minLen : Option Frac) (e : Frac) : Frac :=
  match minLen with
  | some m => if Frac.lt e m then m else e
  | none => e

theorem newLen_eq (minLen : Option Frac) (errNeg : Bool) (pa a : Frac) :
    newLen minLen errNeg pa a =
      if errNeg && Frac.lt (clampF minLen (pa - a)) Frac.zero then .error .value else .ok (clampF minLen (pa - a)) := by
  cases minLen <;> rfl

theorem newLen_spec {minLen : Option Frac} (hm : ∀ m, minLen = some m → m.WF) (errNeg : Bool) {pa a : Frac}
    (hpa : pa.WF) (ha : a.WF) :
    (errNeg = true ∧ newLenQ (minLen.map Frac.toRat) pa.toRat a.toRat < 0 → newLen minLen errNeg pa a = .error .value) ∧
    (¬ (errNeg = true ∧ newLenQ (minLen.map Frac.toRat) pa.toRat a.toRat < 0) →
      ∃ e, newLen minLen errNeg pa a = .ok e ∧ e.WF ∧ e.toRat = newLenQ (minLen.map Frac.toRat) pa.toRat a.toRat) := by
  have he : (pa - a).toRat = pa.toRat - a.toRat := Frac.sub_toRat hpa ha
  have hwf : (pa - a).WF := Frac.sub_wf _ _
  -- the clamped value
  have hcl : ∃ e : Frac, clampF minLen (pa - a) = e ∧ e.WF ∧ e.toRat = newLenQ (minLen.map Frac.toRat) pa.toRat a.toRat := by
    cases minLen with
    | none => exact ⟨pa - a, rfl, hwf, by simp [newLenQ, he]⟩
    | some m =>
      have hmw := hm m rfl
      by_cases hlt : Frac.lt (pa - a) m = true
      · have := (Frac.lt_iff hwf hmw).mp hlt
        rw [he] at this
        exact ⟨m, by simp [clampF, hlt], hmw, by simp [newLenQ, max_eq_left (le_of_lt this)]⟩
      · have hf : Frac.lt (pa - a) m = false := by simpa using hlt
        have := (Frac.lt_false_iff hwf hmw).mp hf
        rw [he] at this
        exact ⟨pa - a, by simp [clampF, hf], hwf, by simp [newLenQ, he, max_eq_right this]⟩
  obtain ⟨e, hce, hew, heq⟩ := hcl
  have hz : Frac.lt e Frac.zero = true ↔ e.toRat < 0 := by
    rw [Frac.lt_iff hew Frac.zero_wf, Frac.zero_toRat]
  rw [newLen_eq, hce]
  constructor
  · rintro ⟨h1, h2⟩
    have : Frac.lt e Frac.zero = true := hz.mpr (by rw [heq]; exact h2)
    simp [h1, this]
  · intro hno
    refine ⟨e, ?_, hew, heq⟩
    cases hen : errNeg with
    | false => simp
    | true =>
      have : ¬ (e.toRat < 0) := fun h => hno ⟨hen, by rw [← heq]; exact h⟩
      have : Frac.lt e Frac.zero = false := by
        cases hb : Frac.lt e Frac.zero with
        | false => rfl
        | true => exact absurd (hz.mp hb) this
      simp [this]

theorem setLensL_spec {minLen : Option Frac} (hm : ∀ m, minLen = some m → m.WF) (errNeg : Bool) :
    ∀ (cs : List AT) (pa : Frac), pa.WF → AWFL cs →
      ((errNeg = true ∧ ∃ x ∈ specLensL (minLen.map Frac.toRat) pa.toRat cs, x.2 < 0) →
        setLensL minLen errNeg pa cs = .error .value) ∧
      (¬ (errNeg = true ∧ ∃ x ∈ specLensL (minLen.map Frac.toRat) pa.toRat cs, x.2 < 0) →
        ∃ r, setLensL minLen errNeg pa cs = .ok r ∧ atLensL r = specLensL (minLen.map Frac.toRat) pa.toRat cs)
  | [], _, _, _ => ⟨by rintro ⟨_, x, hx, _⟩; simp [specLensL] at hx, fun _ => ⟨[], by simp [setLensL], by simp [atLensL, specLensL]⟩⟩
  | .node i a l cs :: rest, pa, hpa, hw => by
    obtain ⟨⟨haw, hcw⟩, hrw⟩ := hw
    obtain ⟨n1, n2⟩ := newLen_spec hm errNeg hpa haw
    obtain ⟨c1, c2⟩ := setLensL_spec hm errNeg cs a haw hcw
    obtain ⟨r1, r2⟩ := setLensL_spec hm errNeg rest pa hpa hrw
    by_cases hen : errNeg = true
    · by_cases h0 : newLenQ (minLen.map Frac.toRat) pa.toRat a.toRat < 0
      · refine ⟨fun _ => by simp [setLensL, n1 ⟨hen, h0⟩], fun hno => ?_⟩
        exact absurd ⟨hen, (i, newLenQ (minLen.map Frac.toRat) pa.toRat a.toRat), by simp [specLensL], h0⟩ hno
      · obtain ⟨e, he, _, heq⟩ := n2 (fun h => h0 h.2)
        by_cases hc : ∃ x ∈ specLensL (minLen.map Frac.toRat) a.toRat cs, x.2 < 0
        · refine ⟨fun _ => by simp [setLensL, he, c1 ⟨hen, hc⟩], fun hno => ?_⟩
          obtain ⟨x, hx, hx0⟩ := hc
          exact absurd ⟨hen, x, by simp [specLensL, hx], hx0⟩ hno
        · obtain ⟨rc, hrc, hlc⟩ := c2 (fun h => hc h.2)
          by_cases hr : ∃ x ∈ specLensL (minLen.map Frac.toRat) pa.toRat rest, x.2 < 0
          · refine ⟨fun _ => by simp [setLensL, he, hrc, r1 ⟨hen, hr⟩], fun hno => ?_⟩
            obtain ⟨x, hx, hx0⟩ := hr
            exact absurd ⟨hen, x, by simp [specLensL, hx], hx0⟩ hno
          · obtain ⟨rr, hrr, hlr⟩ := r2 (fun h => hr h.2)
            refine ⟨?_, fun _ => ⟨.node i a (some e) rc :: rr, by simp [setLensL, he, hrc, hrr],
              by simp [atLensL, atLens, specLensL, hlc, hlr, qlen, olen, heq]⟩⟩
            rintro ⟨_, x, hx, hx0⟩
            simp only [specLensL, List.mem_cons, List.mem_append] at hx
            rcases hx with rfl | hx | hx
            · exact absurd hx0 h0
            · exact absurd ⟨x, hx, hx0⟩ hc
            · exact absurd ⟨x, hx, hx0⟩ hr
    · obtain ⟨e, he, _, heq⟩ := n2 (fun h => hen h.1)
      obtain ⟨rc, hrc, hlc⟩ := c2 (fun h => hen h.1)
      obtain ⟨rr, hrr, hlr⟩ := r2 (fun h => hen h.1)
      exact ⟨fun h => absurd h.1 hen, fun _ => ⟨.node i a (some e) rc :: rr, by simp [setLensL, he, hrc, hrr],
        by simp [atLensL, atLens, specLensL, hlc, hlr, qlen, olen, heq]⟩⟩

end DendroModel.C17.Aux
