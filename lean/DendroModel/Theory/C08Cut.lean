import DendroModel.Theory.C08Base
import DendroModel.Theory.C08Extract
/-! C08 — `prune_subtree` (`cut` + optional suppression) = the subtree induced by the leaves outside the pruned subtree. -/
namespace DendroModel.C08.Aux
open DendroModel

/-- the leaf predicate of `prune_subtree`: the node is not one of the nodes of the pruned subtree -/
def outside (S : List Nat) : Acc := fun j _ => !S.contains j

mutual
theorem find_none_iff (i : Nat) : ∀ t : T, T.find? i t = none ↔ i ∉ ids t
  | .node j x l s cs => by
      have h := findL_none_iff i cs
      simp only [T.find?, ids, List.mem_cons, not_or]
      by_cases hij : i = j
      · subst hij; simp
      · have : (i == j) = false := by simpa using hij
        simp [this, h, hij]
theorem findL_none_iff (i : Nat) : ∀ cs : List T, T.findL? i cs = none ↔ i ∉ idsL cs
  | [] => by simp [T.findL?, idsL]
  | c :: cs => by
      have h1 := find_none_iff i c
      have h2 := findL_none_iff i cs
      simp only [T.findL?, idsL, List.mem_append, not_or]
      cases hc : T.find? i c with
      | none => rw [hc] at h1; simp [h1.mp rfl, h2]
      | some r =>
        rw [hc] at h1
        have : ¬ i ∉ ids c := fun hn => by simpa using h1.mpr hn
        simp [this]
end

mutual
theorem find_some (i : Nat) : ∀ (t sub : T), T.find? i t = some sub → sub.id = i ∧ ∀ j ∈ ids sub, j ∈ ids t
  | .node j x l s cs, sub, h => by
      simp only [T.find?] at h
      by_cases hij : i = j
      · subst hij; simp at h; subst h; exact ⟨rfl, fun _ hj => hj⟩
      · have : (i == j) = false := by simpa using hij
        simp only [this] at h
        obtain ⟨a, b⟩ := findL_some i cs sub h
        exact ⟨a, fun k hk => by simp [ids, b k hk]⟩
theorem findL_some (i : Nat) : ∀ (cs : List T) (sub : T), T.findL? i cs = some sub → sub.id = i ∧ ∀ j ∈ ids sub, j ∈ idsL cs
  | [], sub, h => by simp [T.findL?] at h
  | c :: cs, sub, h => by
      simp only [T.findL?] at h
      cases hc : T.find? i c with
      | none =>
        rw [hc] at h
        obtain ⟨a, b⟩ := findL_some i cs sub h
        exact ⟨a, fun k hk => by simp [idsL, b k hk]⟩
      | some r =>
        rw [hc] at h; simp at h; subst h
        obtain ⟨a, b⟩ := find_some i c r hc
        exact ⟨a, fun k hk => by simp [idsL, b k hk]⟩
end

theorem id_mem_ids' (t : T) : t.id ∈ ids t := by
  obtain ⟨i, x, l, s, cs⟩ := t; simp [ids, T.id]

mutual
theorem cut_id (i : Nat) : ∀ t : T, i ∉ ids t → cut i t = t
  | .node j x l s cs, h => by
      simp only [ids, List.mem_cons, not_or] at h
      simp [cut, cutL_id i cs h.2]
theorem cutL_id (i : Nat) : ∀ cs : List T, i ∉ idsL cs → cutL i cs = cs
  | [], _ => rfl
  | c :: cs, h => by
      simp only [idsL, List.mem_append, not_or] at h
      have hne : (c.id == i) = false := by
        have : c.id ≠ i := fun e => h.1 (e ▸ id_mem_ids' c)
        simpa using this
      simp [cutL, hne, cut_id i c h.1, cutL_id i cs h.2]
end

mutual
theorem rej_nil (S : List Nat) : ∀ t : T, (∀ j ∈ ids t, j ∉ S) → rejLeaves (outside S) t = []
  | .node i x l s [], h => by
      have := h i (by simp [ids])
      simp [rejLeaves, outside, this]
  | .node i x l s (c :: cs), h => by
      simp only [rejLeaves]
      exact rejL_nil S (c :: cs) (fun j hj => h j (by simp [ids, hj]))
theorem rejL_nil (S : List Nat) : ∀ cs : List T, (∀ j ∈ idsL cs, j ∉ S) → rejLeavesL (outside S) cs = []
  | [], _ => rfl
  | c :: cs, h => by
      simp only [rejLeavesL, rej_nil S c (fun j hj => h j (by simp [idsL, hj])),
        rejL_nil S cs (fun j hj => h j (by simp [idsL, hj])), List.append_nil]
end

theorem restrict_all (S : List Nat) (t : T) (h : ∀ j ∈ ids t, j ∉ S) : restrict (outside S) false t = some t :=
  fix_restrict _ t (rej_nil S t h)
theorem restrictL_all (S : List Nat) (cs : List T) (h : ∀ j ∈ idsL cs, j ∉ S) : restrictL (outside S) false cs = cs :=
  fixL_restrict _ cs (rejL_nil S cs h)

mutual
theorem restrict_gone (S : List Nat) : ∀ t : T, (∀ j ∈ ids t, j ∈ S) → restrict (outside S) false t = none
  | .node i x l s [], h => by
      have := h i (by simp [ids])
      simp [restrict, outside, this]
  | .node i x l s (c :: cs), h => by
      simp [restrict, restrictL_gone S (c :: cs) (fun j hj => h j (by simp [ids, hj]))]
theorem restrictL_gone (S : List Nat) : ∀ cs : List T, (∀ j ∈ idsL cs, j ∈ S) → restrictL (outside S) false cs = []
  | [], _ => rfl
  | c :: cs, h => by
      simp [restrictL, restrict_gone S c (fun j hj => h j (by simp [idsL, hj])),
        restrictL_gone S cs (fun j hj => h j (by simp [idsL, hj]))]
end

/-- what `restrict` makes of a tree whose children list restricts to `ks` (suppression declined) -/
theorem restrict_node_of (keep : Acc) (i x l s) (c : T) (cs ks : List T) (h : restrictL keep false (c :: cs) = ks) :
    restrict keep false (.node i x l s (c :: cs)) = if ks.isEmpty then none else some (.node i x l s ks) := by
  simp only [restrict, h]
  match ks with
  | [] => simp
  | [k] => simp
  | k1 :: k2 :: r => simp

mutual
theorem cut_restrict (i : Nat) : ∀ (t sub : T), (ids t).Nodup → t.id ≠ i → T.find? i t = some sub →
    restrict (outside (ids sub)) false t = if (cut i t).cs.isEmpty then none else some (cut i t)
  | .node j x l s [], sub, _, hne, hf => by
      have hij' : i ≠ j := fun e => hne e.symm
      have : (i == j) = false := by simpa using hij'
      simp [T.find?, this, T.findL?] at hf
  | .node j x l s (c :: cs), sub, hnd, hne, hf => by
      have hij' : i ≠ j := fun e => hne e.symm
      have hij : (i == j) = false := by simpa using hij'
      simp only [T.find?, hij] at hf
      simp only [ids, List.nodup_cons] at hnd
      have hl := cutL_restrict i (c :: cs) sub hnd.2 hf
      rw [restrict_node_of _ j x l s c cs _ hl]
      simp [cut, T.cs]
theorem cutL_restrict (i : Nat) : ∀ (cs : List T) (sub : T), (idsL cs).Nodup → T.findL? i cs = some sub →
    restrictL (outside (ids sub)) false cs = cutL i cs
  | [], sub, _, hf => by simp [T.findL?] at hf
  | c :: cs, sub, hnd, hf => by
      simp only [idsL] at hnd
      have hdis := List.nodup_append.mp hnd
      simp only [T.findL?] at hf
      cases hc : T.find? i c with
      | some r =>
        rw [hc] at hf; simp at hf; subst hf
        obtain ⟨hid, hsub⟩ := find_some i c r hc
        -- the rest of the list is untouched by both
        have hrest : ∀ j ∈ idsL cs, j ∉ ids r := fun j hj hjr => hdis.2.2 j (hsub j hjr) j hj rfl
        have hi_rest : i ∉ idsL cs := fun h => hdis.2.2 i (hsub i (hid ▸ id_mem_ids' r)) i h rfl
        have e2 := restrictL_all (ids r) cs hrest
        have e3 := cutL_id i cs hi_rest
        by_cases hci : c.id = i
        · -- `c` itself is the pruned subtree
          have hcr : r = c := by
            obtain ⟨j, x, l, s, ds⟩ := c
            simp only [T.id] at hci; subst hci
            simp [T.find?] at hc; exact hc.symm
          subst hcr
          have e1 := restrict_gone (ids r) r (fun _ h => h)
          have : (r.id == i) = true := by simpa using hci
          simp [restrictL, e1, e2, cutL, this]
        · have e1 := cut_restrict i c r hdis.1 hci hc
          have hcs : c.cs.isEmpty = false := by
            obtain ⟨j, x, l, s, ds⟩ := c
            cases ds with
            | nil =>
              have hij' : i ≠ j := fun e => hci e.symm
              have : (i == j) = false := by simpa using hij'
              simp [T.find?, this, T.findL?] at hc
            | cons d ds => rfl
          have : (c.id == i) = false := by simpa using hci
          simp only [restrictL, e1, e2, cutL, this, e3, hcs]
          by_cases hem : (cut i c).cs.isEmpty = true
          · simp [hem]
          · simp [hem]
      | none =>
        rw [hc] at hf
        simp only at hf
        obtain ⟨hid, hsub⟩ := findL_some i cs sub hf
        have hic : i ∉ ids c := (find_none_iff i c).mp hc
        have hcdis : ∀ j ∈ ids c, j ∉ ids sub := fun j hj hjs => hdis.2.2 j hj j (hsub j hjs) rfl
        have e1 := restrict_all (ids sub) c hcdis
        have e2 := cutL_restrict i cs sub hdis.2.1 hf
        have hci : (c.id == i) = false := by
          have : c.id ≠ i := fun e => hic (e ▸ id_mem_ids' c)
          simpa using this
        simp [restrictL, e1, e2, cutL, hci, cut_id i c hic]
end

mutual
theorem find_sublist (i : Nat) : ∀ (t sub : T), T.find? i t = some sub → (ids sub).Sublist (ids t)
  | .node j x l s cs, sub, h => by
      simp only [T.find?] at h
      by_cases hij : i = j
      · subst hij; simp at h; subst h; exact List.Sublist.refl _
      · have : (i == j) = false := by simpa using hij
        simp only [this] at h
        simp only [ids]
        exact List.Sublist.cons _ (findL_sublist i cs sub h)
theorem findL_sublist (i : Nat) : ∀ (cs : List T) (sub : T), T.findL? i cs = some sub → (ids sub).Sublist (idsL cs)
  | [], sub, h => by simp [T.findL?] at h
  | c :: cs, sub, h => by
      simp only [T.findL?] at h
      simp only [idsL]
      cases hc : T.find? i c with
      | none =>
        rw [hc] at h
        exact (findL_sublist i cs sub h).trans (List.sublist_append_right _ _)
      | some r =>
        rw [hc] at h; simp at h; subst h
        exact (find_sublist i c r hc).trans (List.sublist_append_left _ _)
end

theorem extractNode_eq (acc : Acc) (fl sup : Bool) (t sub : T) (i : Nat) (hnd : (ids t).Nodup) (hne : i ≠ t.id)
    (hf : T.find? i t = some sub) :
    (extractNode acc fl false sup t i).toOption = restrict (leafKeep fl acc) sup sub := by
  have hs : (ids sub).Nodup := List.Sublist.nodup (find_sublist i t sub hf) hnd
  have := extract_eq acc fl sup sub hs
  have hb : (i == t.id) = false := by simpa using hne
  simp only [extractNode, hb, hf]
  rw [← this]
  cases extractTree acc fl false sup sub <;> simp [ExRes.toOption]

end DendroModel.C08.Aux
