import DendroModel.Model.C13
import DendroModel.Theory.C13Sim
/-! C13 — the reader front end is parametric in the tree-list factory (`Hom`), and the yielder's copies of the loops equal the
    reader's loops at the one-list factory (helper lemmas of `Props/C13.lean`, moved here unchanged). -/
namespace DendroModel.C13.Aux
open DendroModel.C13

/-- `h` maps what one tree-list factory builds to what another one builds from the same sequence of calls -/
structure Hom {σ τ} (S : Sink σ) (T : Sink τ) (h : σ → τ) : Prop where
  newList : ∀ a, h (S.newList a) = T.newList (h a)
  addTree : ∀ a t, h (S.addTree a t) = T.addTree (h a) t

theorem flatten_hom : Hom freshSink pseudoSink (fun bs : List (List Tree) => bs.flatten) := by
  constructor
  · intro a; simp [freshSink, pseudoSink]
  · intro a t
    simp only [freshSink, pseudoSink]
    cases hr : a.reverse with
    | nil =>
      have : a = [] := by simpa using hr
      subst this; simp
    | cons b r =>
      have ha : a = r.reverse ++ [b] := by
        have := congrArg List.reverse hr
        simpa using this
      subst ha
      simp

theorem prefix_hom (l : List Tree) : Hom pseudoSink pseudoSink (fun x => l ++ x) := by
  constructor
  · intro a; rfl
  · intro a t; simp [pseudoSink]

/-! ### NEWICK -/

theorem newickIter_hom {σ τ} (cfg : Cfg) (fl : Flags) (S : Sink σ) (T : Sink τ) (h : σ → τ) (hh : Hom S T h) :
    ∀ (n : Nat) (ts : TS) (ns : List String) (mp : Mapper) (acc : σ), ts.rest.length = n →
      newickIter cfg T ts ns mp (h acc) = (newickIter cfg S ts ns mp acc).map (fun r => (h r.1, r.2)) := by
  intro n
  induction n using Nat.strongRecOn with
  | _ n ih =>
    intro ts ns mp acc hn
    rw [newickIter.eq_def cfg T, newickIter.eq_def cfg S]
    cases hst : newickStmt cfg ts ns mp with
    | error e => simp [Except.map]
    | ok r =>
      obtain ⟨ot, ts', ns', mp'⟩ := r
      cases ot with
      | none => simp [Except.map]
      | some t =>
        simp only []
        by_cases hp : ts'.rest.length < ts.rest.length
        · simp only [hp, dite_true]
          rw [← hh.addTree]
          exact ih _ (hn ▸ hp) ts' ns' mp' _ rfl
        · simp [hp, Except.map]

theorem newickRead_hom {σ τ} (cfg : Cfg) (fl : Flags) (S : Sink σ) (T : Sink τ) (h : σ → τ) (hh : Hom S T h)
    (ts : TS) (ns : List String) (acc : σ) :
    newickRead cfg T ts ns (h acc) = (newickRead cfg S ts ns acc).map (fun r => (h r.1, r.2)) := by
  unfold newickRead
  rw [← hh.newList]
  exact newickIter_hom cfg fl S T h hh _ ts ns _ _ rfl

theorem newickYieldLoop_eq (cfg : Cfg) (fl : Flags) :
    ∀ (n : Nat) (ts : TS) (ns : List String) (mp : Mapper) (out : List Tree), ts.rest.length = n →
      newickYieldLoop cfg ts ns mp out = newickIter cfg pseudoSink ts ns mp out := by
  intro n
  induction n using Nat.strongRecOn with
  | _ n ih =>
    intro ts ns mp out hn
    rw [newickYieldLoop.eq_def, newickIter.eq_def]
    cases hst : newickStmt cfg ts ns mp with
    | error e => rfl
    | ok r =>
      obtain ⟨ot, ts', ns', mp'⟩ := r
      cases ot with
      | none => rfl
      | some t =>
        simp only []
        by_cases hp : ts'.rest.length < ts.rest.length
        · simp only [hp, dite_true]
          exact ih _ (hn ▸ hp) ts' ns' mp' _ rfl
        · simp [hp]

/-! ### NEXUS: runs of TREE statements -/

theorem treeRunR_hom {σ τ} (cfg : Cfg) (fl : Flags) (S : Sink σ) (T : Sink τ) (h : σ → τ) (hh : Hom S T h) :
    ∀ (n : Nat) (c : Doc) (mp : Mapper) (acc : σ), c.ts.rest.length = n →
      treeRunR cfg T c mp (h acc) = (treeRunR cfg S c mp acc).map (fun r => (r.1, r.2.1, h r.2.2.1, r.2.2.2)) := by
  intro n
  induction n using Nat.strongRecOn with
  | _ n ih =>
    intro c mp acc hn
    rw [treeRunR.eq_def cfg T, treeRunR.eq_def cfg S]
    cases hst : nexusTreeStmt cfg c mp with
    | error e => simp [Except.map]
    | ok r =>
      obtain ⟨t, c1, mp1⟩ := r
      simp only []
      rw [← hh.addTree]
      split
      · simp [Except.map]
      · split
        · simp [Except.map]
        · split
          · rename_i hp
            exact ih _ (hn ▸ hp) _ _ _ rfl
          · simp [Except.map]

theorem treeRunY_eq (cfg : Cfg) (fl : Flags) :
    ∀ (n : Nat) (c : Doc) (mp : Mapper) (out : List Tree), c.ts.rest.length = n →
      treeRunY cfg c mp out = treeRunR cfg pseudoSink c mp out := by
  intro n
  induction n using Nat.strongRecOn with
  | _ n ih =>
    intro c mp out hn
    rw [treeRunY.eq_def, treeRunR.eq_def]
    cases hst : nexusTreeStmt cfg c mp with
    | error e => rfl
    | ok r =>
      obtain ⟨t, c1, mp1⟩ := r
      simp only [pseudoSink]
      split
      · rfl
      · split
        · rfl
        · split
          · rename_i hp
            exact ih _ (hn ▸ hp) _ _ _ rfl
          · rfl

/-! ### NEXUS: TREES block -/

theorem treesStepR_hom {σ τ} (cfg : Cfg) (fl : Flags) (S : Sink σ) (T : Sink τ) (h : σ → τ) (hh : Hom S T h)
    (c : Core) (v : BlockVars) (acc : σ) :
    treesStepR cfg fl T c v (h acc) = (treesStepR cfg fl S c v acc).map (fun r => (r.1, r.2.1, h r.2.2)) := by
  unfold treesStepR
  simp only []
  split
  · cases parseLink c.ts.nextU with
    | error e => simp [Except.map]
    | ok r => simp [Except.map]
  · split
    · cases parseTitle c.ts.nextU with
      | error e => simp [Except.map]
      | ok r => simp [Except.map]
    · split
      · cases (if v.haveNs = true then Except.ok { c with ts := c.ts.nextU } else getNamespace fl { c with ts := c.ts.nextU } v.link) with
        | error e => simp [Except.map]
        | ok c2 =>
          simp only []
          cases parseTranslate c2 v.mapper with
          | error e => simp [Except.map]
          | ok r => simp [Except.map]
      · split
        · cases (if v.haveNs = true then Except.ok { c with ts := c.ts.nextU } else getNamespace fl { c with ts := c.ts.nextU } v.link) with
          | error e => simp [Except.map]
          | ok c2 =>
            simp only []
            have key : (if v.haveList = true then h acc else T.newList (h acc)) = h (if v.haveList = true then acc else S.newList acc) := by
              split
              · rfl
              · exact (hh.newList acc).symm
            rw [key, treeRunR_hom cfg fl S T h hh _ _ _ _ rfl]
            cases treeRunR cfg S { ts := c2.ts.clear, ns := c2.ns } (mapperOr v.mapper c2.ns)
                (if v.haveList = true then acc else S.newList acc) with
            | error e => simp [Except.map]
            | ok r => simp [Except.map]
        · split
          · simp [Except.map]
          · simp [Except.map]

theorem treesStepY_eq (cfg : Cfg) (fl : Flags) (c : Core) (v : BlockVars) (out : List Tree) :
    treesStepY cfg fl c v out = treesStepR cfg fl pseudoSink c v out := by
  unfold treesStepY treesStepR
  simp only []
  split
  · rfl
  · split
    · rfl
    · split
      · rfl
      · split
        · cases (if v.haveNs = true then Except.ok { c with ts := c.ts.nextU } else getNamespace fl { c with ts := c.ts.nextU } v.link) with
          | error e => rfl
          | ok c2 =>
            simp only []
            have key : (if v.haveList = true then out else pseudoSink.newList out) = out := by
              split <;> rfl
            rw [key, treeRunY_eq cfg fl _ _ _ _ rfl]
            generalize treeRunR cfg pseudoSink _ _ out = x
            cases x <;> rfl
        · rfl

theorem treesLoopR_hom {σ τ} (cfg : Cfg) (fl : Flags) (S : Sink σ) (T : Sink τ) (h : σ → τ) (hh : Hom S T h) :
    ∀ (n : Nat) (c : Core) (v : BlockVars) (acc : σ), c.ts.rest.length = n →
      treesLoopR cfg fl T c v (h acc) = (treesLoopR cfg fl S c v acc).map (fun r => (r.1, h r.2)) := by
  intro n
  induction n using Nat.strongRecOn with
  | _ n ih =>
    intro c v acc hn
    rw [treesLoopR.eq_def cfg fl T, treesLoopR.eq_def cfg fl S]
    split
    · simp [Except.map]
    · rw [treesStepR_hom cfg fl S T h hh]
      cases treesStepR cfg fl S c v acc with
      | error e => simp [Except.map]
      | ok r =>
        obtain ⟨c5, v5, acc5⟩ := r
        simp only [Except.map]
        split
        · rename_i hp
          exact ih _ (hn ▸ hp) _ _ _ rfl
        · split <;> simp [Except.map]

theorem treesLoopY_eq (cfg : Cfg) (fl : Flags) :
    ∀ (n : Nat) (c : Core) (v : BlockVars) (out : List Tree), c.ts.rest.length = n →
      treesLoopY cfg fl c v out = treesLoopR cfg fl pseudoSink c v out := by
  intro n
  induction n using Nat.strongRecOn with
  | _ n ih =>
    intro c v out hn
    rw [treesLoopY.eq_def, treesLoopR.eq_def]
    split
    · rfl
    · rw [treesStepY_eq]
      cases treesStepR cfg fl pseudoSink c v out with
      | error e => rfl
      | ok r =>
        obtain ⟨c5, v5, out5⟩ := r
        simp only []
        split
        · rename_i hp
          exact ih _ (hn ▸ hp) _ _ _ rfl
        · rfl

theorem treesBlockR_hom {σ τ} (cfg : Cfg) (fl : Flags) (S : Sink σ) (T : Sink τ) (h : σ → τ) (hh : Hom S T h)
    (c : Core) (acc : σ) :
    treesBlockR cfg fl T c (h acc) = (treesBlockR cfg fl S c acc).map (fun r => (r.1, h r.2)) := by
  unfold treesBlockR
  simp only []
  split
  · simp [Except.map]
  · exact treesLoopR_hom cfg fl S T h hh _ _ _ _ rfl

theorem treesBlockY_eq (cfg : Cfg) (fl : Flags) (c : Core) (out : List Tree) :
    treesBlockY cfg fl c out = treesBlockR cfg fl pseudoSink c out := by
  unfold treesBlockY treesBlockR
  simp only []
  split
  · rfl
  · exact treesLoopY_eq cfg fl _ _ _ _ rfl

/-! ### NEXUS: the block loop of the stream -/

theorem streamStepR_hom {σ τ} (cfg : Cfg) (fl : Flags) (S : Sink σ) (T : Sink τ) (h : σ → τ) (hh : Hom S T h)
    (c : Core) (acc : σ) :
    streamStepR cfg fl T c (h acc) = (streamStepR cfg fl S c acc).map (fun r => (r.1, h r.2)) := by
  unfold streamStepR
  simp only []
  split
  · cases parseTaxaBlock fl { c with ts := (seekBegin c.ts.nextU).clear.nextU } with
    | error e => simp [Except.map]
    | ok r => simp [Except.map]
  · split
    · split <;> simp [Except.map]
    · split
      · exact treesBlockR_hom cfg fl S T h hh _ _
      · split
        · split <;> simp [Except.map]
        · split <;> simp [Except.map]

theorem streamStepY_eq (cfg : Cfg) (fl : Flags) (hx : fl.excludeChars = true) (c : Core) (out : List Tree)
    (hs : isSetsKw (dispatchTok c) = false) :
    streamStepY cfg fl c out = streamStepR cfg fl pseudoSink c out := by
  unfold streamStepY streamStepR
  unfold dispatchTok at hs
  simp only [hx]
  generalize hcur : ((seekBegin c.ts.nextU).clear.nextU).cur = cur at *
  by_cases hT : cur = some "TAXA"
  · subst hT; simp
  by_cases hR : cur = some "TREES"
  · subst hR; simp; exact treesBlockY_eq cfg fl _ _
  by_cases hB : cur = some "BEGIN"
  · subst hB; simp [isSetsKw]
  · simp only [beq_iff_eq, hT, hR, hB, hs, if_false, Bool.false_eq_true]
    split <;> rfl

theorem streamLoopR_hom {σ τ} (cfg : Cfg) (fl : Flags) (S : Sink σ) (T : Sink τ) (h : σ → τ) (hh : Hom S T h) :
    ∀ (n : Nat) (c : Core) (acc : σ), c.ts.rest.length = n →
      streamLoopR cfg fl T c (h acc) = (streamLoopR cfg fl S c acc).map (fun r => (r.1, h r.2)) := by
  intro n
  induction n using Nat.strongRecOn with
  | _ n ih =>
    intro c acc hn
    rw [streamLoopR.eq_def cfg fl T, streamLoopR.eq_def cfg fl S]
    split
    · simp [Except.map]
    · rw [streamStepR_hom cfg fl S T h hh]
      cases streamStepR cfg fl S c acc with
      | error e => simp [Except.map]
      | ok r =>
        obtain ⟨c3, acc3⟩ := r
        simp only [Except.map]
        split
        · rename_i hp
          exact ih _ (hn ▸ hp) _ _ rfl
        · split <;> simp [Except.map]

theorem streamLoopY_eq (cfg : Cfg) (fl : Flags) (hx : fl.excludeChars = true) :
    ∀ (n : Nat) (c : Core) (out : List Tree), c.ts.rest.length = n → noSetsBlocks cfg fl pseudoSink c out = true →
      streamLoopY cfg fl c out = streamLoopR cfg fl pseudoSink c out := by
  intro n
  induction n using Nat.strongRecOn with
  | _ n ih =>
    intro c out hn hs
    rw [streamLoopY.eq_def, streamLoopR.eq_def]
    rw [noSetsBlocks.eq_def] at hs
    split
    · rfl
    · rename_i heof
      simp only [heof, Bool.false_eq_true, if_false] at hs
      by_cases hk : isSetsKw (dispatchTok c) = true
      · simp [hk] at hs
      · have hk' : isSetsKw (dispatchTok c) = false := by simpa using hk
        simp only [hk', Bool.false_eq_true, if_false] at hs
        rw [streamStepY_eq cfg fl hx c out hk']
        cases hst : streamStepR cfg fl pseudoSink c out with
        | error e => rfl
        | ok r =>
          obtain ⟨c3, out3⟩ := r
          simp only [hst] at hs
          simp only []
          split
          · rename_i hp
            simp only [hp, dite_true] at hs
            exact ih _ (hn ▸ hp) _ _ rfl hs
          · rfl

theorem nexusRead_hom {σ τ} (cfg : Cfg) (fl : Flags) (S : Sink σ) (T : Sink τ) (h : σ → τ) (hh : Hom S T h) (c : Core) (acc : σ) :
    nexusRead cfg fl T c (h acc) = (nexusRead cfg fl S c acc).map (fun r => (r.1, h r.2)) := by
  unfold nexusRead
  simp only []
  split
  · simp [Except.map]
  · exact streamLoopR_hom cfg fl S T h hh _ _ _ rfl

theorem readWith_hom {σ τ} (sch : Schema) (cfg : Cfg) (fl : Flags) (S : Sink σ) (T : Sink τ) (h : σ → τ) (hh : Hom S T h)
    (toks : List Tok) (tail : List String) (ns : NSObj) (acc : σ) :
    readWith sch cfg fl T toks tail ns (h acc) = (readWith sch cfg fl S toks tail ns acc).map (fun r => (h r.1, r.2)) := by
  cases sch with
  | newick =>
    simp only [readWith]
    rw [newickRead_hom cfg fl S T h hh]
    cases newickRead cfg S { rest := toks, tail := tail } ns.labels acc <;> simp [Except.map]
  | nexus =>
    simp only [readWith]
    rw [nexusRead_hom cfg fl S T h hh]
    cases nexusRead cfg fl S (coreOf toks tail ns) acc <;> simp [Except.map]

theorem dispatchTok_setReg (c : Core) (k l) : dispatchTok (setReg c k l) = dispatchTok c := rfl

/-- on a run that the non-attached reader completes, "no SETS-class block is dispatched" carries over to the attached run -/
theorem noSets_att {σ} (cfg : Cfg) (fl : Flags) (S : Sink σ) : ∀ (n : Nat) (c : Core) (acc : σ) (r),
    c.ts.rest.length = n → streamLoopR cfg fl S c acc = .ok r → noSetsBlocks cfg fl S c acc = true →
    ∀ k l, noSetsBlocks cfg (att fl) S (setReg c k l) acc = true := by
  intro n
  induction n using Nat.strongRecOn with
  | _ n ih =>
    intro c acc r hn h hs k l
    rw [streamLoopR.eq_def] at h
    rw [noSetsBlocks.eq_def] at hs ⊢
    by_cases hc : c.ts.eof = true
    · rw [if_pos (show (setReg c k l).ts.eof = true from hc)]
    · rw [if_neg hc] at h hs
      rw [if_neg (show ¬ (setReg c k l).ts.eof = true from hc), dispatchTok_setReg]
      by_cases hk : isSetsKw (dispatchTok c) = true
      · simp [hk] at hs
      · rw [if_neg hk] at hs ⊢
        cases hst : streamStepR cfg fl S c acc with
        | error e => simp [hst] at h
        | ok x =>
          obtain ⟨c3, acc3⟩ := x
          rw [streamStepR_att cfg fl S c acc _ hst k l]
          simp only [hst] at h hs
          simp only []
          by_cases hp : c3.ts.rest.length < c.ts.rest.length
          · rw [dif_pos hp] at h hs
            rw [dif_pos (show (setReg c3 k l).ts.rest.length < (setReg c k l).ts.rest.length from hp)]
            exact ih _ (hn ▸ hp) c3 acc3 r rfl h hs k l
          · rw [dif_neg (show ¬ (setReg c3 k l).ts.rest.length < (setReg c k l).ts.rest.length from hp)]

theorem pyIdx_neg {α} (l : List α) (c : Nat) (hc : c < l.length) :
    pyIdx l (-(c : Int) - 1) = l[l.length - 1 - c]? := by
  unfold pyIdx
  have n1 : ¬ (0 ≤ -(c : Int) - 1) := by omega
  have p1 : 0 ≤ (l.length : Int) + (-(c : Int) - 1) := by omega
  have e1 : ((l.length : Int) + (-(c : Int) - 1)).toNat = l.length - 1 - c := by omega
  rw [if_neg n1, if_pos p1, e1]

end DendroModel.C13.Aux
