import DendroModel.Model.Hier
import Mathlib.Data.Set.Basic
import Mathlib.Data.Set.Lattice
import Mathlib.Data.Nat.Bitwise
import Mathlib.Tactic

/-! Prototype: hierarchy theory on mask-labelled rose trees -/
namespace DendroModel.Hier

/-- bit set denoted by a mask -/
def bits (m : Nat) : Set Nat := {i | m.testBit i = true}

@[simp] theorem bits_or (a b : Nat) : bits (a ||| b) = bits a ∪ bits b := by
  ext i; simp [bits, Nat.testBit_or]
@[simp] theorem bits_and (a b : Nat) : bits (a &&& b) = bits a ∩ bits b := by
  ext i; simp [bits, Nat.testBit_and]
@[simp] theorem bits_zero : bits 0 = ∅ := by
  ext i; simp [bits]
theorem bits_inj {a b : Nat} (h : bits a = bits b) : a = b := by
  apply Nat.eq_of_testBit_eq
  intro i
  have : (i ∈ bits a) ↔ (i ∈ bits b) := by rw [h]
  simp [bits] at this
  cases ha : a.testBit i <;> cases hb : b.testBit i <;> simp_all
@[simp] theorem bits_shift (i : Nat) : bits (1 <<< i) = {i} := by
  ext j; simp [bits, Nat.testBit_shiftLeft]
  constructor
  · intro ⟨h1, h2⟩
    by_contra hne
    have : j - i ≠ 0 := by omega
    rcases Nat.exists_eq_succ_of_ne_zero this with ⟨k, hk⟩
    rw [hk] at h2; simp [Nat.testBit_succ] at h2
  · intro h; subst h; simp

theorem and_eq_zero_iff (a b : Nat) : a &&& b = 0 ↔ Disjoint (bits a) (bits b) := by
  constructor
  · intro h; rw [Set.disjoint_iff_inter_eq_empty, ← bits_and, h, bits_zero]
  · intro h; apply bits_inj; rw [bits_and, bits_zero]; exact Set.disjoint_iff_inter_eq_empty.mp h

theorem and_eq_left_iff (a b : Nat) : a &&& b = a ↔ bits a ⊆ bits b := by
  constructor
  · intro h; rw [← h, bits_and]; exact Set.inter_subset_right
  · intro h; apply bits_inj; rw [bits_and]; exact Set.inter_eq_left.mpr h

end DendroModel.Hier
