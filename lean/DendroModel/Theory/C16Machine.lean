import DendroModel.Theory.C16Fitch
/-! C16 theory, part 3: the post-order machine with its node-attribute store (`runNodes`) computes, on a bifurcating
tree whose nodes are distinct objects, the plain recursion `accB` — whatever attributes the nodes carried before. -/
namespace DendroModel.C16

abbrev BV := Bt Row

/-- `View m t bv`: `t` is fully bifurcating, every leaf carries a taxon that has a row in `m`, and `bv` is the
    tree of those rows -/
inductive View (m : Matrix) : T → BV → Prop
  | leaf {i : Nat} {x : Option Nat} {l : Option Frac} {s : Option String} {row : Row} :
      lookupRow m x = some row → View m (.node i x l s []) (.leaf row)
  | node {i : Nat} {x : Option Nat} {l : Option Frac} {s : Option String} {a b : T} {ba bb : BV} :
      View m a ba → View m b bb → View m (.node i x l s [a, b]) (.node ba bb)

/-- node identities, pre-order -/
def ids (t : T) : List Nat := t.nodes.map T.id

/-- the down pass as a plain recursion threading the two accumulators (score, per-character list) -/
def accB (ws : List Nat) : BV → Nat → List Nat → Row × Nat × List Nat
  | .leaf row, sc, bc => (row, sc, bc)
  | .node l r, sc, bc =>
    ((pairLoop ws (accB ws l sc bc).1 (accB ws r (accB ws l sc bc).2.1 (accB ws l sc bc).2.2).1).1,
     (accB ws r (accB ws l sc bc).2.1 (accB ws l sc bc).2.2).2.1
       + sumL (pairLoop ws (accB ws l sc bc).1 (accB ws r (accB ws l sc bc).2.1 (accB ws l sc bc).2.2).1).2,
     addL (accB ws r (accB ws l sc bc).2.1 (accB ws l sc bc).2.2).2.2
       (pairLoop ws (accB ws l sc bc).1 (accB ws r (accB ws l sc bc).2.1 (accB ws l sc bc).2.2).1).2)

namespace Aux

theorem id_node (i : Nat) (x : Option Nat) (l : Option Frac) (s : Option String) (cs : List T) :
    (T.node i x l s cs).id = i := rfl

theorem id_mem_ids (t : T) : t.id ∈ ids t := by
  cases t; simp [ids, T.nodes, T.id]

theorem ids_leaf (i : Nat) (x : Option Nat) (l : Option Frac) (s : Option String) :
    ids (.node i x l s []) = [i] := by simp [ids, T.nodes, T.nodesL, T.id]

theorem ids_node2 (i : Nat) (x : Option Nat) (l : Option Frac) (s : Option String) (a b : T) :
    ids (.node i x l s [a, b]) = i :: (ids a ++ ids b) := by
  simp [ids, T.nodes, T.nodesL, T.id]

theorem getAttr_cons_self (i : Nat) (r : Row) (at_ : Attrs) : getAttr ((i, r) :: at_) i = some r := by
  simp [getAttr]

theorem getAttr_cons_ne {i j : Nat} (h : j ≠ i) (r : Row) (at_ : Attrs) :
    getAttr ((i, r) :: at_) j = getAttr at_ j := by
  have : (i == j) = false := by simp; exact fun e => h e.symm
  simp [getAttr, this]

theorem runNodes_append (m : Matrix) (ws : List Nat) : ∀ (l₁ : List T) (st : St) (l₂ : List T),
    runNodes m ws st (l₁ ++ l₂) =
      match runNodes m ws st l₁ with
      | .error e => .error e
      | .ok st' => runNodes m ws st' l₂
  | [], st, l₂ => by simp [runNodes]
  | nd :: l₁, st, l₂ => by
    simp only [List.cons_append, runNodes]
    cases stepNode m ws st nd with
    | error e => rfl
    | ok st' => exact runNodes_append m ws l₁ st' l₂

/-- the machine on the post-order of a viewed tree, started with arbitrary attributes and accumulators -/
theorem run_post {m : Matrix} {ws : List Nat} {t : T} {bv : BV} (hv : View m t bv) :
    (ids t).Nodup → ∀ st : St, ∃ st' : St,
      runNodes m ws st (post t) = .ok st' ∧
      getAttr st'.attrs t.id = some (accB ws bv st.score st.bychar).1 ∧
      st'.score = (accB ws bv st.score st.bychar).2.1 ∧
      st'.bychar = (accB ws bv st.score st.bychar).2.2 ∧
      (∀ j, j ∉ ids t → getAttr st'.attrs j = getAttr st.attrs j) := by
  induction hv with
  | @leaf i x l s row h =>
    intro _ st
    refine ⟨{ st with attrs := (i, row) :: st.attrs }, ?_, ?_, rfl, rfl, ?_⟩
    · simp [post, postL, runNodes, stepNode, T.cs, T.taxon, T.id, h]
    · simp [T.id, getAttr_cons_self, accB]
    · intro j hj
      rw [ids_leaf] at hj
      exact getAttr_cons_ne (by simpa using hj) _ _
  | @node i x l s a b ba bb hva hvb iha ihb =>
    intro hnd st
    rw [ids_node2] at hnd
    have ⟨hi, hab⟩ := List.nodup_cons.mp hnd
    have ⟨hna, hnb, hdisj⟩ := List.nodup_append.mp hab
    obtain ⟨st1, r1, g1, s1, b1, f1⟩ := iha hna st
    obtain ⟨st2, r2, g2, s2, b2, f2⟩ := ihb hnb st1
    have ha_nb : a.id ∉ ids b := fun h => hdisj _ (id_mem_ids a) _ h rfl
    have g1' : getAttr st2.attrs a.id = some (accB ws ba st.score st.bychar).1 := by
      rw [f2 _ ha_nb]; exact g1
    rw [s1, b1] at g2 s2 b2
    refine ⟨{ attrs := (i, (accB ws (.node ba bb) st.score st.bychar).1) :: st2.attrs,
              score := (accB ws (.node ba bb) st.score st.bychar).2.1,
              bychar := (accB ws (.node ba bb) st.score st.bychar).2.2 }, ?_, ?_, rfl, rfl, ?_⟩
    · have hp : post (.node i x l s [a, b]) = post a ++ (post b ++ [.node i x l s [a, b]]) := by
        simp [post, postL]
      rw [hp, runNodes_append, r1]
      simp only
      rw [runNodes_append, r2]
      simp only [runNodes, stepNode, T.cs, id_node, g1', foldKids, g2, s2, b2, accB]
    · simp [T.id, getAttr_cons_self]
    · intro j hj
      rw [ids_node2] at hj
      simp only [List.mem_cons, List.mem_append, not_or] at hj
      rw [getAttr_cons_ne hj.1, f2 j hj.2.2, f1 j hj.2.1]

end Aux
end DendroModel.C16
