import DendroModel.Theory.C16Fitch
/-! C16 theory, part 3: the post-order machine with its node-attribute store (`runNodes`) computes, on a bifurcating
tree whose nodes are distinct objects, the plain recursion `accB` — whatever attributes the nodes carried before. -/
namespace DendroModel.C16

abbrev BV := Bt Row

/-- `View m t bv`: `t` is fully bifurcating, every leaf carries a taxon that has a row in `m`, and `bv` is the
    tree of those rows -/
inductive View (m : Matrix) : T → BV → Prop
  | leaf {i : Nat} {x : Option Nat} {l : Option Frac} {s : Option String} {row : Row} :
      lookupRow m x = some row → View m (.node i x l s []) (.leaf row)
  | node {i : Nat} {x : Option Nat} {l : Option Frac} {s : Option String} {a b : T} {ba bb : BV} :
      View m a ba → View m b bb → View m (.node i x l s [a, b]) (.node ba bb)

/-- node identities, pre-order -/
def ids (t : T) : List Nat := t.nodes.map T.id

/-- the down pass as a plain recursion threading the two accumulators (score, per-character list) -/
def accB (ws : List Nat) : BV → Nat → List Nat → Row × Nat × List Nat
  | .leaf row, sc, bc => (row, sc, bc)
  | .node l r, sc, bc =>
    ((pairLoop ws (accB ws l sc bc).1 (accB ws r (accB ws l sc bc).2.1 (accB ws l sc bc).2.2).1).1,
     (accB ws r (accB ws l sc bc).2.1 (accB ws l sc bc).2.2).2.1
       + sumL (pairLoop ws (accB ws l sc bc).1 (accB ws r (accB ws l sc bc).2.1 (accB ws l sc bc).2.2).1).2,
     addL (accB ws r (accB ws l sc bc).2.1 (accB ws l sc bc).2.2).2.2
       (pairLoop ws (accB ws l sc bc).1 (accB ws r (accB ws l sc bc).2.1 (accB ws l sc bc).2.2).1).2)

/-- identities of a list of subtrees -/
def idsL (cs : List T) : List Nat := (T.nodesL cs).map T.id

/-- the `while True:` loop of one node on the children's lists of sets (`foldKids` without the attribute store) -/
def foldRows (ws : List Nat) : Row → List Row → Nat → List Nat → Except Err (Row × Nat × List Nat)
  | left, [], sc, bc => .ok (left, sc, bc)
  | left, right :: rest, sc, bc =>
    if shortHit ws left right then .error .indexError else
    foldRows ws (pairLoop ws left right).1 rest (sc + sumL (pairLoop ws left right).2) (addL bc (pairLoop ws left right).2)

/-- one node, given the lists of sets of its children -/
def nodeStep (m : Matrix) (ws : List Nat) (x : Option Nat) : List Row → Nat → List Nat → Except Err (Row × Nat × List Nat)
  | [], sc, bc =>
    match lookupRow m x with
    | none => .error .keyError
    | some row => .ok (row, sc, bc)
  | [_], _, _ => .error .valueError
  | r0 :: r1 :: rest, sc, bc => foldRows ws r0 (r1 :: rest) sc bc

mutual
/-- the down pass of ANY tree as a plain recursion without attribute store: children left to right (the first error in
    post-order wins), then the node itself -/
def accT (m : Matrix) (ws : List Nat) : T → Nat → List Nat → Except Err (Row × Nat × List Nat)
  | .node _ x _ _ cs, sc, bc =>
    match accTL m ws cs sc bc with
    | .error e => .error e
    | .ok (rows, sc', bc') => nodeStep m ws x rows sc' bc'
def accTL (m : Matrix) (ws : List Nat) : List T → Nat → List Nat → Except Err (List Row × Nat × List Nat)
  | [], sc, bc => .ok ([], sc, bc)
  | c :: cs, sc, bc =>
    match accT m ws c sc bc with
    | .error e => .error e
    | .ok (r, sc1, bc1) =>
      match accTL m ws cs sc1 bc1 with
      | .error e => .error e
      | .ok (rs, sc2, bc2) => .ok (r :: rs, sc2, bc2)
end

/-- the children's stored attributes are the given lists of sets -/
def Agree (attrs : Attrs) : List T → List Row → Prop
  | [], [] => True
  | c :: cs, r :: rs => getAttr attrs c.id = some r ∧ Agree attrs cs rs
  | _, _ => False

namespace Aux

theorem id_node (i : Nat) (x : Option Nat) (l : Option Frac) (s : Option String) (cs : List T) :
    (T.node i x l s cs).id = i := rfl

theorem id_mem_ids (t : T) : t.id ∈ ids t := by
  cases t; simp [ids, T.nodes, T.id]

theorem ids_leaf (i : Nat) (x : Option Nat) (l : Option Frac) (s : Option String) :
    ids (.node i x l s []) = [i] := by simp [ids, T.nodes, T.nodesL, T.id]

theorem ids_node2 (i : Nat) (x : Option Nat) (l : Option Frac) (s : Option String) (a b : T) :
    ids (.node i x l s [a, b]) = i :: (ids a ++ ids b) := by
  simp [ids, T.nodes, T.nodesL, T.id]

theorem getAttr_cons_self (i : Nat) (r : Row) (at_ : Attrs) : getAttr ((i, r) :: at_) i = some r := by
  simp [getAttr]

theorem getAttr_cons_ne {i j : Nat} (h : j ≠ i) (r : Row) (at_ : Attrs) :
    getAttr ((i, r) :: at_) j = getAttr at_ j := by
  have : (i == j) = false := by simp; exact fun e => h e.symm
  simp [getAttr, this]

theorem runNodes_append (m : Matrix) (ws : List Nat) : ∀ (l₁ : List T) (st : St) (l₂ : List T),
    runNodes m ws st (l₁ ++ l₂) =
      match runNodes m ws st l₁ with
      | .error e => .error e
      | .ok st' => runNodes m ws st' l₂
  | [], st, l₂ => by simp [runNodes]
  | nd :: l₁, st, l₂ => by
    simp only [List.cons_append, runNodes]
    cases stepNode m ws st nd with
    | error e => rfl
    | ok st' => exact runNodes_append m ws l₁ st' l₂

/-! ### the general refinement: any tree (polytomies, unary nodes, leaves without rows), any matrix, any weights -/

theorem idsL_cons (c : T) (cs : List T) : idsL (c :: cs) = ids c ++ idsL cs := by
  simp [ids, idsL, T.nodesL]

theorem ids_node (i : Nat) (x : Option Nat) (l : Option Frac) (s : Option String) (cs : List T) :
    ids (.node i x l s cs) = i :: idsL cs := by
  simp [ids, idsL, T.nodes, T.id]

theorem foldKids_eq (ws : List Nat) (attrs : Attrs) : ∀ (kids : List T) (rows : List Row) (left : Row) (sc : Nat)
    (bc : List Nat), Agree attrs kids rows → foldKids ws attrs left kids sc bc = foldRows ws left rows sc bc
  | [], [], _, _, _, _ => by simp [foldKids, foldRows]
  | c :: kids, r :: rows, left, sc, bc, h => by
    simp only [Agree] at h
    simp only [foldKids, foldRows, h.1]
    split
    · rfl
    · exact foldKids_eq ws attrs kids rows _ _ _ h.2
  | [], _ :: _, _, _, _, h => by simp [Agree] at h
  | _ :: _, [], _, _, _, h => by simp [Agree] at h

theorem stepNode_eq (m : Matrix) (ws : List Nat) (st : St) (i : Nat) (x : Option Nat) (l : Option Frac)
    (s : Option String) : ∀ (cs : List T) (rows : List Row), Agree st.attrs cs rows →
    stepNode m ws st (.node i x l s cs) =
      match nodeStep m ws x rows st.score st.bychar with
      | .error e => .error e
      | .ok (row, sc, bc) => .ok { attrs := (i, row) :: st.attrs, score := sc, bychar := bc }
  | [], [], _ => by
    simp only [stepNode, T.cs, T.taxon, id_node, nodeStep]
    cases lookupRow m x <;> rfl
  | [c], [r], _ => by simp [stepNode, T.cs, nodeStep]
  | c0 :: c1 :: rest, r0 :: r1 :: rrest, h => by
    simp only [Agree] at h
    simp only [stepNode, T.cs, id_node, nodeStep, h.1]
    rw [foldKids_eq ws st.attrs (c1 :: rest) (r1 :: rrest) r0 _ _ (by simp only [Agree]; exact h.2)]
    cases foldRows ws r0 (r1 :: rrest) st.score st.bychar with
    | error e => rfl
    | ok v => obtain ⟨a, b, c⟩ := v; rfl
  | [], _ :: _, h => by simp [Agree] at h
  | [_], [], h => by simp [Agree] at h
  | [_], _ :: _ :: _, h => by simp [Agree] at h
  | _ :: _ :: _, [], h => by simp [Agree] at h
  | _ :: _ :: _, [_], h => by simp [Agree] at h

/-- what the machine does on the post-order of `t`, from state `st` -/
def GoodT (m : Matrix) (ws : List Nat) (st : St) (t : T) : Prop :=
  (∀ e, accT m ws t st.score st.bychar = .error e → runNodes m ws st (post t) = .error e) ∧
  (∀ row sc bc, accT m ws t st.score st.bychar = .ok (row, sc, bc) → ∃ st' : St,
    runNodes m ws st (post t) = .ok st' ∧ getAttr st'.attrs t.id = some row ∧ st'.score = sc ∧ st'.bychar = bc ∧
    ∀ j, j ∉ ids t → getAttr st'.attrs j = getAttr st.attrs j)

def GoodTL (m : Matrix) (ws : List Nat) (st : St) (cs : List T) : Prop :=
  (∀ e, accTL m ws cs st.score st.bychar = .error e → runNodes m ws st (postL cs) = .error e) ∧
  (∀ rows sc bc, accTL m ws cs st.score st.bychar = .ok (rows, sc, bc) → ∃ st' : St,
    runNodes m ws st (postL cs) = .ok st' ∧ Agree st'.attrs cs rows ∧ st'.score = sc ∧ st'.bychar = bc ∧
    ∀ j, j ∉ idsL cs → getAttr st'.attrs j = getAttr st.attrs j)

mutual
/-- **refinement**: the post-order machine with its attribute store equals the plain recursion `accT`, on every tree whose
    nodes are distinct objects, from every state (in particular whatever attributes the nodes carry) -/
theorem run_T (m : Matrix) (ws : List Nat) : ∀ (t : T), (ids t).Nodup → ∀ st : St, GoodT m ws st t
  | .node i x l s cs, hid, st => by
    rw [ids_node] at hid
    have ⟨hi, hcs⟩ := List.nodup_cons.mp hid
    have ih := run_TL m ws cs hcs st
    have hp : post (.node i x l s cs) = postL cs ++ [.node i x l s cs] := by simp [post]
    constructor
    · intro e he
      rw [hp, runNodes_append]
      simp only [accT] at he
      cases hl : accTL m ws cs st.score st.bychar with
      | error e' =>
        rw [hl] at he
        simp only at he
        cases he
        rw [ih.1 _ hl]
      | ok v =>
        obtain ⟨rows, sc', bc'⟩ := v
        rw [hl] at he
        simp only at he
        obtain ⟨st', hr, hag, hs, hb, _⟩ := ih.2 rows sc' bc' hl
        rw [hr]
        simp only [runNodes]
        rw [stepNode_eq m ws st' i x l s cs rows hag, hs, hb, he]
    · intro row sc bc hok
      simp only [accT] at hok
      cases hl : accTL m ws cs st.score st.bychar with
      | error e' => rw [hl] at hok; simp at hok
      | ok v =>
        obtain ⟨rows, sc', bc'⟩ := v
        rw [hl] at hok
        simp only at hok
        obtain ⟨st', hr, hag, hs, hb, hf⟩ := ih.2 rows sc' bc' hl
        refine ⟨{ attrs := (i, row) :: st'.attrs, score := sc, bychar := bc }, ?_, ?_, rfl, rfl, ?_⟩
        · rw [hp, runNodes_append, hr]
          simp only [runNodes]
          rw [stepNode_eq m ws st' i x l s cs rows hag, hs, hb, hok]
        · simp [id_node, getAttr_cons_self]
        · intro j hj
          rw [ids_node] at hj
          simp only [List.mem_cons, not_or] at hj
          rw [getAttr_cons_ne hj.1, hf j hj.2]
theorem run_TL (m : Matrix) (ws : List Nat) : ∀ (cs : List T), (idsL cs).Nodup → ∀ st : St, GoodTL m ws st cs
  | [], _, st => by
    constructor
    · intro e he; simp [accTL] at he
    · intro rows sc bc hok
      simp only [accTL] at hok
      cases hok
      exact ⟨st, by simp [postL, runNodes], by simp [Agree], rfl, rfl, fun _ _ => rfl⟩
  | c :: cs, hid, st => by
    rw [idsL_cons] at hid
    have ⟨hc, hcs, hdisj⟩ := List.nodup_append.mp hid
    have ihc := run_T m ws c hc st
    have hp : postL (c :: cs) = post c ++ postL cs := by simp [postL]
    constructor
    · intro e he
      rw [hp, runNodes_append]
      simp only [accTL] at he
      cases h1 : accT m ws c st.score st.bychar with
      | error e' =>
        rw [h1] at he; simp only at he; cases he
        rw [ihc.1 _ h1]
      | ok v =>
        obtain ⟨r, sc1, bc1⟩ := v
        rw [h1] at he
        simp only at he
        obtain ⟨st1, hr1, hg1, hs1, hb1, hf1⟩ := ihc.2 r sc1 bc1 h1
        have ihcs := run_TL m ws cs hcs st1
        rw [hr1]
        simp only
        cases h2 : accTL m ws cs sc1 bc1 with
        | error e'' =>
          rw [h2] at he; simp only at he; cases he
          exact ihcs.1 _ (by rw [hs1, hb1]; exact h2)
        | ok v2 =>
          obtain ⟨a, b, d⟩ := v2
          rw [h2] at he; simp at he
    · intro rows sc bc hok
      simp only [accTL] at hok
      cases h1 : accT m ws c st.score st.bychar with
      | error e' => rw [h1] at hok; simp at hok
      | ok v =>
        obtain ⟨r, sc1, bc1⟩ := v
        rw [h1] at hok
        simp only at hok
        obtain ⟨st1, hr1, hg1, hs1, hb1, hf1⟩ := ihc.2 r sc1 bc1 h1
        have ihcs := run_TL m ws cs hcs st1
        cases h2 : accTL m ws cs sc1 bc1 with
        | error e'' => rw [h2] at hok; simp at hok
        | ok v2 =>
          obtain ⟨rs, sc2, bc2⟩ := v2
          rw [h2] at hok
          simp only [Except.ok.injEq, Prod.mk.injEq] at hok
          obtain ⟨e1, e2, e3⟩ := hok
          subst e1 e2 e3
          obtain ⟨st2, hr2, hag2, hs2, hb2, hf2⟩ := ihcs.2 rs sc2 bc2 (by rw [hs1, hb1]; exact h2)
          have hcid : c.id ∉ idsL cs := fun h => hdisj _ (id_mem_ids c) _ h rfl
          refine ⟨st2, ?_, ?_, hs2, hb2, ?_⟩
          · rw [hp, runNodes_append, hr1]; exact hr2
          · simp only [Agree]
            exact ⟨by rw [hf2 _ hcid]; exact hg1, hag2⟩
          · intro j hj
            rw [idsL_cons] at hj
            simp only [List.mem_append, not_or] at hj
            rw [hf2 j hj.2, hf1 j hj.1]
end

end Aux
end DendroModel.C16
