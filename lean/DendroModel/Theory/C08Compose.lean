import DendroModel.Theory.C08Cut
import DendroModel.Theory.C08Spec
/-! C08 — restrictions compose: restricting an (unsuppressed) induced subtree again is restricting the original tree by the
conjunction of the two predicates.  Used for HISTORIES of in-place operations, e.g. `prune_subtree(…, suppress_unifurcations=False)`
followed by a default `prune_subtree`. -/
namespace DendroModel.C08.Aux
open DendroModel

def both (p q : Acc) : Acc := fun i x => p i x && q i x

mutual
theorem restrict_bind (p q : Acc) : ∀ t : T,
    (restrict p false t).bind (restrict q false) = restrict (both p q) false t
  | .node i x l s [] => by
      by_cases hp : p i x = true <;> by_cases hq : q i x = true <;> simp [restrict, both, hp, hq]
  | .node i x l s (c :: cs) => by
      have hl := restrictL_bind p q (c :: cs)
      rw [restrict_node_of p i x l s c cs _ rfl, restrict_node_of (both p q) i x l s c cs _ rfl, ← hl]
      generalize restrictL p false (c :: cs) = ks
      match ks with
      | [] => simp [restrictL]
      | k :: ks' =>
        simp only [List.isEmpty_cons, Bool.false_eq_true, if_false, Option.bind_some]
        exact restrict_node_of q i x l s k ks' _ rfl
theorem restrictL_bind (p q : Acc) : ∀ cs : List T,
    restrictL q false (restrictL p false cs) = restrictL (both p q) false cs
  | [] => by simp [restrictL]
  | c :: cs => by
      have h1 := restrict_bind p q c
      have h2 := restrictL_bind p q cs
      simp only [restrictL]
      rw [← h1, ← h2]
      cases hc : restrict p false c with
      | none => simp
      | some r =>
        simp only [Option.bind_some, restrictL]
end

/-- restricting the unsuppressed induced subtree once more (with or without suppression) = restricting the original tree by both
    predicates at once -/
theorem restrict_restrict (p q : Acc) (sup : Bool) (t r : T) (h : restrict p false t = some r) :
    restrict q sup r = restrict (both p q) sup t := by
  rw [← restrict_supIf q sup r, ← restrict_supIf (both p q) sup t, ← restrict_bind p q t, h]
  rfl

mutual
theorem ids_heads : ∀ u : T, ids u = (heads u).map (·.1)
  | .node i x l s cs => by simp [ids, heads, idsL_heads cs]
theorem idsL_heads : ∀ us : List T, idsL us = (headsL us).map (·.1)
  | [] => rfl
  | c :: cs => by simp [idsL, headsL, ids_heads c, idsL_heads cs]
end

theorem restrict_ids_sublist (keep : Acc) (t r : T) (h : restrict keep false t = some r) : (ids r).Sublist (ids t) := by
  rw [ids_heads r, ids_heads t]
  exact (nosup_aux keep t r h).1.map _

end DendroModel.C08.Aux
