import DendroModel.Model.C13
import DendroModel.Theory.C13Mono
import DendroModel.Theory.C13Hom
/-! C13 — the run-time progress checks of the TREES-block, TAXA-block and TRANSLATE loops are dead code too: every turn
    consumes a token, or the stream is dry and the turn ends at end of input, where the Python loop stops as well. -/
namespace DendroModel.C13.Aux
open DendroModel.C13

theorem nextU_dry (x : TS) (h : x.rest = []) : x.nextU.cur = none ∧ x.nextU.eof = true ∧ x.nextU.rest = [] := by
  unfold TS.nextU TS.step; rw [h]; simp

/-- a turn of the TREES-block loop consumes a token when there is one … -/
theorem treesStepR_lt {σ} (cfg : Cfg) (fl : Flags) (S : Sink σ) (c : Core) (v : BlockVars) (acc : σ) (r : Core × BlockVars × σ)
    (hne : c.ts.rest ≠ []) (h : treesStepR cfg fl S c v acc = .ok r) : r.1.ts.rest.length < c.ts.rest.length := by
  -- the turn starts with `next_token_ucase`: redo the bound from the state after it
  have b := TS.nextU_lt c.ts hne
  unfold treesStepR at h
  simp only [] at h
  have hres : ∀ c2, (if v.haveNs = true then Except.ok { c with ts := c.ts.nextU } else getNamespace fl { c with ts := c.ts.nextU } v.link) = Except.ok c2 →
      c2.ts = c.ts.nextU := by
    intro c2 hn
    split at hn
    · cases hn; rfl
    · have := getNamespace_ts _ _ _ _ hn
      exact this
  split at h
  · split at h
    · cases h
    · rename_i x hp
      cases h
      have a := parseLink_le _ _ hp
      simp at a ⊢; omega
  · split at h
    · split at h
      · cases h
      · rename_i x hp
        cases h
        have a := parseTitle_le _ _ hp
        simp at a ⊢; omega
    · split at h
      · split at h
        · cases h
        · rename_i c2 hn
          have e := hres c2 hn
          split at h
          · cases h
          · rename_i x hp
            cases h
            have a := parseTranslate_le _ _ _ hp
            rw [e] at a
            simp at a ⊢; omega
      · split at h
        · split at h
          · cases h
          · rename_i c2 hn
            have e := hres c2 hn
            split at h
            · cases h
            · rename_i x hp
              cases h
              have a := treeRunR_le cfg S _ _ _ _ _ rfl hp
              simp [Core.withDoc, TS.clear, e] at a ⊢
              omega
        · split at h
          · cases h
          · cases h; exact b

/-- … and on a dry stream ends at end of input -/
theorem treesStepR_dry {σ} (cfg : Cfg) (fl : Flags) (S : Sink σ) (c : Core) (v : BlockVars) (acc : σ) (r : Core × BlockVars × σ)
    (hd : c.ts.rest = []) (h : treesStepR cfg fl S c v acc = .ok r) : r.1.ts.eof = true := by
  obtain ⟨hc, he, _⟩ := nextU_dry c.ts hd
  unfold treesStepR at h
  simp only [hc] at h
  simp at h
  cases h
  exact he

theorem treesLoopR_done {σ} (cfg : Cfg) (fl : Flags) (S : Sink σ) (c : Core) (v : BlockVars) (acc : σ) (h : c.ts.eof = true) :
    treesLoopR cfg fl S c v acc = .ok ({ c with ts := skipSemi c.ts }, acc) := by
  rw [treesLoopR.eq_def]; simp [h]

/-- the run-time progress check of `_parse_trees_block`'s loop is dead code -/
theorem treesLoopR_dead {σ} (cfg : Cfg) (fl : Flags) (S : Sink σ) (c : Core) (v : BlockVars) (acc : σ) :
    treesLoopR cfg fl S c v acc =
      if c.ts.eof || v.tok == none || v.tok == some "END" || v.tok == some "ENDBLOCK" then
        .ok ({ c with ts := skipSemi c.ts }, acc)
      else match treesStepR cfg fl S c v acc with
        | .error e => .error e
        | .ok (c5, v5, acc5) => treesLoopR cfg fl S c5 v5 acc5 := by
  conv => lhs; rw [treesLoopR.eq_def]
  split
  · rfl
  · cases hst : treesStepR cfg fl S c v acc with
    | error e => rfl
    | ok r =>
      obtain ⟨c5, v5, acc5⟩ := r
      simp only []
      by_cases hp : c5.ts.rest.length < c.ts.rest.length
      · simp only [dif_pos hp]
      · simp only [dif_neg hp]
        have hd : c.ts.rest = [] := by
          by_cases hne : c.ts.rest = []
          · exact hne
          · exact absurd (treesStepR_lt cfg fl S c v acc _ hne hst) hp
        have he : c5.ts.eof = true := treesStepR_dry cfg fl S c v acc _ hd hst
        simp only [he, if_true]
        exact (treesLoopR_done cfg fl S c5 v5 acc5 he).symm

/-- the same for the iterator's copy -/
theorem treesLoopY_dead (cfg : Cfg) (fl : Flags) (c : Core) (v : BlockVars) (out : List Tree) :
    treesLoopY cfg fl c v out =
      if c.ts.eof || v.tok == none || v.tok == some "END" || v.tok == some "ENDBLOCK" then
        .ok ({ c with ts := skipSemi c.ts }, out)
      else match treesStepY cfg fl c v out with
        | .error e => .error e
        | .ok (c5, v5, out5) => treesLoopY cfg fl c5 v5 out5 := by
  rw [treesLoopY_eq cfg fl _ c v out rfl, treesLoopR_dead, treesStepY_eq]
  split
  · rfl
  · cases treesStepR cfg fl pseudoSink c v out with
    | error e => rfl
    | ok r =>
      obtain ⟨c5, v5, out5⟩ := r
      simp only []
      exact (treesLoopY_eq cfg fl _ c5 v5 out5 rfl).symm

/-! ### TAXA block -/

theorem taxaStep_lt (fl : Flags) (c : Core) (hv : Bool) (r : Core × Bool × Option String) (hne : c.ts.rest ≠ [])
    (h : taxaStep fl c hv = .ok r) : r.1.ts.rest.length < c.ts.rest.length := by
  have b := TS.nextU_lt c.ts hne
  unfold taxaStep at h
  split at h
  · cases h
  · rename_i c1 have1 tok1 h1
    have a1 : c1.ts.rest.length ≤ c.ts.nextU.rest.length := by
      unfold taxaTitle at h1
      simp only [] at h1
      split at h1
      · split at h1
        · cases h1
        · rename_i x hp
          cases h1
          have a := parseTitle_le _ _ hp
          simpa using a
      · cases h1
        exact Nat.le_refl _
    split at h
    · cases h
    · rename_i c2 h2
      split at h
      · cases h
      · rename_i c4 have4 h3
        cases h
        have b2 := taxaDims_le _ _ _ h2
        have d := taxaLabels_le _ _ _ _ _ h3
        simp at b2 d ⊢
        omega

/-- on a dry stream `_parse_taxa_block` fails (`require`-style reads meet the end of the stream): the loop's first test -/
theorem taxaLoop_dry (fl : Flags) (c : Core) (hv : Bool) (hd : c.ts.rest = []) : taxaLoop fl c hv = .error .parse := by
  rw [taxaLoop.eq_def]; simp [hd]

/-- the run-time progress check of `_parse_taxa_block`'s loop is dead code -/
theorem taxaLoop_dead (fl : Flags) (c : Core) (hv : Bool) :
    taxaLoop fl c hv =
      if c.ts.rest = [] then .error .parse
      else match taxaStep fl c hv with
        | .error e => .error e
        | .ok (c4, have4, tok1) =>
          if tok1 == some "END" || tok1 == some "ENDBLOCK" then .ok { c4 with ts := skipSemi c4.ts }
          else taxaLoop fl c4 have4 := by
  conv => lhs; rw [taxaLoop.eq_def]
  by_cases hne : c.ts.rest = []
  · simp [hne]
  · simp only [dif_neg hne, if_neg hne]
    cases hst : taxaStep fl c hv with
    | error e => rfl
    | ok r =>
      obtain ⟨c4, have4, tok1⟩ := r
      simp only []
      split
      · rfl
      · simp only [dif_pos (taxaStep_lt fl c hv _ hne hst)]

/-! ### TRANSLATE -/

/-- the run-time progress check of the TRANSLATE loop is dead code: three tokens are read per entry -/
theorem translateLoop_progress (d : Doc) (h : ¬ d.ts.rest.length < 2) : d.ts.next.next.next.rest.length < d.ts.rest.length := by
  simp [TS.next_rest]; omega


/-- … hence the TRANSLATE loop never answers `stuck` -/
theorem translateLoop_not_stuck : ∀ (n : Nat) (d : Doc) (ntax : Option Nat) (mp : Mapper), d.ts.rest.length = n →
    translateLoop d ntax mp ≠ .error .stuck := by
  intro n
  induction n using Nat.strongRecOn with
  | _ n ih =>
    intro d ntax mp hn h
    rw [translateLoop.eq_def] at h
    split at h
    · cases h
    · rename_i h2
      simp only [] at h
      split at h
      · cases h
      · split at h
        · cases h
        · split at h
          · cases h
          · split at h
            · rename_i e hr
              cases h
              split at hr
              · cases hr
              · split at hr
                · cases hr
                · cases hr
            · split at h
              · cases h
              · split at h
                · cases h
                · split at h
                  · cases h
                  · split at h
                    · rename_i hp
                      exact ih _ (hn ▸ hp) _ _ _ rfl h
                    · rename_i hp
                      exact hp (translateLoop_progress d h2)

end DendroModel.C13.Aux
