import DendroModel.Theory.C01Sort
/-! C01 — unrooted trees with fewer than three taxa: a well-formed unifurcation-free tree is a single leaf or a cherry, so there
is one topology per leaf set and `canonU` is the identity on it. -/
namespace DendroModel.C01.Bridge
open DendroModel DendroModel.Hier DendroModel.C01

theorem ne_of_disjoint_masks {m1 m2 x y : Nat} (h : m1 &&& m2 = 0) (hx : x ∈ bits m1) (hy : y ∈ bits m2) : x ≠ y := by
  intro e; subst e
  exact (Set.disjoint_left.mp ((and_eq_zero_iff _ _).mp h)) hx hy

/-- three children (well formed) carry three different taxa -/
theorem three_of_children (c1 c2 c3 : Hier.T) (r : List Hier.T) (hg : GoodL (c1 :: c2 :: c3 :: r)) :
    ThreeTaxa (maskL (c1 :: c2 :: c3 :: r)) := by
  simp only [GoodL] at hg
  obtain ⟨_, h1, d1, _, h2, d2, _, h3, _, _⟩ := hg
  obtain ⟨x1, hx1⟩ := ne_zero_bits h1
  obtain ⟨x2, hx2⟩ := ne_zero_bits h2
  obtain ⟨x3, hx3⟩ := ne_zero_bits h3
  have s2 : x2 ∈ bits (maskL (c2 :: c3 :: r)) := by simp only [maskL, bits_or]; exact Or.inl hx2
  have s3' : x3 ∈ bits (maskL (c3 :: r)) := by simp only [maskL, bits_or]; exact Or.inl hx3
  have s3 : x3 ∈ bits (maskL (c2 :: c3 :: r)) := by
    simp only [maskL, bits_or] at s3' ⊢; exact Or.inr s3'
  refine ⟨x1, x2, x3, ?_, ?_, ?_, ne_of_disjoint_masks d1 hx1 s2, ne_of_disjoint_masks d1 hx1 s3,
    ne_of_disjoint_masks d2 hx2 s3'⟩
  · simp only [maskL, bits_or]; exact Or.inl hx1
  · simp only [maskL, bits_or] at s2 ⊢; exact Or.inr s2
  · simp only [maskL, bits_or] at s3 ⊢; exact Or.inr s3

/-- an internal child (≥ 2 children of its own) next to a sibling: three different taxa -/
theorem three_of_internal (ds : List Hier.T) (c : Hier.T) (hgd : GoodL ds) (h2 : 2 ≤ ds.length) (hc : mask c ≠ 0)
    (hdis : maskL ds &&& mask c = 0) (L : Nat) (hL : bits (maskL ds) ⊆ bits L) (hcL : bits (mask c) ⊆ bits L) : ThreeTaxa L := by
  match ds, hgd, h2 with
  | d1 :: d2 :: r, hgd, _ =>
    simp only [GoodL] at hgd
    obtain ⟨_, h1, d12, _, h2', _, _⟩ := hgd
    obtain ⟨x1, hx1⟩ := ne_zero_bits h1
    obtain ⟨x2, hx2⟩ := ne_zero_bits h2'
    obtain ⟨x3, hx3⟩ := ne_zero_bits hc
    have s1 : x1 ∈ bits (maskL (d1 :: d2 :: r)) := by simp only [maskL, bits_or]; exact Or.inl hx1
    have s2' : x2 ∈ bits (maskL (d2 :: r)) := by simp only [maskL, bits_or]; exact Or.inl hx2
    have s2 : x2 ∈ bits (maskL (d1 :: d2 :: r)) := by simp only [maskL, bits_or] at s2' ⊢; exact Or.inr s2'
    exact ⟨x1, x2, x3, hL s1, hL s2, hcL hx3, ne_of_disjoint_masks d12 hx1 s2', ne_of_disjoint_masks hdis s1 hx3,
      ne_of_disjoint_masks hdis s2 hx3⟩

/-- fewer than three taxa: a single leaf or a cherry -/
theorem small_shape (X : Hier.T) (hg : Good X) (hn : NoUnif X) (h3 : ¬ ThreeTaxa (mask X)) :
    (∃ i, X = .leaf i) ∨ (∃ a b, a ≠ b ∧ X = .node [.leaf a, .leaf b]) := by
  cases X with
  | leaf i => exact Or.inl ⟨i, rfl⟩
  | node cs =>
    right
    simp only [Good] at hg
    simp only [NoUnif] at hn
    simp only [mask] at h3
    match cs, hg, hn, h3 with
    | c1 :: c2 :: c3 :: r, hg, _, h3 => exact absurd (three_of_children c1 c2 c3 r hg) h3
    | [.leaf a, .leaf b], hg, _, _ =>
      refine ⟨a, b, ?_, rfl⟩
      simp only [GoodL, mask, maskL, Nat.or_zero] at hg
      exact ne_of_disjoint_masks hg.2.2.1 (by rw [bits_shift]; rfl) (by rw [bits_shift]; rfl)
    | [.node ds, c], hg, hn, h3 =>
      exfalso; apply h3
      simp only [GoodL, Good, maskL, mask, Nat.or_zero] at hg
      simp only [NoUnifL, NoUnif] at hn
      exact three_of_internal ds c hg.1 hn.2.1.1 hg.2.2.2.2.1 hg.2.2.1 _ (by simp [maskL, mask]) (by simp [maskL])
    | [.leaf a, .node ds], hg, hn, h3 =>
      exfalso; apply h3
      simp only [GoodL, Good, maskL, mask, Nat.or_zero] at hg
      simp only [NoUnifL, NoUnif] at hn
      exact three_of_internal ds (.leaf a) hg.2.2.2.1 hn.2.2.1.1 hg.2.1 (by rw [Nat.and_comm]; exact hg.2.2.1) _
        (by simp [maskL, mask]) (by simp [maskL, mask])

theorem canonU_cherry (k a b : Nat) : canonU k (.node [.leaf a, .leaf b]) = .node [.leaf a, .leaf b] := by
  simp only [canonU, collapse2, reseed, reseedL]
  split
  · simp
  · split <;> simp

/-- on trees with fewer than three taxa `canonU` is the identity -/
theorem canonU_small (k : Nat) (X : Hier.T) (hg : Good X) (hn : NoUnif X) (h3 : ¬ ThreeTaxa (mask X)) : canonU k X = X := by
  rcases small_shape X hg hn h3 with ⟨i, rfl⟩ | ⟨a, b, _, rfl⟩
  · rfl
  · exact canonU_cherry k a b

/-- … and there is one of them per leaf set -/
theorem small_iso (X Y : Hier.T) (hgX : Good X) (hgY : Good Y) (hnX : NoUnif X) (hnY : NoUnif Y) (hm : mask X = mask Y)
    (h3 : ¬ ThreeTaxa (mask X)) : Iso X Y := by
  rcases small_shape X hgX hnX h3 with ⟨i, rfl⟩ | ⟨a, b, hab, rfl⟩ <;>
    rcases small_shape Y hgY hnY (by rw [← hm]; exact h3) with ⟨j, rfl⟩ | ⟨a', b', hab', rfl⟩
  · simp only [mask] at hm
    rw [shift_inj hm]; simp [Iso]
  · exfalso
    simp only [mask, maskL, Nat.or_zero] at hm
    have ha : a' ∈ bits (1 <<< i) := by rw [hm, bits_or, bits_shift, bits_shift]; exact Or.inl rfl
    have hb : b' ∈ bits (1 <<< i) := by rw [hm, bits_or, bits_shift, bits_shift]; exact Or.inr rfl
    rw [bits_shift, Set.mem_singleton_iff] at ha hb
    exact hab' (ha.trans hb.symm)
  · exfalso
    simp only [mask, maskL, Nat.or_zero] at hm
    have ha : a ∈ bits (1 <<< j) := by rw [← hm, bits_or, bits_shift, bits_shift]; exact Or.inl rfl
    have hb : b ∈ bits (1 <<< j) := by rw [← hm, bits_or, bits_shift, bits_shift]; exact Or.inr rfl
    rw [bits_shift, Set.mem_singleton_iff] at ha hb
    exact hab (ha.trans hb.symm)
  · simp only [mask, maskL, Nat.or_zero] at hm
    have ha : a ∈ bits (1 <<< a' ||| 1 <<< b') := by rw [← hm, bits_or, bits_shift, bits_shift]; exact Or.inl rfl
    have hb : b ∈ bits (1 <<< a' ||| 1 <<< b') := by rw [← hm, bits_or, bits_shift, bits_shift]; exact Or.inr rfl
    rw [bits_or, bits_shift, bits_shift] at ha hb
    rcases ha with ha | ha <;> rcases hb with hb | hb
    · exact absurd (ha.trans hb.symm) hab
    · rw [Set.mem_singleton_iff] at ha hb; subst ha; subst hb; simp [Iso, IsoL]
    · rw [Set.mem_singleton_iff] at ha hb; subst ha; subst hb; simp [Iso, IsoL]
    · exact absurd (ha.trans hb.symm) hab

end DendroModel.C01.Bridge
