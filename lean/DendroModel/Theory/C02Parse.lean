import DendroModel.Model.C02
namespace DendroModel.C02
namespace Aux

/-! ### token-level reference writer on raw trees (commas between children) -/

def lab : Option Str → List Tok | none => [] | some s => [.word s]
def ln : Option Str → List Tok | none => [] | some s => [.colon, .word s]

mutual
def wr : RT → List Tok
  | .node l e cs => (match cs with | [] => [] | c :: cs' => [.lp] ++ wrL (c :: cs') ++ [.rp]) ++ lab l ++ ln e
def wrL : List RT → List Tok
  | [] => []
  | [c] => wr c
  | c :: d :: cs => wr c ++ [.comma] ++ wrL (d :: cs)
end

mutual
def need : RT → Nat
  | .node _ _ cs => 2 + needL cs
def needL : List RT → Nat
  | [] => 1
  | c :: cs => need c + 2 + needL cs
end

inductive Follow | rp | comma | semi
def Follow.tok : Follow → Tok | .rp => .rp | .comma => .comma | .semi => .semi
def Follow.after : Follow → List Tok → List Tok × Bool
  | .rp, rest => (.rp :: rest, false)
  | .comma, rest => (.comma :: rest, false)
  | .semi, rest => (rest, true)

theorem tail_spec (cs : List RT) (l e : Option Str) (d : Follow) (rest : List Tok) :
    parseTail cs none none (lab l ++ ln e ++ d.tok :: rest) = some (.node l e cs, d.after rest) := by
  cases l <;> cases e <;> cases d <;> simp [lab, ln, parseTail, Follow.tok, Follow.after]

/-- the blank node: no tag, no length, no children — it writes nothing -/
def isBlank : RT → Bool
  | .node none none [] => true
  | _ => false

theorem blank_eq (t : RT) (h : isBlank t = true) : t = blank := by
  cases t with
  | node l e cs => cases l <;> cases e <;> cases cs <;> simp [isBlank, blank] at h ⊢

theorem wr_blank : wr blank = [] := by simp [blank, wr, lab, ln]

/-- first token of anything but the blank node: `(`, a word or `:` — never `,` `)` `;` -/
theorem wr_head (t : RT) (h : isBlank t = false) (tl : List Tok) :
    (∃ r, wr t ++ tl = .lp :: r) ∨ (∃ w r, wr t ++ tl = .word w :: r) ∨ (∃ r, wr t ++ tl = .colon :: r) := by
  cases t with
  | node l e cs =>
    cases cs with
    | nil =>
      cases l with
      | none =>
        cases e with
        | none => simp [isBlank] at h
        | some x => right; right; exact ⟨.word x :: tl, by simp [wr, lab, ln]⟩
      | some w => right; left; exact ⟨w, ln e ++ tl, by simp [wr, lab]⟩
    | cons c cs' => left; exact ⟨_, by simp [wr]; rfl⟩

/-- continuation used by parseChildren after a child has been parsed -/
def contChild (f : Nat) (acc : List RT) (count : Nat) : Option (RT × List Tok × Bool) → Option (List RT × List Tok)
  | none => none
  | some (_, _, true) => none
  | some (c, rest', false) => parseChildren f rest' (acc ++ [c]) true (count + 1)

theorem pc_lp (f : Nat) (r : List Tok) (acc : List RT) (cr : Bool) (cnt : Nat) :
    parseChildren (f + 1) (.lp :: r) acc cr cnt = contChild f acc cnt (parseNode f (.lp :: r)) := by
  rw [parseChildren]
  · cases parseNode f (.lp :: r) with
    | none => rfl
    | some x => obtain ⟨c, r', b⟩ := x; cases b <;> rfl
  all_goals (intro _ h; cases h)

theorem pc_word (f : Nat) (w : Str) (r : List Tok) (acc : List RT) (cr : Bool) (cnt : Nat) :
    parseChildren (f + 1) (.word w :: r) acc cr cnt = contChild f acc cnt (parseNode f (.word w :: r)) := by
  rw [parseChildren]
  · cases parseNode f (.word w :: r) with
    | none => rfl
    | some x => obtain ⟨c, r', b⟩ := x; cases b <;> rfl
  all_goals (intro _ h; cases h)

theorem pc_colon (f : Nat) (r : List Tok) (acc : List RT) (cr : Bool) (cnt : Nat) :
    parseChildren (f + 1) (.colon :: r) acc cr cnt = contChild f acc cnt (parseNode f (.colon :: r)) := by
  rw [parseChildren]
  · cases parseNode f (.colon :: r) with
    | none => rfl
    | some x => obtain ⟨c, r', b⟩ := x; cases b <;> rfl
  all_goals (intro _ h; cases h)

theorem pc_child (f : Nat) (t : RT) (h : isBlank t = false) (tl : List Tok) (acc : List RT) (cr : Bool) (cnt : Nat) :
    parseChildren (f + 1) (wr t ++ tl) acc cr cnt = contChild f acc cnt (parseNode f (wr t ++ tl)) := by
  rcases wr_head t h tl with ⟨r, hr⟩ | ⟨w, r, hr⟩ | ⟨r, hr⟩
  · rw [hr]; exact pc_lp f r acc cr cnt
  · rw [hr]; exact pc_word f w r acc cr cnt
  · rw [hr]; exact pc_colon f r acc cr cnt

/-- the `,` branch of the children loop after its first step (`acc1` already holds the leading blank, if any) -/
def K (f : Nat) (rest : List Tok) (acc1 : List RT) (created : Bool) (cnt : Nat) : Option (List RT × List Tok) :=
  match eatCommas rest acc1 with
  | (acc2, rest2) =>
    match rest2 with
    | .rp :: _ => parseChildren f rest2 (acc2 ++ [blank]) true (cnt + 1)
    | _ => parseChildren f rest2 acc2 created (cnt + 1)

theorem pc_comma (f : Nat) (rest : List Tok) (acc : List RT) (cr : Bool) (cnt : Nat) :
    parseChildren (f + 1) (.comma :: rest) acc cr cnt = K f rest (if cr then acc else acc ++ [blank]) cr cnt := by
  rw [parseChildren]
  unfold K
  rfl

theorem K_comma (f : Nat) (X : List Tok) (acc1 : List RT) (cr : Bool) (cnt : Nat) :
    K f (.comma :: X) acc1 cr cnt = K f X (acc1 ++ [blank]) cr cnt := by
  simp [K, eatCommas]

theorem K_rp (f : Nat) (rest : List Tok) (acc1 : List RT) (cr : Bool) (cnt : Nat) :
    K (f + 1) (.rp :: rest) acc1 cr cnt = some (acc1 ++ [blank], rest) := by
  simp [K, eatCommas, parseChildren]

theorem K_child (f : Nat) (t : RT) (h : isBlank t = false) (tl : List Tok) (acc1 : List RT) (cr : Bool) (cnt : Nat) :
    K f (wr t ++ tl) acc1 cr cnt = parseChildren f (wr t ++ tl) acc1 cr (cnt + 1) := by
  rcases wr_head t h tl with ⟨r, hr⟩ | ⟨w, r, hr⟩ | ⟨r, hr⟩ <;> (rw [hr]; simp [K, eatCommas])

/-- tokens after a child: nothing if it was the last one, else `,` and the remaining children -/
def after (more : List RT) : List Tok := match more with | [] => [] | _ :: _ => .comma :: wrL more

theorem wrL_cons (d : RT) (more : List RT) : wrL (d :: more) = wr d ++ after more := by
  cases more <;> simp [wrL, after]

/-- one non-blank child `d` followed by `more`, given what the parser does on `d` and (through `K`) on `more` -/
theorem pc_nonblank (g : Nat) (d : RT) (hd : isBlank d = false) (more : List RT) (rest : List Tok)
    (hrt : ∀ (dd : Follow) (rest' : List Tok), parseNode (g + 1) (wr d ++ dd.tok :: rest') = some (d, dd.after rest'))
    (hK : more ≠ [] → ∀ acc1 cr cnt, K g (wrL more ++ .rp :: rest) acc1 cr cnt = some (acc1 ++ more, rest))
    (acc : List RT) (cr : Bool) (cnt : Nat) :
    parseChildren (g + 2) (wr d ++ (after more ++ .rp :: rest)) acc cr cnt = some (acc ++ d :: more, rest) := by
  rw [pc_child (g + 1) d hd]
  cases more with
  | nil =>
    have := hrt .rp rest
    simp only [Follow.tok, Follow.after] at this
    simp only [after, List.nil_append]
    rw [this]
    simp [contChild, parseChildren]
  | cons e es =>
    have := hrt .comma (wrL (e :: es) ++ .rp :: rest)
    simp only [Follow.tok, Follow.after] at this
    simp only [after, List.cons_append]
    rw [this]
    simp only [contChild]
    rw [pc_comma, hK (by simp)]
    simp

mutual
/-- the parser inverts the reference writer on every raw tree (blank nodes included) -/
theorem rt : ∀ (t : RT) (f : Nat), need t ≤ f → ∀ (d : Follow) (rest : List Tok),
    parseNode f (wr t ++ d.tok :: rest) = some (t, d.after rest)
  | .node l e [], f, hf, d, rest => by
      obtain ⟨f', rfl⟩ : ∃ f', f = f' + 1 := ⟨f - 1, by simp [need, needL] at hf; omega⟩
      have hw : wr (.node l e []) ++ d.tok :: rest = lab l ++ ln e ++ d.tok :: rest := by simp [wr]
      rw [hw]
      have hts := tail_spec [] l e d rest
      cases l <;> cases e <;> cases d <;>
        (simp only [lab, ln, List.nil_append, List.cons_append, Follow.tok] at hts ⊢
         rw [parseNode]
         · exact hts
         · intro _ h; cases h)
  | .node l e (c :: cs), f, hf, d, rest => by
      obtain ⟨f', rfl⟩ : ∃ f', f = f' + 1 := ⟨f - 1, by simp [need] at hf; omega⟩
      have hw : wr (.node l e (c :: cs)) ++ d.tok :: rest =
          .lp :: (wrL (c :: cs) ++ .rp :: (lab l ++ ln e ++ d.tok :: rest)) := by
        simp [wr]
      rw [hw, parseNode]
      have hL := rtTop (c :: cs) (by simp) f' (by simp [need] at hf; omega) (lab l ++ ln e ++ d.tok :: rest)
      rw [hL]
      exact tail_spec (c :: cs) l e d rest
/-- the children loop from its start -/
theorem rtTop : ∀ (cs : List RT), cs ≠ [] → ∀ f, needL cs ≤ f → ∀ (rest : List Tok),
    parseChildren f (wrL cs ++ .rp :: rest) [] false 0 = some (cs, rest)
  | [], hne, _, _, _ => absurd rfl hne
  | d :: more, _, f, hf, rest => by
      simp only [needL] at hf
      have hneed : 2 ≤ need d := by cases d; simp [need]
      obtain ⟨g, rfl⟩ : ∃ g, f = g + 2 := ⟨f - 2, by omega⟩
      cases hb : isBlank d with
      | true =>
        have := blank_eq d hb; subst this
        cases more with
        | nil => simp [wrL, wr_blank, parseChildren]
        | cons e es =>
          have hk := rtK (e :: es) (by simp) (g + 1) (by simp [needL] at hf ⊢; omega) [blank] false 0 rest
          simp only [wrL, wr_blank, List.nil_append, List.cons_append, List.append_assoc]
          rw [pc_comma]
          simpa using hk
      | false =>
        rw [wrL_cons, List.append_assoc]
        have h := pc_nonblank g d hb more rest (fun dd rest' => rt d (g + 1) (by omega) dd rest')
          (fun hne acc1 cr cnt => rtK more hne g (by omega) acc1 cr cnt rest) [] false 0
        simpa using h
/-- the children loop inside its `,` branch -/
theorem rtK : ∀ (ds : List RT), ds ≠ [] → ∀ f, needL ds ≤ f → ∀ (acc1 : List RT) (cr : Bool) (cnt : Nat) (rest : List Tok),
    K f (wrL ds ++ .rp :: rest) acc1 cr cnt = some (acc1 ++ ds, rest)
  | [], hne, _, _, _, _, _, _ => absurd rfl hne
  | d :: more, _, f, hf, acc1, cr, cnt, rest => by
      simp only [needL] at hf
      have hneed : 2 ≤ need d := by cases d; simp [need]
      obtain ⟨g, rfl⟩ : ∃ g, f = g + 2 := ⟨f - 2, by omega⟩
      cases hb : isBlank d with
      | true =>
        have := blank_eq d hb; subst this
        cases more with
        | nil => simp [wrL, wr_blank, K_rp]
        | cons e es =>
          have hk := rtK (e :: es) (by simp) (g + 2) (by simp [needL] at hf ⊢; omega) (acc1 ++ [blank]) cr cnt rest
          simp only [wrL, wr_blank, List.nil_append, List.cons_append, List.append_assoc]
          rw [K_comma]
          simpa using hk
      | false =>
        rw [wrL_cons, List.append_assoc, K_child (g + 2) d hb]
        exact pc_nonblank g d hb more rest (fun dd rest' => rt d (g + 1) (by omega) dd rest')
          (fun hne acc1 cr cnt => rtK more hne g (by omega) acc1 cr cnt rest) acc1 cr (cnt + 1)
end

end Aux
end DendroModel.C02
namespace DendroModel.C02
namespace Aux

def viewTok : WTok → List Tok
  | .lp => [.lp]
  | .rp => [.rp]
  | .comma => [.comma]
  | .tag s => [.word s]
  | .len s => [.colon, .word s]

/-- the token kinds a reader sees for what the writer emits -/
def view : List WTok → List Tok
  | [] => []
  | t :: ts => viewTok t ++ view ts

theorem view_append (a b : List WTok) : view (a ++ b) = view a ++ view b := by
  induction a with
  | nil => rfl
  | cons x xs ih => simp [view, ih]

def tagOf (o : WOpts) (leaf : Bool) (tx lb : Option Str) : Option Str :=
  if (rawTag o leaf tx lb).isEmpty then none else some (rawTag o leaf tx lb)

def lenOf (o : WOpts) : Option Str → Option Str
  | some l => if o.sel then none else some l
  | none => none

mutual
/-- what a Newick statement can carry of a tree under writer options `o`: one tag and one length per node -/
def toRT (o : WOpts) : NT → RT
  | .node tx lb ln cs => .node (tagOf o cs.isEmpty tx lb) (lenOf o ln) (toRTL o cs)
def toRTL (o : WOpts) : List NT → List RT
  | [] => []
  | c :: cs => toRT o c :: toRTL o cs
end

theorem view_body (o : WOpts) (leaf : Bool) (tx lb ln : Option Str) :
    view (body o leaf tx lb ln) = lab (tagOf o leaf tx lb) ++ Aux.ln (lenOf o ln) := by
  unfold body tagOf
  cases h : (rawTag o leaf tx lb).isEmpty <;> cases ln with
  | none => simp [view, viewTok, lab, Aux.ln, lenOf]
  | some l => cases hs : o.sel <;> simp [view, viewTok, lab, Aux.ln, lenOf, hs]

def commaWrL (l : List RT) : List Tok := match l with | [] => [] | _ :: _ => .comma :: wrL l

mutual
theorem view_wrNode (o : WOpts) : ∀ (t : NT) (first : Bool),
    view (wrNode o first t) = (if first then [] else [.comma]) ++ wr (toRT o t)
  | .node tx lb ln [], first => by
    cases first <;> simp [wrNode, view_append, view_body, toRT, toRTL, wr, view, viewTok]
  | .node tx lb ln (c :: cs), first => by
    have h := view_wrKids_true o (c :: cs)
    cases first <;>
      simp [wrNode, view_append, view_body, toRT, toRTL, wr, view, viewTok, h]
theorem view_wrKids_true (o : WOpts) : ∀ (cs : List NT),
    view (wrKids o true cs) = wrL (toRTL o cs)
  | [] => by simp [wrKids, view, toRTL, wrL]
  | c :: cs => by
    have h1 := view_wrNode o c true
    have h2 := view_wrKids_false o cs
    cases cs with
    | nil => simp [wrKids, view_append, h1, toRTL, wrL, view]
    | cons d ds => simp [wrKids, view_append, h1, toRTL, wrL, commaWrL] at h2 ⊢; exact h2
theorem view_wrKids_false (o : WOpts) : ∀ (cs : List NT),
    view (wrKids o false cs) = commaWrL (toRTL o cs)
  | [] => by simp [wrKids, view, toRTL, commaWrL]
  | c :: cs => by
    have h1 := view_wrNode o c false
    have h2 := view_wrKids_false o cs
    cases cs with
    | nil => simp [wrKids, view_append, h1, toRTL, wrL, view, commaWrL]
    | cons d ds => simp [wrKids, view_append, h1, toRTL, wrL, commaWrL] at h2 ⊢; exact h2
end

end Aux
end DendroModel.C02
namespace DendroModel.C02
namespace Aux

mutual
theorem need_le : ∀ (t : RT), need t ≤ 6 * (wr t).length + 3
  | .node l e [] => by simp [need, needL]
  | .node l e (c :: cs) => by
    have := needL_le (c :: cs)
    simp [need, wr] at this ⊢
    omega
theorem needL_le : ∀ (cs : List RT), needL cs ≤ 6 * (wrL cs).length + 6
  | [] => by simp [needL]
  | [c] => by
    have := need_le c
    simp [needL, wrL] at this ⊢
    omega
  | c :: d :: ds => by
    have h1 := need_le c
    have h2 := needL_le (d :: ds)
    simp only [needL] at h2 ⊢
    simp [wrL] at h2 ⊢
    omega
end

end Aux

end DendroModel.C02
